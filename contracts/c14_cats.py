"""C14 / C17 - `writer.consolidate_categories(fmd)` executed symbolically from its real source, and the call sites that must
run it on a FileMetaData built from many files.

Model.  fmd.key_value_metadata: None or a list of NKV entries, entry j has key b'pandas' iff ISP(j).  The parsed JSON `meta`:
meta['columns'] is a list of NCOLM column records; record i has a name, `metadata` (falsy or a dict; HASNC(i): it has the key
'num_categories', whose value is the mutable integer nc(i), initially NC0(i)).  fmd.row_groups: NRG row groups, row group r has
NCH(r) chunks; chunk (r, c) is named like column i iff MATCH(i, r, c); its key_value_metadata is None or a list of CKVN(r, c) entries,
entry j is the chunk's num_categories entry iff ISNCK(r, c, j) - its key b'num_categories' (chunk parsed from a footer) or
'num_categories' (row group written in this session: CKEYSTR, free per entry) - and then holds the decimal text of the integer INTJ(r, c, j).
Spec side: HAS(r, c) = the chunk has such an entry, CH(r, c) = the integer of its first one.

For an ARBITRARY categorical column i (the column loop is executed once from a havoc'd state; other columns are untouched:
cats.column_loop.writes_only_own_column), with V = num_categories of column i after the call:
  cats.num_categories_at_least_initial             V >= NC0(i)
  cats.num_categories_bounds_every_chunk           for ALL row groups r and chunks c of that column with a num_categories entry (key bytes OR str):
                                                   CH(r, c) <= V  (INTEGER comparison; posed at a Skolem pair)
  cats.num_categories_is_attained                  V == NC0(i) or V == CH(r, c) for some such chunk   => V is exactly the maximum
  carried by  cats.rowgroup_loop / chunk_loop .invariant_on_entry / .invariant_preserved:
        "current value == max(initial, chunks seen so far)"  (bound for the Skolem chunk if already seen + attained by a chunk seen)
  cats.nothing_else_in_pandas_metadata_changes     the only store into the parsed metadata is ['metadata']['num_categories'] of a
                                                   column that has that key
  cats.writes_updated_json_under_pandas_key        exactly one store into fmd.key_value_metadata: the `value` (field 2) of the first
                                                   b'pandas' entry := json.dumps(<the updated meta>, ...).encode(), after all updates
  cats.other_key_values_untouched                  no other entry / field of fmd.key_value_metadata is written
  cats.no_pandas_metadata_no_change                without a b'pandas' entry nothing is written
  cats.total_on_arbitrary_keys                     the function is TOTAL on the key-value list: keys are opaque byte strings (or str) on which
                                                   only == / != with a constant is defined; decoding one (ensure_str, .decode, str(k, enc))
                                                   must be proved unable to raise - it is not for bytes that are not valid UTF-8
Call sites (ast of the real sources):
  init.many_files_branch_consolidates[list|directory|glob]   in ParquetFile.__init__, every `basepath, fmd = metadata_from_many(...)`
        is followed by `writer.consolidate_categories(fmd)` before fmd is used (self.fmd = fmd, ...)
  merge.builds_through_ParquetFile, write_common_metadata.consolidates_before_writing
"""
import ast

import z3

from vc import backends
from vc.front_py import parse_module
from vc.symexec import (Path, Opt, PyI, PyB, Str, Tup, Custom, Opaque, NoneV, NONE, Unsupported, BUILTINS)
from vlib.common import PROVED, REFUTED, UNKNOWN
from .c04_sorted import (H, LSeq, Univ, register, ix, discharge_inst, comp_over, ListEngine, _assigned_names, _mentions)
from .util import Results, solve

ASSUMED = [
    "consolidate_categories: json.loads(value) yields the pandas metadata as nested dicts / lists (meta['columns'][i]['metadata'] falsy "
    "or a dict, its 'num_categories' an int); json.dumps(meta, sort_keys=True).encode() serialises the object it is given as it is then",
    "a ThriftObject KeyValue: .key / .value, index 2 is the value field; thrift lists may be None when empty (`or []`)",
    "int(b'<decimal>') is the integer the byte string denotes; byte strings themselves only have lexicographic order",
    "next(gen, None) / max(gen) over a generator with several `for` clauses: the value at a qualifying position (next: the first one; max: "
    "one that bounds the value at every qualifying position); a chunk carries at most one b'num_categories' entry (the writer adds one)",
    "the records of meta['columns'] are distinct objects: an iteration of the column loop that writes only its own record leaves the "
    "others as they were (checked: cats.column_loop.writes_only_own_column)",
    "loops are summarised by an invariant proved on entry and after an arbitrary iteration from a havoc'd state; the universal part of "
    "the invariant is carried at the Skolem chunk of the postcondition",
    "call-site obligations are structural (ast of api.py / writer.py): the statement order inside one block",
]

I, B = z3.IntSort(), z3.BoolSort()
NKV, NCOLM, NRG = z3.Int("n_fmd_key_values"), z3.Int("n_pandas_columns"), z3.Int("n_row_groups")
KVNONE = z3.Bool("fmd_key_value_metadata_is_None")
ISP = z3.Function("key_is_pandas", I, B)
KEYSTR = z3.Function("key_is_a_str_not_bytes", I, B)
VALID8 = z3.Function("key_bytes_are_valid_utf8", I, B)
ISPSTR = z3.Function("str_key_is_the_text_sought", I, B)
HASNC = z3.Function("column_has_num_categories", I, B)
MDTRUE = z3.Function("column_metadata_truthy", I, B)
NC0 = z3.Function("initial_num_categories", I, I)
NCH = z3.Function("n_chunks", I, I)
MATCH = z3.Function("chunk_is_of_column", I, I, I, B)
CKVN = z3.Function("n_chunk_key_values", I, I, I)
CKVNONE = z3.Function("chunk_key_values_is_None", I, I, B)
ISNCK = z3.Function("chunk_entry_is_its_num_categories", I, I, I, B)      # the key denotes num_categories - as bytes OR as str
CKEYSTR = z3.Function("chunk_key_is_a_str_not_bytes", I, I, I, B)
INTJ = z3.Function("int_of_chunk_value", I, I, I, I)
HAS = z3.Function("chunk_has_num_categories", I, I, B)
FIRSTJ = z3.Function("first_num_categories_entry", I, I, I)


def CH(r, c):
    return INTJ(r, c, FIRSTJ(r, c))


RS, CS = z3.Int("ix_spec_rg"), z3.Int("ix_spec_chunk")          # the arbitrary chunk of "every chunk"


def spec_facts(p, r, c):
    """definition of HAS / FIRSTJ at the chunk (r, c): added where the code looks at that chunk"""
    f = z3.Int(f"ix_spec_first!{len(p.pc)}")
    n = CKVN(r, c)
    p.pc += [f == FIRSTJ(r, c), n >= 0,
             z3.Implies(HAS(r, c), z3.And(z3.Not(CKVNONE(r, c)), 0 <= f, f < n, ISNCK(r, c, f)))]
    register(p, Univ(1, lambda t: z3.And(z3.Implies(z3.And(HAS(r, c), 0 <= t, t < f), z3.Not(ISNCK(r, c, t))),
                                         z3.Implies(z3.And(z3.Not(HAS(r, c)), z3.Not(CKVNONE(r, c)), 0 <= t, t < n), z3.Not(ISNCK(r, c, t))))), False)


# =================================================================================================
# values
# =================================================================================================
class MaybeL(H):
    """a thrift list attribute: None or a list"""

    def __init__(self, none, seq):
        self.none, self.seq = none, seq

    def truth(self, eng, p):
        return z3.And(z3.Not(self.none), self.seq.n > 0)

    def is_none(self, eng, p):
        return self.none

    def as_lseq(self, eng, p):
        return self.seq

    def for_loop(self, eng, p, st):
        eng.oblige(p, f"{eng.cur_func}.no_iteration_over_None@L{st.lineno}", "safety", z3.Not(self.none), st)
        return self.seq.for_loop(eng, p, st)

    def slice(self, eng, p, lo, hi, node):
        return self.seq.slice(eng, p, lo, hi, node)

    def getitem(self, eng, p, i, node):
        return self.seq.getitem(eng, p, i, node)

    def len(self, eng, p):
        return PyI(self.seq.n)

    def call_method(self, eng, p, name, args, kw, node):
        if name == "index" and len(args) == 1 and isinstance(args[0], Custom) and isinstance(args[0].h, KV) and not kw:
            # ASSUMED: the entries of a key-value list are distinct objects / values: .index(entry j) == j
            j = args[0].h.j
            eng.oblige(p, f"{eng.cur_func}.index_of_an_entry_of_the_list@L{node.lineno}", "safety", z3.And(0 <= j, j < self.seq.n), node,
                       note="list.index raises ValueError for something that is not in the list")
            return [(p, PyI(j))]
        raise Unsupported("list." + name + "()")


class FList(H):
    """[elt(x) for x in src if guard(x)]: the in-order sub-list; only emptiness and the first element are ever asked"""

    def __init__(self, eng, p, n, guard, elt):
        self.n, self.guard, self.elt = n, guard, elt
        self.r = eng.fresh("sublist_nonempty", B)
        w = ix(eng, "w_member")
        register(p, Univ(1, lambda t: z3.Implies(z3.And(0 <= t, t < n, guard(t)), self.r)), False)
        p.axioms.append(z3.Implies(self.r, z3.And(0 <= w, w < n, guard(w))))

    def truth(self, eng, p):
        return self.r

    def is_none(self, eng, p):
        return z3.BoolVal(False)

    def getitem(self, eng, p, i, node):
        if not (isinstance(i, PyI) and z3.is_int_value(z3.simplify(i.z)) and z3.simplify(i.z).as_long() == 0):
            raise Unsupported("element of a filtered list other than [0]")
        eng.oblige(p, f"{eng.cur_func}.index_in_range@L{node.lineno}", "safety", self.r, node, note="[0] of a filtered list: it is not empty")
        f = ix(eng, "first")
        p.pc += [0 <= f, f < self.n, self.guard(f)]
        register(p, Univ(1, lambda t: z3.Implies(z3.And(0 <= t, t < f), z3.Not(self.guard(t)))), False)
        return self.elt(f)

    def for_loop(self, eng, p, st):
        return column_loop(eng, p, st, self)


class KV(H):
    """entry j of fmd.key_value_metadata"""

    def __init__(self, j):
        self.j = j

    def attr(self, eng, p, name):
        if name == "key":
            return Custom(Key("fmd", (self.j,)))
        if name == "value":
            return Custom(KVal(self.j))
        raise Unsupported("KeyValue." + name)

    def _write(self, p, field, v):
        p.ghost["kvwrites"] = list(p.ghost.get("kvwrites", [])) + [(self.j, field, v, p.ghost.get("meta_version", 0))]

    def setattr(self, eng, p, name, v):
        self._write(p, {"key": 1, "value": 2}.get(name, name), v)

    def setitem(self, eng, p, i, v, node):
        k = z3.simplify(eng.as_int(i))
        self._write(p, k.as_long() if z3.is_int_value(k) else str(k), v)

    def getitem(self, eng, p, i, node):
        k = z3.simplify(eng.as_int(i))
        if z3.is_int_value(k) and k.as_long() in (1, 2):
            return self.attr(eng, p, "key" if k.as_long() == 1 else "value")
        raise Unsupported("KeyValue[...]")

    def merge(self, c, other):
        return KVMix(c, Custom(self), other)

    def describe(self):
        """-> (index of the original entry this is (-1: a new object), its key is b'pandas', version of the dumped metadata it holds (-1: its own value))"""
        return self.j, ISP(self.j), z3.IntVal(-1)


class NewKV(H):
    """a KeyValue object built by the code"""

    def __init__(self, key_is_pandas, version):
        self.key_is_pandas, self.version = key_is_pandas, version

    def merge(self, c, other):
        return KVMix(c, Custom(self), other)

    def describe(self):
        return z3.IntVal(-1), z3.BoolVal(self.key_is_pandas), z3.IntVal(self.version)


class KVMix(H):
    def __init__(self, c, a, b):
        self.c, self.a, self.b = c, a, b

    def merge(self, c, other):
        return KVMix(c, Custom(self), other)

    def describe(self):
        if not all(isinstance(x, Custom) and hasattr(x.h, "describe") for x in (self.a, self.b)):
            raise Unsupported("key-value list holding something that is not an entry")
        return tuple(z3.If(self.c, x, y) for x, y in zip(self.a.h.describe(), self.b.h.describe()))


def key_op(eng, p, key, what, total, node):
    """an operation other than ==/!= applied to a key: the function is total on ARBITRARY keys only if it cannot raise"""
    eng.oblige(p, f"{eng.cur_func}.total_on_arbitrary_keys", "safety", total, node,
               note=f"{what} on a key-value key: user keys are arbitrary bytes (or str) - e.g. b'sig\\xe2(' is not valid UTF-8 - and the "
                    "function must neither raise on them nor change them")
    p.pc.append(total)
    p.ghost["key_ops"] = list(p.ghost.get("key_ops", [])) + [what]


class Key(H):
    """a key of a key-value entry: an OPAQUE byte string (or str) - only == / != with a constant is defined on it"""
    tracked = True          # handed to a call this proof script does not model: out of reach, never silently accepted

    def __init__(self, kind, idx):
        self.kind, self.idx = kind, idx

    def call_method(self, eng, p, name, args, kw, node):
        if name == "decode":
            lenient = "errors" in kw or len(args) >= 2
            key_op(eng, p, self, "." + name + "()", z3.BoolVal(True) if lenient else z3.And(z3.Not(KEYSTR(*self.idx)), VALID8(*self.idx)), node)
            return [(p, Custom(KeyText(self)))]
        if name in ("lower", "upper", "strip", "lstrip", "rstrip") and not args:
            return [(p, Opaque(("key_text", name, next(eng.counter))))]         # total on bytes and on str
        raise Unsupported("key." + name + "()")

    def eq(self, eng, p, other):
        lit = other.tag[1] if isinstance(other, Opaque) and isinstance(other.tag, tuple) and other.tag[:1] == ("bytes",) else None
        if self.kind == "fmd" and lit == b"pandas":
            return ISP(*self.idx)
        # a chunk's num_categories entry carries its key as bytes (chunk parsed from a footer) or as str (row group written in this
        # session): CKEYSTR is free per entry, so a test that recognises only one kind misses chunks of the other kind
        if self.kind == "chunk" and lit == b"num_categories":
            return z3.And(ISNCK(*self.idx), z3.Not(CKEYSTR(*self.idx)))
        if self.kind == "chunk" and isinstance(other, Str) and other.s == "num_categories":
            return z3.And(ISNCK(*self.idx), CKEYSTR(*self.idx))
        if self.kind == "fmd" and isinstance(other, Str):
            return z3.BoolVal(False) if other.s != "pandas" else z3.And(KEYSTR(*self.idx), ISPSTR(*self.idx))
        raise Unsupported("key compared with " + repr(lit if lit is not None else getattr(other, "s", other)))


class KeyText(H):
    """the text a key decodes to (when decoding did not raise)"""

    def __init__(self, key):
        self.key = key

    def eq(self, eng, p, other):
        if isinstance(other, Str) and self.key.kind == "fmd" and other.s == "pandas":
            j = self.key.idx
            return z3.Or(z3.And(z3.Not(KEYSTR(*j)), ISP(*j)), z3.And(KEYSTR(*j), ISPSTR(*j)))
        if isinstance(other, Str) and self.key.kind == "chunk" and other.s == "num_categories":
            j = self.key.idx
            return ISNCK(*j)          # the decoded text of either key kind
        return eng.fresh("key_text_eq", B)


class NestedGen(H):
    """a generator expression with several `for` clauses: binders [(position constant, length)], the qualification and the element
    as terms over the binders"""

    def __init__(self, binders, guard, elt):
        self.binders, self.guard, self.elt = binders, guard, elt


class KVal(H):
    def __init__(self, j):
        self.j = j


class DecB(H):
    """a decimal byte string; int() gives `val`; as a STRING it only has lexicographic order"""

    def __init__(self, val):
        self.val = val

    def to_int(self, eng, p):
        return PyI(self.val)

    def call_method(self, eng, p, name, args, kw, node):
        if name in ("encode", "decode"):
            return [(p, Custom(self))]
        raise Unsupported("bytes." + name)


class CKV(H):
    def __init__(self, r, c, j):
        self.r, self.c, self.j = r, c, j

    def attr(self, eng, p, name):
        if name == "key":
            return Custom(Key("chunk", (self.r, self.c, self.j)))
        if name == "value":
            return Custom(DecB(INTJ(self.r, self.c, self.j)))
        raise Unsupported("KeyValue." + name)


class Meta(H):
    """the parsed pandas metadata (one mutable object)"""

    def getitem(self, eng, p, i, node):
        if isinstance(i, Str) and i.s == "columns":
            cols = LSeq(NCOLM, lambda k: Custom(ColRec(k)))
            return Custom(cols)
        return Opaque(("meta", getattr(i, "s", "?")))

    def setitem(self, eng, p, i, v, node):
        p.ghost["other_meta_writes"] = p.ghost.get("other_meta_writes", 0) + 1


class ColRec(H):
    def __init__(self, i):
        self.i = i

    def subst(self, pairs):
        return ColRec(z3.simplify(z3.substitute(self.i, *pairs)))

    def getitem(self, eng, p, k, node):
        if isinstance(k, Str) and k.s == "metadata":
            return Custom(MetaD(self.i))
        if isinstance(k, Str) and k.s == "name":
            return Custom(ColNm(self.i))
        return Opaque(("colrec", str(self.i), getattr(k, "s", "?")))

    def setitem(self, eng, p, k, v, node):
        p.ghost["other_meta_writes"] = p.ghost.get("other_meta_writes", 0) + 1


class ColNm(H):
    def __init__(self, i):
        self.i = i

    def eq(self, eng, p, other):
        if isinstance(other, Custom) and isinstance(other.h, ChunkNm):
            return MATCH(self.i, other.h.r, other.h.c)
        raise Unsupported("column name compared with something that is not a chunk's dotted path")


class ChunkNm(H):
    def __init__(self, r, c):
        self.r, self.c = r, c

    def eq(self, eng, p, other):
        if isinstance(other, Custom) and isinstance(other.h, ColNm):
            return MATCH(other.h.i, self.r, self.c)
        raise Unsupported("chunk path compared with something that is not a column name")


class MetaD(H):
    """cat['metadata']"""

    def __init__(self, i):
        self.i = i

    def truth(self, eng, p):
        return MDTRUE(self.i)

    def is_none(self, eng, p):
        return z3.Not(MDTRUE(self.i))

    def contains(self, eng, p, item):
        if isinstance(item, Str) and item.s == "num_categories":
            return HASNC(self.i)
        return eng.fresh("in_metadata", B)

    def getitem(self, eng, p, k, node):
        if isinstance(k, Str) and k.s == "num_categories":
            eng.oblige(p, f"{eng.cur_func}.num_categories_key_present@L{node.lineno}", "safety", HASNC(self.i), node, note="KeyError otherwise")
            return PyI(p.ghost["nc"](self.i))
        return Opaque(("metadata", str(self.i), getattr(k, "s", "?")))

    def setitem(self, eng, p, k, v, node):
        if not (isinstance(k, Str) and k.s == "num_categories"):
            p.ghost["other_meta_writes"] = p.ghost.get("other_meta_writes", 0) + 1
            return
        eng.oblige(p, f"{eng.cur_func}.num_categories_written_only_where_present", "post", HASNC(self.i), node,
                   note="the key is updated, never added to a column that is not categorical")
        old, i, val = p.ghost["nc"], self.i, eng.as_int(v, p, node)
        p.ghost["nc"] = (lambda k2: z3.If(k2 == i, val, old(k2)))
        p.ghost["meta_version"] = p.ghost.get("meta_version", 0) + 1
        cur = p.ghost.get("cur_rc")
        if cur is not None:
            p.ghost["wit"] = cur            # ghost: the chunk whose value was just stored is the witness of "attained"


class RG(H):
    def __init__(self, r):
        self.r = r

    def attr(self, eng, p, name):
        if name == "columns":
            r = self.r
            out = LSeq(NCH(r), lambda c: Custom(Chunk(r, c)))
            out.loop = out.slice_loop = chunk_loop
            return Custom(out)
        raise Unsupported("RowGroup." + name)


class Chunk(H):
    def __init__(self, r, c):
        self.r, self.c = r, c

    def attr(self, eng, p, name):
        if name == "meta_data":
            return Custom(self)
        if name == "path_in_schema":
            return Custom(PIS(self.r, self.c))
        if name == "key_value_metadata":
            r, c = self.r, self.c
            return Custom(MaybeL(CKVNONE(r, c), LSeq(CKVN(r, c), lambda j: Custom(CKV(r, c, j)))))
        raise Unsupported("ColumnChunk." + name)


class PIS(H):
    def __init__(self, r, c):
        self.r, self.c = r, c


class FMD(H):
    def attr(self, eng, p, name):
        if name == "key_value_metadata":
            return Custom(MaybeL(KVNONE, LSeq(NKV, lambda j: Custom(KV(j)))))
        if name == "row_groups":
            out = LSeq(NRG, lambda r: Custom(RG(r)))
            out.loop = out.slice_loop = rg_loop
            return Custom(out)
        raise Unsupported("FileMetaData." + name)

    def setattr(self, eng, p, name, v):
        if name == "key_value_metadata":
            p.ghost["kv_list_assigned"] = v          # the list is REBUILT: judged by the whole-view postcondition
            return
        p.ghost["fmd_attr_writes"] = list(p.ghost.get("fmd_attr_writes", [])) + [name]


# =================================================================================================
# loops
# =================================================================================================
def lex_lt(r1, c1, r2, c2):
    return z3.Or(r1 < r2, z3.And(r1 == r2, c1 < c2))


def inv(p, col, R, C):
    """current value == max(initial, chunks of the column seen before position (R, C)) - at the Skolem chunk (RS, CS)"""
    v = p.ghost["nc"](col)
    wr, wc = p.ghost["wit"]
    seen = lambda r, c: z3.And(0 <= r, r < NRG, 0 <= c, c < NCH(r), lex_lt(r, c, R, C), MATCH(col, r, c), HAS(r, c))
    return z3.And(v >= NC0(col), z3.Implies(seen(RS, CS), CH(RS, CS) <= v),
                  z3.Or(v == NC0(col), z3.And(seen(wr, wc), CH(wr, wc) == v)))


def havoc_state(eng, p, col):
    v = eng.fresh_int("num_categories_now")
    old = p.ghost["nc"]
    p.ghost["nc"] = (lambda k: z3.If(k == col, v, old(k)))
    p.ghost["wit"] = (ix(eng, "wit_rg"), ix(eng, "wit_chunk"))
    p.ghost["meta_version"] = p.ghost.get("meta_version", 0) + 1


def havoc_names(eng, p, st):
    for nm in _assigned_names(st.body) | {x.id for x in ast.walk(st.target) if isinstance(x, ast.Name)}:
        if nm in p.env:
            p.env[nm] = Opaque((nm, "havoc", next(eng.counter)))


def inv_loop(eng, p, st, seq, name, pos_to_rc, entry_rc, next_rc, exit_rc):
    col = p.ghost.get("cur_col")
    if col is None:
        raise Unsupported(f"{name} loop outside the loop over the categorical columns")
    eng.oblige(p, f"{eng.cur_func}.{name}_loop.invariant_on_entry", "inv", inv(p, col, *entry_rc), st,
               note="current value == max(initial, chunks seen so far)")
    exit_path, body = p.fork(), p.fork()
    POS = ix(eng, name + "_pos")
    body.pc += [0 <= POS, POS < seq.n]
    havoc_state(eng, body, col)
    havoc_names(eng, body, st)
    body.pc.append(inv(body, col, *pos_to_rc(POS)))
    saved = body.ghost.get("cur_rc")
    body.ghost["cur_rc"] = pos_to_rc(POS)
    if name == "chunk":
        spec_facts(body, *pos_to_rc(POS))
    outs = []
    for b in eng.assign(st.target, seq.at(POS), body):
        for r in eng.block(st.body, [b]):
            if r.ctl in (None, "continue"):
                eng.oblige(r, f"{eng.cur_func}.{name}_loop.invariant_preserved", "inv", inv(r, col, *next_rc(POS)), st,
                           note="after an arbitrary iteration: still the maximum of the initial value and every chunk seen so far")
            elif r.ctl == "break":
                raise Unsupported("break in the " + name + " loop")
            else:
                outs.append(r)
    havoc_state(eng, exit_path, col)
    havoc_names(eng, exit_path, st)
    exit_path.pc.append(inv(exit_path, col, *exit_rc))
    exit_path.ghost["cur_rc"] = saved
    return [exit_path] + outs


def rg_loop(eng, p, st, seq):
    """for rg in fmd.row_groups[..]: position P is row group start + P; the invariant speaks about the row groups before it"""
    P0 = z3.Int("ix_probe")
    e = seq.at(P0)
    if not (isinstance(e, Custom) and isinstance(e.h, RG)):
        raise Unsupported("loop over something that is not (a slice of) fmd.row_groups")
    start = z3.simplify(z3.substitute(e.h.r, (P0, z3.IntVal(0))))
    if not z3.is_true(z3.simplify(e.h.r == start + P0)):
        raise Unsupported("loop over row groups that are not a contiguous run")
    zero = z3.IntVal(0)
    return inv_loop(eng, p, st, seq, "rowgroup", lambda P: (z3.simplify(start + P), zero), (start, zero), lambda P: (z3.simplify(start + P + 1), zero),
                    (z3.simplify(start + seq.n), zero))


def chunk_loop(eng, p, st, seq):
    """for col in rg.columns[..] of the current row group R: position P is chunk start + P"""
    cur = p.ghost.get("cur_rc")
    P0 = z3.Int("ix_probe")
    e = seq.at(P0)
    if cur is None or not (isinstance(e, Custom) and isinstance(e.h, Chunk) and e.h.r.eq(cur[0])):
        raise Unsupported("loop over something that is not the current row group's chunks")
    start = z3.simplify(z3.substitute(e.h.c, (P0, z3.IntVal(0))))
    if not z3.is_true(z3.simplify(e.h.c == start + P0)):
        raise Unsupported("loop over chunks that are not a contiguous run")
    R = cur[0]
    return inv_loop(eng, p, st, seq, "chunk", lambda P: (R, z3.simplify(start + P)), (R, start), lambda P: (R, z3.simplify(start + P + 1)),
                    (R, z3.simplify(start + seq.n)))


def column_loop(eng, p, st, fl):
    """for cat in cats: executed for ONE arbitrary categorical column from a havoc'd state; the postcondition for that column is
    posed at the end of its iteration (paths collected in eng.col_ends)"""
    exit_path, body = p.fork(), p.fork()
    COL = ix(eng, "column")
    body.pc += [0 <= COL, COL < fl.n, fl.guard(COL)]
    havoc_names(eng, body, st)
    body.ghost["cur_col"] = COL
    body.ghost["wit"] = (z3.IntVal(-1), z3.IntVal(-1))
    nc0 = body.ghost["nc"]
    outs = []
    for b in eng.assign(st.target, fl.elt(COL), body):
        for r in eng.block(st.body, [b]):
            if r.ctl in (None, "continue", "break"):
                k = ix(eng, "other_column")
                eng.oblige(r, f"{eng.cur_func}.column_loop.writes_only_own_column", "inv", z3.Implies(k != COL, r.ghost["nc"](k) == nc0(k)), st,
                           note="the iteration for one column leaves num_categories of every other column as it was")
                eng.col_ends.append((COL, r))
            else:
                outs.append(r)
    # after the loop: every categorical column has been through its iteration - the values are whatever those produced
    t = next(eng.counter)
    fin = z3.Function(f"num_categories_final!{t}", I, I)
    exit_path.ghost["nc"] = (lambda k: fin(k))
    exit_path.ghost["meta_version"] = exit_path.ghost.get("meta_version", 0) + 1
    exit_path.ghost["cur_col"] = None
    havoc_names(eng, exit_path, st)
    return [exit_path] + outs


# =================================================================================================
# the contract
# =================================================================================================
class CatsEngine(ListEngine):
    """operations on values this proof script does not model give an arbitrary value (sound), not `out of reach`"""

    def binop(self, op, a, b, p, node):
        if isinstance(op, ast.Add) and isinstance(b, Tup) and b.is_list and b.items and isinstance(a, Custom) and \
                (isinstance(a.h, LSeq) or hasattr(a.h, "as_lseq")):
            left = a.h if isinstance(a.h, LSeq) else a.h.as_lseq(self, p)
            return left.binop(self, p, op, Custom(LSeq.of_items(b.items)), node)
        try:
            return super().binop(op, a, b, p, node)
        except Unsupported:
            return Opaque(("binop", type(op).__name__, next(self.counter)))


def run_cats(funcs, timeout):
    res = Results()
    meta = Meta()

    def nested_gen(eng, q, e):
        """(elt for x in A for y in B(x) if .. for z in C(x, y) if ..): one arbitrary member per level; consumed by next() / max()"""
        binders, guard, mark = [], z3.BoolVal(True), len(q.pc)
        for g in e.generators:
            n0 = len(q.pc)
            cands = [(r, c) for r, c in eng.ev(g.iter, q) if not (isinstance(c, Tup) and not c.items)]      # `x or []`: [] has no members
            if len(cands) != 1:
                raise Unsupported("generator over a forking collection")
            r, coll = cands[0]
            if r is not q:
                guard = z3.And(guard, *r.pc[n0:])
            if isinstance(coll, Custom) and hasattr(coll.h, "as_lseq"):
                coll = Custom(coll.h.as_lseq(eng, q))
            if not (isinstance(coll, Custom) and isinstance(coll.h, LSeq)):
                raise Unsupported("generator over " + type(coll).__name__)
            X = ix(eng, "G")
            binders.append((X, coll.h.n))
            q.pc += [0 <= X, X < coll.h.n]
            eng.assign(g.target, coll.h.at(X), q)
            for c in g.ifs:
                n1 = len(q.pc)
                cs = eng.cond(c, q)
                guard = z3.And(guard, cs[0][1] if len(cs) == 1 and cs[0][0] is q else z3.Or(*[z3.And(*r2.pc[n1:], v) for r2, v in cs]))
        ev = eng.ev(e.elt, q)
        if len(ev) != 1 or ev[0][0] is not q:
            raise Unsupported("forking element")
        q.pc[mark:] = [c for c in q.pc[mark:] if not any(_mentions(c, X) for X, _ in binders)]
        return [(q, Custom(NestedGen(binders, guard, ev[0][1])))]

    def gen_member(eng, p, gen, tag):
        """a member of the generator at Skolem positions W: -> (in range and qualifying, value there, W)"""
        W = [ix(eng, f"w_{tag}{i}") for i in range(len(gen.binders))]
        pairs = [(X, w) for (X, _), w in zip(gen.binders, W)]
        rng = z3.And(*[z3.And(0 <= w, w < z3.substitute(n, *pairs)) for (X, n), w in zip(gen.binders, W)])
        val = gen.elt
        val = PyI(z3.substitute(val.z, *pairs)) if isinstance(val, PyI) else _subst_many(val, pairs)
        return z3.And(rng, z3.substitute(gen.guard, *pairs)), val, W

    def _subst_many(v, pairs):
        for X, w in pairs:
            v = _subst_obj(v, X, w)
        return v

    def note_chunk(p, W, n):
        if n == 3:        # (row group, chunk, key-value): the chunk a value stored next comes from (ghost witness of "attained")
            p.ghost["cur_rc"] = (W[0], W[1])
            spec_facts(p, W[0], W[1])
            # ASSUMED: at most one b'num_categories' entry per chunk - a qualifying entry is the chunk's first one
            p.axioms.append(z3.Implies(z3.And(0 <= W[2], W[2] < CKVN(W[0], W[1]), ISNCK(W[0], W[1], W[2])), W[2] == FIRSTJ(W[0], W[1])))

    def at_spec_chunk(eng, p, gen):
        """the generator's qualification and value at the Skolem chunk (RS, CS) of the postcondition and its first b'num_categories' entry"""
        if len(gen.binders) != 3:
            return None
        spec_facts(p, RS, CS)
        fs = z3.Int("ix_spec_first_q")
        p.pc.append(fs == FIRSTJ(RS, CS))
        pairs = [(gen.binders[0][0], RS), (gen.binders[1][0], CS), (gen.binders[2][0], fs)]
        rng = z3.And(*[z3.And(0 <= w, w < z3.substitute(n, *pairs)) for (X, n), (_, w) in zip(gen.binders, pairs)])
        if not isinstance(gen.elt, PyI):
            return None
        return z3.And(rng, z3.substitute(gen.guard, *pairs)), z3.substitute(gen.elt.z, *pairs)

    def h_next(eng, p, args, kw, node):
        g = args[0]
        if not (isinstance(g, Custom) and isinstance(g.h, NestedGen)):
            raise Unsupported("next() of " + type(g).__name__)
        # next(gen[, default]) = the value at the FIRST qualifying position - here: at SOME qualifying position W (all that is used)
        ex = eng.fresh("generator_nonempty", B)
        ok, val, W = gen_member(eng, p, g.h, "first")
        p.axioms.append(z3.Implies(ex, ok))
        inst = at_spec_chunk(eng, p, g.h)
        if inst is not None:
            p.axioms.append(z3.Implies(inst[0], ex))           # a qualifying position exists => the generator is not empty
        note_chunk(p, W, len(W))
        if len(args) == 1:
            eng.oblige(p, f"{eng.cur_func}.next_of_nonempty_generator@L{node.lineno}", "safety", ex, node, note="StopIteration otherwise")
            return [(p, val)]
        d = args[1]
        if isinstance(d, NoneV):
            return [(p, Opt(z3.Not(ex), val))]
        raise Unsupported("next() with a default other than None")

    def h_max(eng, p, args, kw, node):
        g = args[0] if args else None
        if isinstance(g, Custom) and isinstance(g.h, NestedGen) and isinstance(g.h.elt, PyI):
            # max over the generator: attained at some qualifying position W, an upper bound of the value at every qualifying position
            # (instantiated at the Skolem chunk of the postcondition)
            ex = eng.fresh("generator_nonempty", B)
            ok, val, W = gen_member(eng, p, g.h, "max")
            m = eng.fresh_int("max_of_generator")
            p.axioms.append(z3.Implies(ex, z3.And(ok, m == val.z)))
            inst = at_spec_chunk(eng, p, g.h)
            if inst is not None:
                p.axioms.append(z3.Implies(inst[0], z3.And(ex, inst[1] <= m)))
            note_chunk(p, W, len(W))
            if "default" in kw:
                if not isinstance(kw["default"], NoneV):
                    raise Unsupported("max() with a default other than None")
                return [(p, Opt(z3.Not(ex), PyI(m)))]
            eng.oblige(p, f"{eng.cur_func}.max_of_nonempty_generator@L{node.lineno}", "safety", ex, node, note="ValueError otherwise")
            return [(p, PyI(m))]
        try:
            return BUILTINS["max"](eng, p, args, kw, node)
        except Unsupported:
            return [(p, Opaque(("max", next(eng.counter))))]       # e.g. max() of byte strings: lexicographic, no integer meaning

    def h_listcomp(eng, p, e):
        if len(e.generators) != 1:
            return nested_gen(eng, p, e)
        out = []
        for q, coll in eng.ev(e.generators[0].iter, p):        # `x or []` forks: one path per alternative
            r = comp_one(eng, q, e, coll)
            if r is None:
                if isinstance(coll, Tup) and not coll.items:
                    r = [(q, Tup([], True))]
                else:
                    raise Unsupported("comprehension over " + type(coll).__name__)
            out += r
        return out

    def comp_one(eng, q, e, coll):
        g = e.generators[0]
        if isinstance(coll, Custom) and hasattr(coll.h, "as_lseq"):
            coll = Custom(coll.h.as_lseq(eng, q))
        if isinstance(coll, Custom) and isinstance(coll.h, LSeq) and g.ifs:
            seq = coll.h
            J = ix(eng, "J")
            mark = len(q.pc)
            q.pc += [0 <= J, J < seq.n]
            eng.assign(g.target, seq.at(J), q)
            cond = z3.BoolVal(True)
            for c in g.ifs:
                n0 = len(q.pc)
                cs = eng.cond(c, q)
                if len(cs) == 1 and cs[0][0] is q:
                    cond = z3.And(cond, cs[0][1])
                else:       # `x in (y or [])` forks: the filter is the disjunction over the alternatives (q itself is left as it was)
                    cond = z3.And(cond, z3.Or(*[z3.And(*r.pc[n0:], v) for r, v in cs]))
            ev = eng.ev(e.elt, q)
            if len(ev) != 1:
                raise Unsupported("forking element")
            q.pc[mark:] = [c for c in q.pc[mark:] if not _mentions(c, J)]
            elt = ev[0][1]
            fl = FList(eng, q, seq.n, (lambda t: z3.substitute(cond, (J, t))), (lambda t: _subst_obj(elt, J, t)))
            if isinstance(elt, Custom) and isinstance(elt.h, ColRec):
                q.ghost["cats_nonempty"] = fl.r          # "some column is categorical"
            return [(q, Custom(fl))]
        return comp_over(eng, q, e, coll)

    def _subst_obj(v, J, t):
        if isinstance(v, Custom) and isinstance(v.h, (KV, ColRec, CKV, DecB)):
            o = type(v.h).__new__(type(v.h))
            o.__dict__.update({k: (z3.substitute(x, (J, t)) if z3.is_expr(x) else x) for k, x in v.h.__dict__.items()})
            return Custom(o)
        from .c04_sorted import subst_v
        return subst_v(v, [(J, t)])

    def h_loads(eng, p, args, kw, node):
        a = args[0]
        ok = isinstance(a, Custom) and isinstance(a.h, KVal)
        p.ghost["loaded_from"] = a.h.j if ok else None
        if not ok:
            raise Unsupported("json.loads of something that is not a key-value's value")
        return [(p, Custom(meta))]

    def h_keyvalue(eng, p, args, kw, node):
        k, v = kw.get("key"), kw.get("value")
        lit = k.tag[1] if isinstance(k, Opaque) and isinstance(k.tag, tuple) and k.tag[:1] == ("bytes",) else None
        ver = v.h.version if isinstance(v, Custom) and type(v.h).__name__ == "Dumped" else -2
        return [(p, Custom(NewKV(lit == b"pandas", ver)))]

    def h_dumps(eng, p, args, kw, node):
        a = args[0]
        if isinstance(a, Custom) and a.h is meta:
            return [(p, Custom(Dumped(p.ghost.get("meta_version", 0))))]
        return [(p, Opaque(("dumps", next(eng.counter))))]

    class Dumped(H):
        def __init__(self, version):
            self.version = version

        def call_method(self, eng, p, name, args, kw, node):
            if name == "encode":
                return [(p, Custom(self))]
            raise Unsupported("str." + name)

    def h_join(eng, p, args, kw, node):
        if isinstance(args[0], Str) and args[0].s == "." and isinstance(args[1], Custom) and isinstance(args[1].h, PIS):
            return [(p, Custom(ChunkNm(args[1].h.r, args[1].h.c)))]
        return [(p, Opaque(("join", next(eng.counter))))]

    def h_ensure_str(eng, p, args, kw, node):
        a = args[0] if args else None
        if isinstance(a, Custom) and isinstance(a.h, Key):
            ig = kw.get("ignore_error")
            lenient = isinstance(ig, PyB) and z3.is_true(z3.simplify(ig.z))
            # util.ensure_str: str -> itself; bytes -> .decode('utf-8'), UnicodeDecodeError re-raised unless ignore_error
            key_op(eng, p, a.h, "ensure_str()", z3.BoolVal(True) if lenient else z3.Or(KEYSTR(*a.h.idx), VALID8(*a.h.idx)), node)
            return [(p, Custom(KeyText(a.h)))]
        return [(p, Opaque(("ensure_str", next(eng.counter))))]

    def h_str(eng, p, args, kw, node):
        if args and isinstance(args[0], Custom) and isinstance(args[0].h, Key):
            if len(args) == 1 and not kw:
                return [(p, Opaque(("repr_of_key", next(eng.counter))))]       # str(b'..') is the repr: total
            key_op(eng, p, args[0].h, "str(key, encoding)", z3.And(z3.Not(KEYSTR(*args[0].h.idx)), VALID8(*args[0].h.idx)), node)
            return [(p, Custom(KeyText(args[0].h)))]
        if args and isinstance(args[0], PyI):
            return [(p, Custom(DecB(args[0].z)))]
        return [(p, Opaque(("str", next(eng.counter))))]

    handlers = {"listcomp": h_listcomp, "json.loads": h_loads, "json.dumps": h_dumps, ".join": h_join, "str": h_str, "max": h_max,
                "ensure_str": h_ensure_str, "next": h_next,
                "parquet_thrift.KeyValue": h_keyvalue, "KeyValue": h_keyvalue}
    eng = CatsEngine(funcs=funcs, handlers=handlers, opaque_calls=True)
    eng.col_ends = []
    p = Path()
    p.pc += [NKV >= 0, NCOLM >= 0, NRG >= 0]
    register(p, Univ(1, lambda t: z3.And(NCH(t) >= 0, z3.Implies(HASNC(t), MDTRUE(t)))), False)
    p.ghost["nc"] = (lambda k: NC0(k))
    outs = eng.run("consolidate_categories", p, [Custom(FMD())])

    def mf(m):
        ev = lambda t: backends.model_value(m, t)
        col = z3.Int("column")
        return {"note": "abstract counter-model", "row_groups": ev(NRG), "spec_chunk": (ev(RS), ev(CS)), "its_value": ev(CH(RS, CS)),
                "z3": str(m)[:400]}
    for ob in eng.oblig:
        st, m, secs = discharge_inst(ob.pc, ob.axioms, ob.univ, False, ob.goal, timeout)
        res.add("cats." + ob.name.split(".", 1)[-1], st, mf(m) if m is not None else None, secs, "z3", ob.note or ob.kind)
    # postcondition for the arbitrary categorical column, at the end of its iteration
    for COL, q in eng.col_ends:
        univ = q.ghost.get("univ", [])
        v = q.ghost["nc"](COL)
        wr, wc = q.ghost["wit"]
        chunk = lambda r, c: z3.And(0 <= r, r < NRG, 0 <= c, c < NCH(r), MATCH(COL, r, c), HAS(r, c))
        goals = {
            "num_categories_at_least_initial": (v >= NC0(COL), "after the call num_categories >= the value it had"),
            "num_categories_bounds_every_chunk": (z3.Implies(chunk(RS, CS), CH(RS, CS) <= v),
                                                  "for ALL row groups / chunks of the column: int(chunk's b'num_categories') <= num_categories (integer order)"),
            "num_categories_is_attained": (z3.Or(v == NC0(COL), z3.And(chunk(wr, wc), CH(wr, wc) == v)),
                                           "num_categories is the initial value or the integer of some chunk of the column: with the bound, exactly the maximum"),
        }
        for nm, (g, detail) in goals.items():
            st, m, secs = discharge_inst(q.pc, q.axioms, univ, False, g, timeout)
            res.add("cats." + nm, st, dict(mf(m), num_categories=backends.model_value(m, v), initial=backends.model_value(m, NC0(COL))) if m is not None else None,
                    secs, "z3", detail)
    n_ret = 0
    for q in outs:
        if q.ctl[0] != "ret":
            res.add("cats.does_not_raise", REFUTED, {"raises": q.ctl[1]}, 0.0, "trace")
            continue
        n_ret += 1
        writes = q.ghost.get("kvwrites", [])
        loaded = q.ghost.get("loaded_from")
        other = q.ghost.get("other_meta_writes", 0) + len(q.ghost.get("fmd_attr_writes", []))
        if loaded is None:
            ok = not writes and not other
            res.add("cats.no_pandas_metadata_no_change", PROVED if ok else REFUTED, None, 0.0, "trace", "no b'pandas' entry => nothing is written")
            continue
        res.add("cats.nothing_else_in_pandas_metadata_changes", PROVED if other == 0 else REFUTED, None if other == 0 else {"other_stores": other}, 0.0, "trace",
                "the only store into the parsed metadata is ['metadata']['num_categories'] (and fmd's attributes are not reassigned)")
        # whole-view postcondition on fmd.key_value_metadata: the list after the call (the original list object with its in-place stores,
        # or the list the code assigned) == the list before with ONLY the pandas entry's value replaced: same length, same order, every
        # other entry the same object, untouched.  Posed at a Skolem position.
        univ = q.ghost.get("univ", [])
        final_v = q.ghost.get("meta_version", 0)
        assigned = q.ghost.get("kv_list_assigned")
        if assigned is not None and isinstance(assigned, Custom) and hasattr(assigned.h, "as_lseq") and not isinstance(assigned.h, LSeq):
            assigned = Custom(assigned.h.as_lseq(eng, q))
        Lf = assigned.h if assigned is not None and isinstance(assigned, Custom) and isinstance(assigned.h, LSeq) else \
            (None if assigned is not None else LSeq(NKV, lambda j: Custom(KV(j))))
        jq = z3.Int("ix_kv_q")
        try:
            e = Lf.at(jq) if Lf is not None else None
            desc = e.h.describe() if isinstance(e, Custom) and hasattr(e.h, "describe") else None
        except Unsupported:
            desc = None
        if desc is None:
            for nm in ("cats.writes_updated_json_under_pandas_key", "cats.other_key_values_untouched"):
                res.add(nm, UNKNOWN, None, 0.0, "engine", "fmd.key_value_metadata was replaced by something this proof script cannot describe: out of reach")
            continue
        orig, keyp, ver = desc
        untouched = lambda j: z3.And(*[w[0] != j for w in writes]) if writes else z3.BoolVal(True)
        fp_writes = [w for w in writes if w[0].eq(loaded)]
        dumped_final = lambda w: w[1] == 2 and isinstance(w[2], Custom) and type(w[2].h).__name__ == "Dumped" and w[2].h.version == final_v
        in_place_ok = z3.BoolVal(len(fp_writes) == 1 and dumped_final(fp_writes[0]))
        nothing_to_do = z3.And(z3.Not(q.ghost["cats_nonempty"]), z3.BoolVal(not fp_writes)) if "cats_nonempty" in q.ghost else z3.BoolVal(False)
        inr = z3.And(0 <= jq, jq < NKV)
        g_pandas = z3.And(0 <= loaded, loaded < NKV, ISP(loaded), Lf.n == NKV,
                          z3.Implies(z3.And(inr, jq == loaded),
                                     z3.Or(z3.And(orig == loaded, ver == -1, z3.Or(in_place_ok, nothing_to_do)),          # same object, value stored in place
                                           z3.And(orig == -1, keyp, ver == final_v, z3.BoolVal(not fp_writes)))))          # a new entry b'pandas' -> final dump
        st, m, secs = discharge_inst(q.pc, q.axioms, univ, False, g_pandas, timeout)
        res.add("cats.writes_updated_json_under_pandas_key", st, {"entry": backends.model_value(m, jq), "n_key_values": backends.model_value(m, NKV),
                                                                  "list_len_after": backends.model_value(m, Lf.n)} if m is not None else None, secs, "z3",
                "the b'pandas' entry the metadata was parsed from (at its old position) holds json.dumps(<meta after all updates>).encode() - stored in place "
                "or as a new entry - or is left alone when no column is categorical")
        g_others = z3.And(Lf.n == NKV, z3.Implies(z3.And(inr, jq != loaded), z3.And(orig == jq, ver == -1, untouched(jq))))
        st, m, secs = discharge_inst(q.pc, q.axioms, univ, False, g_others, timeout)
        res.add("cats.other_key_values_untouched", st, {"entry": backends.model_value(m, jq), "n_key_values": backends.model_value(m, NKV),
                                                        "list_len_after": backends.model_value(m, Lf.n), "pandas_entry_at": backends.model_value(m, loaded)} if m is not None else None,
                secs, "z3", "whole view: len(key_value_metadata) unchanged and every entry other than the pandas one is the same object at the same position, "
                            "never written (also when the list is rebuilt by slices / concatenation)")
    if not any(nm == "cats.total_on_arbitrary_keys" for nm in res.order):
        res.add("cats.total_on_arbitrary_keys", PROVED, None, 0.0, "trace",
                "only == / != with a constant is ever applied to a key of fmd.key_value_metadata or of a chunk: keys that are arbitrary bytes "
                "(not valid UTF-8) or str cannot make the function raise; with other_key_values_untouched: every non-pandas entry stays as it is, in order")
    res.add("cats.paths_reached", PROVED if n_ret >= 2 and eng.col_ends else UNKNOWN, None, 0.0, "trace",
            f"returning paths {n_ret}, ends of the arbitrary column iteration {len(eng.col_ends)}")
    vac = {"requires_sat": int(solve(list(p.pc) + [NRG == 2, NCOLM == 1, HASNC(0)], 2000)[0] == REFUTED), "must_fail_sat": 0}
    for COL, q in eng.col_ends:       # must-fail: "num_categories never changes" is refuted
        if discharge_inst(q.pc, q.axioms, q.ghost.get("univ", []), False, q.ghost["nc"](COL) == NC0(COL), 3000)[0] == REFUTED:
            vac["must_fail_sat"] += 1
            break
    return res, n_ret, vac


# =================================================================================================
# call sites
# =================================================================================================
def _is_call_to(node, names):
    return isinstance(node, ast.Call) and ast.unparse(node.func) in names


def _uses(node, name):
    return any(isinstance(n, ast.Name) and n.id == name for n in ast.walk(node))


def call_sites(res):
    api, api_tree, _ = parse_module("fastparquet/api.py")
    wr, wr_tree, _ = parse_module("fastparquet/writer.py")
    init = api.get("ParquetFile.__init__")
    found = {}
    if init is not None:
        def visit(stmts, conds):
            for k, st in enumerate(stmts):
                if isinstance(st, ast.Assign) and _is_call_to(st.value, ("metadata_from_many", "util.metadata_from_many")):
                    tgt = st.targets[0]
                    fmd = tgt.elts[1].id if isinstance(tgt, ast.Tuple) and len(tgt.elts) == 2 and isinstance(tgt.elts[1], ast.Name) else None
                    ok = False
                    for nxt in stmts[k + 1:]:
                        if fmd and isinstance(nxt, ast.Expr) and _is_call_to(nxt.value, ("writer.consolidate_categories", "consolidate_categories")) \
                                and nxt.value.args and isinstance(nxt.value.args[0], ast.Name) and nxt.value.args[0].id == fmd:
                            ok = True
                            break
                        if fmd and _uses(nxt, fmd):
                            break
                    src = " && ".join(conds)
                    tags = (["list"] if "isinstance(fn, (tuple, list))" in conds else []) + \
                        (["glob", "directory"] if "'*' in fn or fs.isdir(fn)" in conds else [])
                    for t in tags or [f"site@L{st.lineno}"]:
                        found[t] = (ok, st.lineno)
                for fld in ("body", "orelse", "finalbody"):
                    sub = getattr(st, fld, None)
                    if isinstance(sub, list) and sub and isinstance(sub[0], ast.stmt):
                        c = conds + [("not " if fld == "orelse" else "") + ast.unparse(st.test)] if isinstance(st, ast.If) else conds
                        visit(sub, c)
                for h in getattr(st, "handlers", []) or []:
                    visit(h.body, conds)
        visit(init.tree.body, [])
    for t in ("list", "directory", "glob"):
        if t in found:
            ok, ln = found[t]
            res.add(f"init.many_files_branch_consolidates[{t}]", PROVED if ok else REFUTED, None if ok else {"metadata_from_many_at_line": ln}, 0.0, "ast",
                    "ParquetFile.__init__: `basepath, fmd = metadata_from_many(...)` is followed by writer.consolidate_categories(fmd) before fmd is used")
        else:
            res.add(f"init.many_files_branch_consolidates[{t}]", UNKNOWN, None, 0.0, "ast", "no metadata_from_many call site recognised for this kind of input")
    for t, (ok, ln) in found.items():
        if t not in ("list", "directory", "glob"):
            res.add(f"init.many_files_branch_consolidates[{t}]", PROVED if ok else REFUTED, None, 0.0, "ast", "additional call site")
    # no other caller of metadata_from_many in the package
    others = []
    for mod, (fs_, tree) in (("api", (api, api_tree)), ("writer", (wr, wr_tree))):
        for q, f in fs_.items():
            if q == "ParquetFile.__init__":
                continue
            if any(_is_call_to(n, ("metadata_from_many", "util.metadata_from_many")) for n in ast.walk(f.tree)):
                others.append(f"{mod}.{q}")
    res.add("callers.metadata_from_many_only_from_init", PROVED if not others else REFUTED, None if not others else {"other_callers": others}, 0.0, "ast",
            "api.ParquetFile.__init__ is the only caller of metadata_from_many in api.py / writer.py (every fmd built from many files passes the sites above)")
    m = wr.get("merge")
    ok = False
    if m is not None:
        calls = [n for n in ast.walk(m.tree) if _is_call_to(n, ("ParquetFile", "api.ParquetFile"))]
        ok = len(calls) == 1 and calls[0].args and ast.unparse(calls[0].args[0]) == "file_list" and \
            not any(_is_call_to(n, ("metadata_from_many",)) for n in ast.walk(m.tree))
    res.add("merge.builds_through_ParquetFile", PROVED if ok else REFUTED, None, 0.0, "ast",
            "writer.merge builds its metadata with ParquetFile(file_list, ...) - the [list] site above - and not by calling metadata_from_many itself")
    w = wr.get("write_common_metadata")
    ok = False
    if w is not None:
        body = [s for s in w.tree.body if not (isinstance(s, ast.Expr) and isinstance(s.value, ast.Constant))]
        ok = bool(body) and isinstance(body[0], ast.Expr) and _is_call_to(body[0].value, ("consolidate_categories",)) and \
            body[0].value.args and ast.unparse(body[0].value.args[0]) == "fmd"
    res.add("write_common_metadata.consolidates_before_writing", PROVED if ok else REFUTED, None, 0.0, "ast",
            "writer.write_common_metadata calls consolidate_categories(fmd) before anything is written")
    return init, m, w


KEY_FAMILY = ("cats.total_on_arbitrary_keys", "cats.other_key_values_untouched", "cats.writes_updated_json_under_pandas_key",
              "cats.no_pandas_metadata_no_change", "cats.nothing_else_in_pandas_metadata_changes", "cats.index_in_range")


def check(ctx, timeout, only=None):
    """-> list of (name, model, detail) refuted.  `only`: predicate on obligation names (the key-value family is exposed to C16)"""
    funcs, _, _ = parse_module("fastparquet/writer.py")
    f = funcs["consolidate_categories"]
    ctx.function("writer.consolidate_categories", f.sha, f.report)
    out = []

    def record(fq, res):
        for name in res.order:
            if only is not None and not only(name):
                continue
            st = res.status(name)
            e = next((x for x in res.d[name] if x[0] == st), res.d[name][0])
            ctx.obligation(name, fq, st, e[3], sum(x[2] for x in res.d[name]), detail=e[4], model=e[1] if st == REFUTED else None,
                           sample=(st != PROVED or "bounds_every_chunk" in name))
            if st == REFUTED:
                out.append((name, e[1], e[4]))
    try:
        res, n_ret, vac = run_cats(funcs, timeout)
        ctx.vacuity["covers"] += n_ret
        for k, v in vac.items():
            ctx.vacuity[k] += v
        if not all(vac.values()):
            ctx.engine_error(f"consolidate_categories: vacuity guard failed {vac}")
        record("writer.consolidate_categories", res)
    except Unsupported as ex:
        ctx.obligation("consolidate_categories.out_of_reach", "writer.consolidate_categories", UNKNOWN, "engine", 0.0, detail=str(ex), sample=True)
    res = Results()
    init, m, w = call_sites(res)
    for q, fn in (("api.ParquetFile.__init__", init), ("writer.merge", m), ("writer.write_common_metadata", w)):
        if fn is not None:
            ctx.function(q, fn.sha, dict(fn.report, mode="call sites (ast)"))
    record("api.ParquetFile.__init__ (call sites)", res)
    return out
