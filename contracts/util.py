"""Helpers shared by the sidecar contract modules."""
import time

import z3

from vc import backends
from vlib.common import PROVED, REFUTED, UNKNOWN


def solve(constraints, timeout):
    """-> (status, model, secs): unsat = PROVED, sat = REFUTED (+model).  An `unknown` is retried ONCE with four times the limit
    (time-outs under machine load must not turn a decidable query into an undecided obligation)"""
    st, m, secs = _solve_once(constraints, timeout)
    if st == UNKNOWN:
        st2, m2, secs2 = _solve_once(constraints, 4 * timeout)
        return st2, m2, secs + secs2
    return st, m, secs


def _solve_once(constraints, timeout):
    timeout = backends.scaled_timeout(timeout)      # wall-clock limits scale with machine load (never flips a decided verdict)
    s = z3.Solver()
    s.set("timeout", timeout)
    s.add(*constraints)
    t = time.time()
    r = s.check()
    dt = time.time() - t
    if r == z3.unsat:
        return PROVED, None, dt
    if r == z3.sat:
        return REFUTED, s.model(), dt
    r2 = backends._cvc5(s.to_smt2(), timeout)
    if r2 == "unsat":
        return PROVED, None, time.time() - t
    return UNKNOWN, None, time.time() - t


class Results:
    """obligation name -> list of (status, model_dict, secs, backend, detail); one entry per path reaching it"""

    def __init__(self):
        self.d = {}
        self.order = []

    def add(self, name, status, model=None, secs=0.0, backend="z3", detail=None):
        if name not in self.d:
            self.d[name] = []
            self.order.append(name)
        self.d[name].append((status, model, secs, backend, detail))

    def add_engine_obligations(self, eng, prefix, timeout, model_fn=None):
        for ob in eng.oblig:
            st, be, secs, m = backends.discharge(ob, timeout)
            nm = prefix + ob.name.split(".", 1)[-1]
            self.add(nm, st, model_fn(m) if (m is not None and model_fn) else None, secs, be, ob.note or ob.kind)
        eng.oblig = []

    def status(self, name):
        sts = [e[0] for e in self.d.get(name, [])]
        if not sts:
            return None
        if REFUTED in sts:
            return REFUTED
        if UNKNOWN in sts:
            return UNKNOWN
        return PROVED


def merge_and_record(ctx, function, unbounded, bounded_runs=(), known=None):
    """Record every obligation of the unbounded run in ctx.  An obligation the solver left UNKNOWN is looked up
    in the bounded-instantiation runs (same contract, sequence lengths fixed to small constants and quantifiers
    expanded): a REFUTED there is a genuine counter-model.  PROVED only ever comes from the unbounded run.
    `known`: dict obligation-name -> (finding id, checker) where checker(name) -> True if the obligation holds
    outside the finding's region.  Returns list of (name, model) for refuted obligations not covered by a finding."""
    out = []
    for name in unbounded.order:
        entries = unbounded.d[name]
        st = unbounded.status(name)
        secs = sum(e[2] for e in entries)
        be = "+".join(sorted({e[3] for e in entries}))
        detail = next((e[4] for e in entries if e[4]), None)
        model = next((e[1] for e in entries if e[0] == REFUTED and e[1] is not None), None)
        if st == UNKNOWN or (st == REFUTED and model is None):
            for k, br in bounded_runs:
                if br.status(name) == REFUTED:
                    model = next((e[1] for e in br.d[name] if e[0] == REFUTED and e[1] is not None), None)
                    st, be = REFUTED, be + f"; counter-model by bounded instantiation (n={k})"
                    break
        if st == REFUTED and known and name in known and ctx.is_known(known[name][0]):
            fid, outside_ok = known[name]
            if outside_ok():
                ctx.obligation(name, function, "refuted-known", be, secs,
                               detail=f"refuted only inside the region of known finding {fid}; proved outside it",
                               model=model, sample=True)
                ctx.known_finding(fid)
                continue
            name_out = name + "[outside known region]"
            ctx.obligation(name_out, function, REFUTED, be, secs, detail=detail, model=model, sample=True)
            out.append((name, model))
            continue
        ctx.obligation(name, function, st, be, secs, detail=detail, model=model if st == REFUTED else None,
                       sample=(st != PROVED or ".sound" in name))
        if st == REFUTED:
            out.append((name, model))
    # refutations that only exist in a bounded run (e.g. a path that is infeasible symbolically cannot exist) are ignored
    return out


def ret_line(p):
    for kind, ln in reversed(p.trace):
        if kind == "ret":
            return ln
    return 0
