"""C02 / C04 / C07 / C08 / C12 - OPTION PLUMBING: along every call chain of the writers
   write -> write_simple / write_multi / overwrite / pf.write_row_groups -> partition_on_columns -> make_part_file -> make_row_group ->
   write_column,   ParquetFile.write_row_groups / remove_row_groups / _sort_part_names / _write_common_metadata, merge
the caller's own value of  stats, compression, fmd / schema, open_with, mkdirs, file_scheme, partition_on, row_group_offsets
reaches the callee UNCHANGED - not the callee's default, not a constant, not another variable.

One obligation per (call site, callee parameter):   options.<caller>-><callee>.passes[<parameter>]      (#k when a caller has several
call sites of the same callee).  It is posed when the callee HAS the parameter and the caller OWNS the option (it is a parameter of
the caller, or of the enclosing function for a nested one) or an EXPECT entry says what must arrive (e.g. schema = fmd.schema,
write_row_groups -> write_multi: file_scheme = self.file_scheme, append = True).

How it is decided: STRUCTURALLY, from the ast of the real source (def-use), not by symbolic execution - the claim is about which value
is handed over, on every path:
  * the call is bound against the callee's real signature (positional and keyword); *args / **kwargs at a site -> UNKNOWN;
  * passes[p] is PROVED iff the expression bound to p is the Name of the caller's parameter, and every re-binding of that name in the
    caller DEPENDS on the name itself (its right-hand side mentions it, or it stands under an `if` whose test mentions it:
    `if mkdirs is None: mkdirs = default_mkdirs`, `..., open_with, mkdirs = get_fs(filename, open_with, mkdirs)`,
    `partition_on = [partition_on]`) - a normalisation, noted in the detail; or it is a local all of whose definitions depend on the
    parameter (make_row_group: comp / st are computed from compression / stats per column: 'derived');
  * not passed at all (the callee falls back to its default), a constant, another name, a re-binding that does not depend on the
    option -> REFUTED, with what is passed instead.
The symbolic runs of contracts/c02_partfiles.py (write_multi part.*, write_row_groups[multi].appends_through_write_multi_without_summary,
write.dispatch.*) and contracts/c08_paths.py decide the same facts path by path for their call sites; this module covers EVERY site of
the chain uniformly, including partition_on_columns -> make_part_file (seed C12-m5) and make_part_file -> make_row_group -> write_column.
"""
import ast

from vc.front_py import parse_module
from vlib.common import PROVED, REFUTED, UNKNOWN
from .util import Results

TRACKED = ("stats", "compression", "fmd", "schema", "open_with", "mkdirs", "file_scheme", "partition_on", "row_group_offsets", "remove_with")
METHODS = {"write_row_groups": "ParquetFile.write_row_groups", "remove_row_groups": "ParquetFile.remove_row_groups",
           "_write_common_metadata": "ParquetFile._write_common_metadata", "_sort_part_names": "ParquetFile._sort_part_names",
           "ParquetFile": "ParquetFile.__init__"}
WRITER_CALLEES = ("write_simple", "write_multi", "overwrite", "partition_on_columns", "make_part_file", "make_row_group", "write_column",
                  "write_common_metadata", "iter_dataframe", "merge")
WRITER_CALLERS = ("write", "write_simple", "write_simple.write_to_file", "write_multi", "partition_on_columns", "make_part_file",
                  "make_row_group", "overwrite", "merge")
API_CALLERS = ("ParquetFile.write_row_groups", "ParquetFile.remove_row_groups", "ParquetFile._sort_part_names",
               "ParquetFile._write_common_metadata")
# what must arrive where the caller has no parameter of that name (the dataset's schema is fmd.schema; a handle appends with ITS scheme,
# ITS metadata, ITS partitioning columns; an append is an append)
EXPECT = {
    ("write_multi", "make_part_file", "schema"): ("text", "fmd.schema"),
    ("partition_on_columns", "make_part_file", "schema"): ("text", "fmd.schema"),
    ("write_simple.write_to_file", "make_row_group", "schema"): ("text", "fmd.schema"),
    ("write_multi", "partition_on_columns", "columns"): ("param", "partition_on"),
    ("write_multi", "partition_on_columns", "with_field"): ("text", "file_scheme == 'hive'"),
    ("ParquetFile.write_row_groups", "write_multi", "file_scheme"): ("text", "self.file_scheme"),
    ("ParquetFile.write_row_groups", "write_multi", "fmd"): ("text", "self.fmd"),
    ("ParquetFile.write_row_groups", "write_simple", "fmd"): ("text", "self.fmd"),
    ("ParquetFile.write_row_groups", "write_multi", "partition_on"): ("local", "list(self.cats)"),
    ("ParquetFile.write_row_groups", "write_multi", "append"): ("const", True),
    ("ParquetFile.write_row_groups", "write_simple", "append"): ("const", True),
    ("write", "write_multi", "append"): ("const", False),
    ("write", "write_simple", "append"): ("const", False),
    ("write", "write_multi", "fmd"): ("local", "make_metadata("),
    ("write", "write_simple", "fmd"): ("local", "make_metadata("),
    ("ParquetFile._write_common_metadata", "write_common_metadata", "fmd"): ("local", "self.fmd"),
}


def _own_nodes(fn):
    """nodes of the function body without the bodies of nested functions / lambdas"""
    out, todo = [], [n for n in fn.body if not isinstance(n, (ast.FunctionDef, ast.AsyncFunctionDef))]
    while todo:
        n = todo.pop()
        out.append(n)
        for c in ast.iter_child_nodes(n):
            if isinstance(c, (ast.FunctionDef, ast.AsyncFunctionDef, ast.Lambda)):
                continue
            todo.append(c)
    return out


def _names(e):
    return {n.id for n in ast.walk(e) if isinstance(n, ast.Name)} if e is not None else set()


class Defs:
    """every binding of a Name in a function: (name, right-hand side, names of the enclosing if/while tests)"""

    def __init__(self, fn):
        self.items = []
        self._walk(fn.body, set())

    def _walk(self, stmts, ctl):
        for st in stmts:
            if isinstance(st, (ast.FunctionDef, ast.AsyncFunctionDef)):
                continue
            if isinstance(st, (ast.Assign, ast.AnnAssign, ast.AugAssign)):
                targets = st.targets if isinstance(st, ast.Assign) else [st.target]
                for t in targets:
                    for n in ast.walk(t):
                        if isinstance(n, ast.Name) and isinstance(n.ctx, ast.Store):
                            self.items.append((n.id, st.value, set(ctl), st))
            elif isinstance(st, (ast.For, ast.AsyncFor)):
                for n in ast.walk(st.target):
                    if isinstance(n, ast.Name):
                        self.items.append((n.id, st.iter, set(ctl), st))
                self._walk(st.body, ctl)
                self._walk(st.orelse, ctl)
            elif isinstance(st, (ast.If, ast.While)):
                c2 = ctl | _names(st.test)
                self._walk(st.body, c2)
                self._walk(st.orelse, c2)
            elif isinstance(st, (ast.With, ast.AsyncWith)):
                for it in st.items:
                    if it.optional_vars is not None:
                        for n in ast.walk(it.optional_vars):
                            if isinstance(n, ast.Name):
                                self.items.append((n.id, it.context_expr, set(ctl), st))
                self._walk(st.body, ctl)
            elif isinstance(st, ast.Try):
                for b in (st.body, st.orelse, st.finalbody):
                    self._walk(b, ctl)
                for h in st.handlers:
                    self._walk(h.body, ctl)

    def of(self, name):
        return [d for d in self.items if d[0] == name]


def _depends(defs, local, param, seen=None):
    """do ALL definitions of `local` depend (data or control) on `param`?  -> (bool, [texts of the definitions])"""
    seen = seen or set()
    ds = defs.of(local)
    if not ds:
        return False, []
    texts, ok = [], True
    for _, rhs, ctl, st in ds:
        mention = _names(rhs) | ctl
        texts.append(ast.unparse(st).split("\n")[0][:80])
        if isinstance(rhs, ast.Constant) and local != param:
            ok = False          # a derived value that is a bare constant is not the caller's option, whatever test it stands under
            continue
        if param in mention or local in mention and any(param in (_names(r) | c) for _, r, c, _ in ds):
            continue
        ok = False
    return ok, texts


def bind(call, callee_fn, skip_self):
    """callee parameter -> expression at this call site; None if *args / **kwargs make it undecidable"""
    params = [a.arg for a in callee_fn.args.args][1 if skip_self else 0:]
    if any(isinstance(a, ast.Starred) for a in call.args) or any(k.arg is None for k in call.keywords):
        return None, params
    m = {}
    for p, a in zip(params, call.args):
        m[p] = a
    kwonly = [a.arg for a in callee_fn.args.kwonlyargs]
    for k in call.keywords:
        if k.arg in params or k.arg in kwonly:
            m[k.arg] = k.value
    return m, params + kwonly


def default_of(callee_fn, p, skip_self):
    a = callee_fn.args
    params = [x.arg for x in a.args]
    d = dict(zip(params[len(params) - len(a.defaults):], a.defaults))
    return ast.unparse(d[p]) if p in d else "<required>"


def analyse(funcs_w, funcs_a):
    table = {n: (funcs_w[n].tree, False) for n in WRITER_CALLEES if n in funcs_w}
    for m, q in METHODS.items():
        if q in funcs_a:
            table[m] = (funcs_a[q].tree, True)
    callers = [(q, funcs_w[q].tree, funcs_w) for q in WRITER_CALLERS if q in funcs_w] + [(q, funcs_a[q].tree, funcs_a) for q in API_CALLERS if q in funcs_a]
    res = Results()
    n_sites = 0
    for q, fn, funcs in callers:
        own = {a.arg for a in fn.args.args} | {a.arg for a in fn.args.kwonlyargs}
        outer = None
        if "." in q and q.rsplit(".", 1)[0] in funcs and not q.startswith("ParquetFile."):
            outer = funcs[q.rsplit(".", 1)[0]].tree                 # nested function: the options are the enclosing function's
            own_outer = {a.arg for a in outer.args.args}
        defs = Defs(fn)
        defs_outer = Defs(outer) if outer is not None else None
        calls = sorted([n for n in _own_nodes(fn) if isinstance(n, ast.Call)], key=lambda n: (n.lineno, n.col_offset))
        per_callee = {}
        for c in calls:
            name = c.func.id if isinstance(c.func, ast.Name) else c.func.attr if isinstance(c.func, ast.Attribute) else None
            if name not in table or (isinstance(c.func, ast.Attribute) and name not in METHODS):
                continue
            if isinstance(c.func, ast.Name) and name in METHODS and name != "ParquetFile":
                continue
            per_callee.setdefault(name, []).append(c)
        for name, sites in per_callee.items():
            cfn, skip_self = table[name]
            for k, c in enumerate(sites):
                site = f"options.{q}->{name}" + (f"#{k + 1}" if len(sites) > 1 else "")
                bound, params = bind(c, cfn, skip_self)
                n_sites += 1
                for p in params:
                    spec = EXPECT.get((q, name, p))
                    if spec is None:
                        if p not in TRACKED:
                            continue
                        if p in own and not (outer is not None and defs.of(p)):
                            spec = ("param", p)
                        elif outer is not None and p in own_outer and not defs.of(p):
                            spec = ("closure", p)
                        else:
                            continue
                    ob = f"{site}.passes[{p}]"
                    what = {"param": "the caller's parameter `%s`", "closure": "the enclosing function's parameter `%s`", "text": "`%s`",
                            "local": "a local defined as `%s...`", "const": "the constant %s"}[spec[0]] % (spec[1],)
                    detail = f"{name}(... {p} ...) at L{c.lineno} receives {what}"
                    if bound is None:
                        res.add(ob, UNKNOWN, None, 0.0, "ast", detail + " - *args / **kwargs at the call site")
                        continue
                    if p not in bound:
                        res.add(ob, REFUTED, {"passed": "nothing", "callee_uses_its_default": default_of(cfn, p, skip_self), "line": c.lineno}, 0.0,
                                "ast", detail)
                        continue
                    e = bound[p]
                    txt = ast.unparse(e)
                    st, model, note = REFUTED, {"passed": txt, "line": c.lineno}, ""
                    if spec[0] in ("param", "closure"):
                        d = defs if spec[0] == "param" else defs_outer
                        if isinstance(e, ast.Name) and e.id == spec[1]:
                            rb = d.of(spec[1])
                            ok, texts = _depends(d, spec[1], spec[1]) if rb else (True, [])
                            if ok:
                                st, model = PROVED, None
                                note = (" [normalised first: " + "; ".join(texts) + "]") if texts else ""
                            else:
                                model = {"passed": txt, "but_rebound_independently_of_the_option": texts, "line": c.lineno}
                        elif isinstance(e, ast.Name) and e.id not in (own if spec[0] == "param" else own_outer):
                            ok, texts = _depends(d, e.id, spec[1])
                            if ok:
                                st, model, note = PROVED, None, " [derived: " + "; ".join(texts) + "]"
                            else:
                                model = {"passed": txt, "whose_definitions": texts, "do_not_all_depend_on": spec[1], "line": c.lineno}
                    elif spec[0] == "text":
                        if txt == spec[1]:
                            base = txt.split(".")[0].split(" ")[0]
                            rb = [t for t in (defs.of(base) if base != "self" else [])]
                            ok, texts = _depends(defs, base, base) if rb else (True, [])
                            if ok:
                                st, model = PROVED, None
                    elif spec[0] == "local":
                        if isinstance(e, ast.Name):
                            ds = defs.of(e.id)
                            if ds and all(spec[1] in ast.unparse(r) for _, r, _, _ in ds):
                                st, model, note = PROVED, None, f" [{e.id} = " + ast.unparse(ds[0][1])[:60] + "]"
                            else:
                                model = {"passed": txt, "defined_as": [ast.unparse(r)[:60] for _, r, _, _ in ds], "line": c.lineno}
                    elif spec[0] == "const":
                        if isinstance(e, ast.Constant) and e.value is spec[1]:
                            st, model = PROVED, None
                    res.add(ob, st, model, 0.0, "ast", detail + note)
    return res, n_sites


def check(ctx, timeout=None):
    w, _, _ = parse_module("fastparquet/writer.py")
    a, _, _ = parse_module("fastparquet/api.py")
    for q in WRITER_CALLERS:
        if q in w:
            ctx.function("writer." + q, w[q].sha, w[q].report)
    for q in API_CALLERS:
        if q in a:
            ctx.function("api." + q, a[q].sha, a[q].report)
    res, n_sites = analyse(w, a)
    if n_sites < 20 or len(res.order) < 40:
        ctx.engine_error(f"options: only {n_sites} call sites / {len(res.order)} obligations found - the call chain was not recognised")
    ctx.vacuity["covers"] += n_sites
    return [res]


ASSUMED = [
    "option plumbing is decided from the ast of the real source: a Name that is a parameter of the function and is re-bound only by "
    "statements that depend on it denotes the caller's own option at every call site; get_fs / default_mkdirs / [partition_on] / "
    "copy(fmd) are normalisations of the value they receive",
    "callees are resolved by name: functions of writer.py, and the methods write_row_groups / remove_row_groups / _write_common_metadata / "
    "_sort_part_names / ParquetFile(...) of api.ParquetFile whatever the receiver",
]
