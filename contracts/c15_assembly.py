"""C15 / C12 - record assembly of LIST / MAP columns under contract, from the real source on every run.

Part 1  cencoding._assemble_objects (Cython, via vc.front_cy)                                   -> check_assemble(cfg, timeout)
Part 2  schema.SchemaHelper.max_repetition_level / max_definition_level, _is_list_like, _is_map_like -> check_schema(timeout)
Part 3  core.read_col / read_data_page_v2 call sites of the kernel, read_row_group_arrays map zipping -> check_core(timeout)

=== Part 1: the specification (written from the Parquet format's definition / repetition levels, Dremel record assembly) ===
A page of a leaf with ONE repeated ancestor is a stream of N entries (rep[c], def[c]) and a value stream of NV values. With
   null      = 1 iff the outer LIST / MAP group is OPTIONAL              (definition level 0 then means: the row is null)
   max_defi  = the leaf's maximum definition level, null + 1 (REQUIRED leaf) or null + 2 (OPTIONAL leaf); Part 2 proves that
               schema.max_definition_level computes null + 1 + null_val for the 3-level layouts.  The parameter `null_val` is redundant
               given max_defi (and the code never reads it): it is not part of the contract.
record assembly is the left fold of SPEC STEP over the entries, started from the rows assembled so far (R = rows started so far):
   rep == 0   starts row R (R += 1): the row is None when null and def == 0, otherwise a new list
   rep == 1   continues row R - 1 (the row opened last - possibly on an earlier page)
   def == max_defi                      the next value of the value stream is appended (through the dictionary when d)
   null < def < max_defi                the entry exists but its leaf is null: None is appended
   def == null                          the collection exists and is empty: nothing is appended
The function's contract for one page:  final rows of `assign` == fold(SPEC STEP) of the page over the rows at entry (whole array,
posed at a Skolem row / element index: a lost, duplicated, reordered or trailing element fails), result == R_final - 1 (the caller
adds 1: the docstring's `prev_i` = 1 + index of the last row started).

How it is proved: the `for counter in range(rep.shape[0])` loop is a hook that runs ONE ARBITRARY iteration c: every local the body
assigns (i, vali, started, have_null, part, de, re, the contents of assign) is havoc'd, constrained only by the COUPLING INVARIANT
INV(c) between the code state and an arbitrary spec state S_c:
   I1  vali == CNT(c)             (CNT(c) = number of entries before c with def == max_defi)
   I2  started <=> ROWS(c) > 0    (ROWS(c) = number of entries before c with rep == 0)
   I3  i == prev_i + max(ROWS(c) - 1, 0)
   I4  have_null <=> c > 0 and def[c-1] == 0 and null
   I9  not started => len(part) == c      (every continuation entry of a well-formed page appends exactly one element)
   I5  every row k other than the open row o (o = i if started else i - 1): assign[k] == S_c[k]
   I6  the open row: started: S_c[o] == (None if have_null else part);  not started: S_c[o] == assign[o] ++ part
   I7  not started and (c > 0 or rep[0] == 1)  =>  prev_i >= 1 and assign[prev_i - 1] is a list (the row continued from the previous page)
   I10 rows outside [prev_i - 1, prev_i + ROWS(c)) are the rows at entry (frame)
   I8  `part` is not an alias of a stored row (tracked per list object: a store of an already stored list / a mutation of a stored
       list is an obligation of its own)
INV(0) is proved on entry from the real prologue, INV(c) and body => INV(c+1) with S_{c+1} = SPEC STEP(S_c, entry c) on every path of
the real body, and from an arbitrary state under INV(N) the real epilogue must leave assign == S_N and return R_N - 1.
All formulas are quantifier-free: universals of the invariant are instantiated at the goal's Skolem indices only.

Precondition (derived from the call site core.read_col; stated in PRE_TEXT, satisfiability checked): see PRE_TEXT.
"""
import ast
import time

import z3

from vc import backends
from vc.symexec import (Engine, Path, CI, PyI, PyB, NONE, NoneV, Opaque, Custom, Str, Tup, Opt, LoopSpec, Unsupported)
from vlib.common import PROVED, REFUTED, UNKNOWN
from . import cy
from .kernels import KResults, post, mv
from .util import solve, Results

FN = "_assemble_objects"

PRE_TEXT = [
    "len(defi) == len(rep) == N, 1 <= N < 2**31 (defi is None <=> every definition level == max_defi: core.read_def drops the array when the page has no nulls)",
    "0 <= def[c] <= max_defi and rep[c] in {0, 1} for every entry (levels of a well-formed page; max_repetition_level == 1 for the LIST / MAP layouts)",
    "null in {0, 1}, null + 1 <= max_defi <= null + 2 (schema: outer group OPTIONAL iff null, REPEATED middle group, leaf REQUIRED / OPTIONAL - Part 2)",
    "well-formed levels: rep[c] == 1 => def[c] > null and (c > 0 => def[c-1] > null)   (only a non-empty collection is continued)",
    "len(val) == number of entries with def == max_defi (core.read_data_page: nval = num_values - num_nulls)",
    "d => dic is an array and every val[j] is in [0, len(dic))",
    "0 <= prev_i, prev_i + (number of entries with rep == 0) <= len(assign) < 2**31  (assign holds the rows of the row group)",
    "rep[0] == 1 => prev_i >= 1 and assign[prev_i - 1] is a list (a page may start with the continuation of the previous page's last row; "
    "the first page of a chunk - prev_i == 0 - starts with rep == 0)",
    "the non-None entries of assign are pairwise distinct list objects referenced from nowhere else (they were created by `[]` in earlier calls)",
]

ASSUMED = [
    "prefix counts are monotone and bounded by the prefix length: CNT(a) <= CNT(b), ROWS(a) <= ROWS(b) for a <= b, CNT(a) <= a, ROWS(a) <= a "
    "(arithmetic facts about counting, used at the instances (0,c), (c,N), (c+1,N))",
    "CPython list semantics: `[]` creates a fresh list, list.append adds one element at the end, list.extend(x) appends the elements of x in order; "
    "`a[k] = v` on an object[:] memoryview stores a reference (boundscheck=False, wraparound=False: the index is used raw)",
    "numpy: `dic[val]` is the element-wise dereference (IndexError outside the dictionary), `val[j]` the j-th element",
    "the lifting from one page to a chunk (the fold over the concatenated pages, given that the caller hands R_final to the next page - Part 3) "
    "and from the two leaves of a MAP to its dict rows (Part 3, zip) is argued, not mechanised",
]

I = z3.IntSort()
B = z3.BoolSort()
DEF = z3.Function("DEF", I, I)
REP = z3.Function("REP", I, I)
CNT = z3.Function("CNT_def_eq_max_before", I, I)
ROWS = z3.Function("ROWS_started_before", I, I)


class Rows:
    """rows of an object array by value: none(k) Bool, ln(k) Int, elt(k, j) Int (element code: -1 None, 2v raw value v of the page's
    value stream, 2v+1 dictionary entry of value v)"""

    def __init__(self, none, ln, elt):
        self.none, self.ln, self.elt = none, ln, elt

    @staticmethod
    def sym(name):
        n_, l_, e_ = z3.Function(name + "_isnone", I, B), z3.Function(name + "_len", I, I), z3.Function(name + "_elt", I, I, I)
        return Rows(lambda k: n_(k), lambda k: l_(k), lambda k, j: e_(k, j))

    def store(self, t, isnone, n, elt):
        o = self
        return Rows(lambda k: z3.If(k == t, isnone, o.none(k)),
                    lambda k: z3.If(k == t, n, o.ln(k)),
                    lambda k, j: z3.If(k == t, elt(j), o.elt(k, j)))


def row_eq(a, b, k, j):
    """row k of a == row k of b (posed at element index j)"""
    return z3.And(a.none(k) == b.none(k),
                  z3.Implies(z3.Not(a.none(k)), z3.And(a.ln(k) == b.ln(k), z3.Implies(z3.And(0 <= j, j < a.ln(k)), a.elt(k, j) == b.elt(k, j)))))


class Sym:
    """the symbolic inputs of one call"""

    def __init__(self, cfg):
        self.cfg = cfg
        self.N, self.NV, self.A, self.ND = z3.Int("n_levels"), z3.Int("n_values"), z3.Int("len_assign"), z3.Int("len_dic")
        self.prev_i = cy.arg("prev_i", "int32_t")
        self.null = cy.arg("null", "char")
        self.max_defi = cy.arg("max_defi", "int32_t")
        self.null_val = z3.Bool("null_val")
        self.D = z3.BoolVal(bool(cfg["dict"]))
        self.A0 = Rows.sym("ASSIGN_at_entry")
        self.kS, self.jS = z3.Int("k_skolem_row"), z3.Int("j_skolem_elem")

    def pre(self):
        s = self
        return [s.prev_i.range_constraint(), s.null.range_constraint(), s.max_defi.range_constraint(),
                s.N >= 1, s.N < 2 ** 31, s.NV >= 0, s.A >= 0, s.A < 2 ** 31, s.ND >= 0,
                z3.Or(s.null.iv == 0, s.null.iv == 1), s.max_defi.iv >= s.null.iv + 1, s.max_defi.iv <= s.null.iv + 2,
                s.prev_i.iv >= 0, s.prev_i.iv + ROWS(s.N) <= s.A, CNT(s.N) == s.NV,
                CNT(0) == 0, ROWS(0) == 0, ROWS(s.N) >= 0, ROWS(s.N) <= s.N, CNT(s.N) <= s.N,
                z3.Implies(REP(0) == 1, z3.And(s.prev_i.iv >= 1, z3.Not(s.A0.none(s.prev_i.iv - 1))))] + self.level_facts(z3.IntVal(0))

    def level_facts(self, k):
        """instances at entry k of the universally quantified parts of the precondition and of the definitions of CNT / ROWS"""
        s = self
        f = [z3.Implies(z3.And(0 <= k, k < s.N), z3.And(
            DEF(k) >= 0, DEF(k) <= s.max_defi.iv, z3.Or(REP(k) == 0, REP(k) == 1),
            z3.Implies(REP(k) == 1, z3.And(DEF(k) > s.null.iv, z3.Implies(k > 0, DEF(k - 1) > s.null.iv))),
            CNT(k + 1) == CNT(k) + z3.If(DEF(k) == s.max_defi.iv, 1, 0),
            ROWS(k + 1) == ROWS(k) + z3.If(REP(k) == 0, 1, 0),
            CNT(k) >= 0, ROWS(k) >= 0, CNT(k + 1) <= CNT(s.N), ROWS(k + 1) <= ROWS(s.N), CNT(k) <= CNT(s.N), ROWS(k) <= ROWS(s.N),
            CNT(k) <= k, ROWS(k) <= k)),
             z3.Implies(z3.And(1 <= k, k <= s.N), z3.And(DEF(k - 1) >= 0, DEF(k - 1) <= s.max_defi.iv))]
        if not s.cfg["defi"]:
            f.append(z3.Implies(z3.And(0 <= k, k < s.N), DEF(k) == s.max_defi.iv))
            f.append(z3.Implies(z3.And(1 <= k, k <= s.N), DEF(k - 1) == s.max_defi.iv))
        return f

    def row_facts(self, rows, ks):
        return [rows.ln(k) >= 0 for k in ks]


def spec_step(s, S, c):
    """SPEC STEP: the rows after entry c, given the rows S before it (see the module docstring)"""
    re, de = REP(c), DEF(c)
    R, V = s.prev_i.iv + ROWS(c), CNT(c)
    t = z3.If(re == 0, R, R - 1)
    base_none = z3.If(re == 0, z3.And(s.null.iv == 1, de == 0), S.none(t))
    base_len = z3.If(re == 0, z3.IntVal(0), S.ln(t))
    has_val = de == s.max_defi.iv
    has_null = z3.And(s.null.iv < de, de < s.max_defi.iv)
    code = z3.If(has_val, 2 * V + z3.If(s.D, 1, 0), z3.IntVal(-1))
    grows = z3.And(z3.Not(base_none), z3.Or(has_val, has_null))
    new_len = z3.If(grows, base_len + 1, base_len)

    def elt(j):
        return z3.If(z3.And(grows, j == base_len), code, z3.If(re == 0, z3.IntVal(-7), S.elt(t, j)))
    return S.store(t, base_none, new_len, elt)


# ---- proof-script objects -----------------------------------------------------------------------------------------
class Elem:
    def __init__(self, code):
        self.code = code

    def is_none(self, eng, p):
        return z3.BoolVal(False)


def elem_code(v):
    if isinstance(v, NoneV):
        return z3.IntVal(-1)
    if isinstance(v, Custom) and isinstance(v.h, Elem):
        return v.h.code
    raise Unsupported(f"list element of kind {type(v).__name__}")


class ListRef:
    """a Python list object; its state (len, elt, stored-in-assign flag) lives in p.ghost['L'][oid]"""
    tracked = False

    def __init__(self, oid):
        self.oid = oid

    def is_none(self, eng, p):
        return z3.BoolVal(False)

    def truth(self, eng, p):
        return p.ghost["L"][self.oid][0] > 0

    def len(self, eng, p):
        return PyI(p.ghost["L"][self.oid][0])

    def call_method(self, eng, p, name, args, kw, node):
        n, elt, stored = p.ghost["L"][self.oid]
        if stored:
            eng.oblige(p, "assemble.stored_row_not_mutated", "inv", z3.BoolVal(False), node,
                       "a list that was already stored into assign is mutated through another reference")
        if name == "append" and len(args) == 1:
            code = elem_code(args[0])
            p.ghost["L"][self.oid] = (n + 1, lambda j, n=n, elt=elt, code=code: z3.If(j == n, code, elt(j)), stored)
            return [(p, NONE)]
        if name == "extend" and len(args) == 1 and isinstance(args[0], Custom) and isinstance(args[0].h, ListRef):
            m, elt2, _ = p.ghost["L"][args[0].h.oid]
            p.ghost["L"][self.oid] = (n + m, lambda j, n=n, elt=elt, elt2=elt2: z3.If(j < n, elt(j), elt2(j - n)), stored)
            return [(p, NONE)]
        raise Unsupported("list." + name)


def new_list(eng, p, n=None, elt=None):
    oid = f"list!{next(eng.counter)}"
    p.ghost.setdefault("L", {})
    p.ghost["L"][oid] = (z3.IntVal(0) if n is None else n, (lambda j: z3.IntVal(-9)) if elt is None else elt, False)
    return Custom(ListRef(oid))


class RowRef:
    """the object loaded from assign[idx] (valid while assign is not stored to again)"""
    tracked = False

    def __init__(self, idx, ver, phase):
        self.idx, self.ver, self.phase = idx, ver, phase

    def _rows(self, p):
        if p.ghost["Aver"] != self.ver:
            raise Unsupported("object loaded from assign used after a later store into assign")
        return p.ghost["A"]

    def is_none(self, eng, p):
        return self._rows(p).none(self.idx)

    def call_method(self, eng, p, name, args, kw, node):
        rows = self._rows(p)
        k = self.idx
        if name == "extend" and len(args) == 1 and isinstance(args[0], Custom) and isinstance(args[0].h, ListRef):
            eng.oblige(p, f"assemble.extend_target_is_a_list[{p.ghost['phase']}]", "post", z3.Not(rows.none(k)), node,
                       "assign[i-1].extend(...): the row continued from the previous page must be a list (None.extend raises AttributeError)")
            p.pc.append(z3.Not(rows.none(k)))
            m, elt2, _ = p.ghost["L"][args[0].h.oid]
            la, old = rows.ln(k), rows
            p.ghost["A"] = rows.store(k, z3.BoolVal(False), la + m, lambda j: z3.If(j < la, old.elt(k, j), elt2(j - la)))
            p.ghost["Aver"] = p.ghost["Aver"] + 1
            p.ghost["writes"] = p.ghost.get("writes", []) + [k]
            return [(p, NONE)]
        raise Unsupported("method ." + name + " of an element of assign")


class AssignArr:
    tracked = False

    def __init__(self, s):
        self.s = s

    def is_none(self, eng, p):
        return z3.BoolVal(False)

    def attr(self, eng, p, name):
        if name == "shape":
            return Tup([PyI(self.s.A)])
        raise Unsupported("assign." + name)

    def len(self, eng, p):
        return PyI(self.s.A)

    def getitem(self, eng, p, i, node=None):
        k = eng.as_int(i, p)
        eng.oblige(p, f"assemble.assign_load_in_range[{p.ghost['phase']}]", "safety", z3.And(k >= 0, k < self.s.A), node,
                   "assign[k] read inside the array (boundscheck=False, wraparound=False: raw index)")
        return Custom(RowRef(k, p.ghost["Aver"], p.ghost["phase"]))

    def setitem(self, eng, p, i, v, node=None):
        k = eng.as_int(i, p)
        eng.oblige(p, f"assemble.assign_store_in_range[{p.ghost['phase']}]", "safety", z3.And(k >= 0, k < self.s.A), node,
                   "assign[k] = ... written inside the array (boundscheck=False: a store beyond the rows of the row group corrupts memory)")
        rows = p.ghost["A"]
        if isinstance(v, NoneV):
            p.ghost["A"] = rows.store(k, z3.BoolVal(True), z3.IntVal(0), lambda j: z3.IntVal(-8))
        elif isinstance(v, Custom) and isinstance(v.h, ListRef):
            n, elt, stored = p.ghost["L"][v.h.oid]
            eng.oblige(p, "assemble.rows_are_distinct_objects", "inv", z3.BoolVal(not stored), node,
                       "a list object is stored into assign at most once (otherwise two rows alias one list)")
            p.ghost["L"][v.h.oid] = (n, elt, True)
            p.ghost["A"] = rows.store(k, z3.BoolVal(False), n, elt)
        else:
            raise Unsupported(f"assign[k] = <{type(v).__name__}>")
        p.ghost["Aver"] = p.ghost["Aver"] + 1
        p.ghost["writes"] = p.ghost.get("writes", []) + [k]
        return [p]


class LevelArr:
    """const uint8_t[:] memoryview of levels: element k is the uninterpreted LEVEL(k), 0..255"""
    tracked = False

    def __init__(self, fn, n, name):
        self.fn, self.n, self.name = fn, n, name

    def is_none(self, eng, p):
        return z3.BoolVal(False)

    def attr(self, eng, p, name):
        if name == "shape":
            return Tup([PyI(self.n)])
        raise Unsupported(self.name + "." + name)

    def len(self, eng, p):
        return PyI(self.n)

    def getitem(self, eng, p, i, node=None):
        k = eng.as_int(i, p)
        eng.oblige(p, f"assemble.{self.name}_index_in_range", "safety", z3.And(k >= 0, k < self.n), node,
                   f"{self.name}[counter] read inside the memoryview (boundscheck=False)")
        v = self.fn(k)
        p.pc.append(z3.And(v >= 0, v <= 255))
        return CI(z3.Int2BV(v, 8), 8, False, v, (0, 255))


class ValArr:
    tracked = False

    def __init__(self, s, deref):
        self.s, self.deref = s, deref

    def is_none(self, eng, p):
        return z3.BoolVal(False)

    def getitem(self, eng, p, i, node=None):
        k = eng.as_int(i, p)
        eng.oblige(p, "assemble.val_index_in_range", "safety", z3.And(k >= 0, k < self.s.NV), node,
                   "val[vali] inside the page's value array (numpy raises IndexError otherwise; a negative index would silently wrap)")
        return Custom(Elem(2 * k + (1 if self.deref else 0)))


class DicArr:
    tracked = False

    def __init__(self, s, isnone):
        self.s, self.isnone = s, isnone

    def is_none(self, eng, p):
        return self.isnone

    def getitem(self, eng, p, i, node=None):
        eng.oblige(p, "assemble.dictionary_present_when_dereferenced", "safety", z3.Not(self.isnone), node, "dic[val] with dic None raises TypeError")
        if isinstance(i, Custom) and isinstance(i.h, ValArr) and not i.h.deref:
            eng.oblige(p, "assemble.dictionary_indices_in_range", "safety", z3.Bool("every_val_index_inside_dic"), node,
                       "dic[val]: every index inside the dictionary (precondition on the page)")
            return Custom(ValArr(self.s, True))
        if isinstance(i, Custom) and isinstance(i.h, Elem):
            return Custom(Elem(i.h.code + 1))
        raise Unsupported("dic[<%s>]" % type(i).__name__)


# ---- code state / invariant ------------------------------------------------------------------------------------------
ROLES = ("i", "vali", "started", "have_null", "part")


class State:
    def __init__(self, eng, p):
        for r in ROLES:
            if r not in p.env:
                raise Unsupported(f"local `{r}` of {FN} not found (the invariant is stated over i, vali, started, have_null, part)")
        self.i = eng.as_int(p.env["i"], p)
        self.vali = eng.as_int(p.env["vali"], p)
        self.started = eng.truth(p.env["started"], p)
        self.have_null = eng.truth(p.env["have_null"], p)
        pt = p.env["part"]
        if not (isinstance(pt, Custom) and isinstance(pt.h, ListRef)):
            raise Unsupported("`part` is not a list object")
        self.lp, self.pelt, self.part_stored = p.ghost["L"][pt.h.oid]
        self.rows = p.ghost["A"]


def inv_parts(s, st, S, c, k, j):
    """INV(c) between code state st and spec rows S, universals instantiated at row k / element j -> dict part -> formula"""
    rc = ROWS(c)
    o = z3.If(st.started, st.i, st.i - 1)
    in_arr = z3.And(0 <= k, k < s.A)
    cursors = z3.And(st.vali == CNT(c), st.started == (rc > 0), st.i == s.prev_i.iv + z3.If(rc > 0, rc - 1, 0),
                     st.have_null == z3.And(c > 0, DEF(c - 1) == 0, s.null.iv == 1), st.lp >= 0, z3.Implies(z3.Not(st.started), st.lp == c))
    closed = z3.Implies(z3.And(in_arr, k != o), row_eq(st.rows, S, k, j))
    open_started = z3.And(S.none(o) == st.have_null,
                          z3.Implies(z3.Not(st.have_null), z3.And(S.ln(o) == st.lp, z3.Implies(z3.And(0 <= j, j < st.lp), S.elt(o, j) == st.pelt(j)))))
    la = st.rows.ln(o)
    open_prev = z3.And(z3.Implies(st.lp > 0, o >= 0),
                       z3.Implies(z3.And(0 <= o, o < s.A),
                                  z3.If(st.lp == 0, row_eq(st.rows, S, o, j),
                                        z3.And(z3.Not(st.rows.none(o)), z3.Not(S.none(o)), S.ln(o) == la + st.lp,
                                               z3.Implies(z3.And(0 <= j, j < la + st.lp),
                                                          S.elt(o, j) == z3.If(j < la, st.rows.elt(o, j), st.pelt(j - la)))))))
    open_row = z3.If(st.started, open_started, open_prev)
    prev_open = z3.Implies(z3.And(z3.Not(st.started), z3.Or(c > 0, REP(0) == 1)), z3.And(s.prev_i.iv >= 1, z3.Not(st.rows.none(s.prev_i.iv - 1))))
    frame = z3.Implies(z3.And(in_arr, z3.Or(k < s.prev_i.iv - 1, k >= s.prev_i.iv + rc)), row_eq(st.rows, s.A0, k, j))
    return {"cursors": cursors, "closed_rows": closed, "open_row": open_row, "continued_row_is_a_list": prev_open, "frame": frame}


GROUPS = {"cursors": ("cursors",), "rows_match_spec": ("closed_rows", "open_row"), "continued_row_is_a_list": ("continued_row_is_a_list",),
          "frame": ("frame",)}
DETAIL = {
    "cursors": "vali == number of values consumed, started <=> a row was started in this page, i == prev_i + max(rows started - 1, 0), "
               "have_null <=> the previous entry said `row is null`",
    "rows_match_spec": "after the iteration every closed row of assign and the open row (None / part, or assign[prev_i-1] ++ part) equal "
                       "SPEC STEP applied to the rows before it (Dremel record assembly of entry c)",
    "continued_row_is_a_list": "while no row was started in this page the row continued from the previous page exists and is a list",
    "frame": "rows outside [prev_i - 1, prev_i + rows started) are untouched",
}


def step_cases(s, c):
    """case split of an iteration by the SPEC (not by code path)"""
    rc = ROWS(c)
    return [
        ("rep=0,row_open_in_page", z3.And(REP(c) == 0, rc > 0)),
        ("rep=0,first_row_of_page,first_entry", z3.And(REP(c) == 0, rc == 0, c == 0)),
        ("rep=0,first_row_of_page,after_continuation_with_values", z3.And(REP(c) == 0, rc == 0, c > 0, CNT(c) > 0)),
        ("rep=0,first_row_of_page,after_continuation_of_nulls_only", z3.And(REP(c) == 0, rc == 0, c > 0, CNT(c) == 0)),
        ("rep=1,row_open_in_page", z3.And(REP(c) == 1, rc > 0)),
        ("rep=1,row_from_previous_page", z3.And(REP(c) == 1, rc == 0)),
    ]


def exit_cases(s):
    return [("row_started_in_page", ROWS(s.N) > 0), ("continuation_only_page", ROWS(s.N) == 0)]


def assigned_names(stmts):
    names = set()
    for n in ast.walk(ast.Module(body=list(stmts), type_ignores=[])):
        if isinstance(n, (ast.Assign, ast.AugAssign, ast.AnnAssign, ast.For)):
            tg = n.targets if isinstance(n, ast.Assign) else [n.target]
            for t in tg:
                for m in ast.walk(t):
                    if isinstance(m, ast.Name) and isinstance(m.ctx, ast.Store):
                        names.add(m.id)
    return names


def _bool_ci(b, bits=8):
    return CI(z3.If(b, z3.BitVecVal(1, bits), z3.BitVecVal(0, bits)), bits, True, z3.If(b, 1, 0), (0, 1))


def _int_ci(x, lo, hi, bits=32):
    return CI(z3.Int2BV(x, bits), bits, True, x, (lo, hi))


def arbitrary_state(eng, q, s, st_node, sfx, skip=()):
    """havoc every local the loop assigns; -> spec rows symbol.  Roles get named symbols, other locals are havoc'd by kind."""
    names = assigned_names(st_node.body) | assigned_names([st_node])
    iv, vv = z3.Int("i" + sfx), z3.Int("vali" + sfx)
    q.env["i"] = _int_ci(iv, -2 ** 31, 2 ** 31 - 1)
    q.env["vali"] = _int_ci(vv, -2 ** 31, 2 ** 31 - 1)
    q.pc += [iv >= -2 ** 31, iv < 2 ** 31, vv >= -2 ** 31, vv < 2 ** 31]
    q.env["started"] = _bool_ci(z3.Bool("started" + sfx))
    q.env["have_null"] = _bool_ci(z3.Bool("have_null" + sfx))
    pe = z3.Function("PART_elt" + sfx, I, I)
    q.env["part"] = new_list(eng, q, z3.Int("PART_len" + sfx), lambda j: pe(j))
    q.ghost["A"] = Rows.sym("ASSIGN" + sfx)
    q.ghost["Aver"] = q.ghost["Aver"] + 1
    q.ghost["writes"] = []
    for nm in sorted(names):
        if nm in ROLES or nm in skip or nm not in q.env:
            continue
        v = q.env[nm]
        if isinstance(v, NoneV):
            continue
        if isinstance(v, (CI, PyI, PyB, Opaque)):
            q.env[nm] = eng.havoc_like(v, nm + "_havoc", q)
        else:
            raise Unsupported(f"the loop assigns local `{nm}` holding a {type(v).__name__}: no havoc rule")
    return Rows.sym("SPEC" + sfx)


def check_assemble(cfg, timeout):
    """cfg = {'defi': bool (definition levels given / None), 'dict': bool (d)}"""
    res = KResults()
    tag = "[" + ("defi" if cfg["defi"] else "defi=None") + "," + ("dict" if cfg["dict"] else "plain") + "]"
    s = Sym(cfg)
    state = {}

    def mf(m):
        out = {"cfg": tag}
        c = state.get("c")
        for nm, t in (("n_levels", s.N), ("n_values", s.NV), ("len_assign", s.A), ("prev_i", s.prev_i.iv), ("null", s.null.iv),
                      ("null_val", s.null_val), ("max_defi", s.max_defi.iv), ("rows_in_page", ROWS(s.N))):
            out[nm] = mv(m, t)
        if c is not None:
            for nm, t in (("c", c), ("rep[c]", REP(c)), ("def[c]", DEF(c)), ("def[c-1]", DEF(c - 1)), ("values_before_c", CNT(c)),
                          ("rows_before_c", ROWS(c)), ("len_part", z3.Int("PART_len_it")), ("i", z3.Int("i_it")),
                          ("k_skolem_row", s.kS), ("j_skolem_elem", s.jS)):
                out[nm] = mv(m, t)
        return out

    def pose(name, kind, p, goal, detail, extra=()):
        return post(res, name, list(p.pc) + list(p.axioms) + list(extra), goal, timeout, detail, mf, kind=kind)

    def hook(eng, st, p):
        it = st.iter
        if not (isinstance(it, ast.Call) and isinstance(it.func, ast.Name) and it.func.id == "range" and len(it.args) == 1
                and isinstance(st.target, ast.Name)):
            raise Unsupported("the level loop is not `for <name> in range(<n>)`")
        hi = eng.as_int(eng.ev1(it.args[0], p), p)
        pose("assemble.loop_runs_over_all_levels" + tag, "functional", p, hi == s.N, "the loop visits every (rep, def) entry of the page: range(len(rep))")
        tname = st.target.id
        # ---- INV(0) from the real prologue (S_0 = the rows at entry)
        st0 = State(eng, p)
        parts0 = inv_parts(s, st0, s.A0, z3.IntVal(0), s.kS, s.jS)
        pose("assemble.invariant_on_entry" + tag, "functional", p, z3.And(*parts0.values(), z3.BoolVal(not st0.part_stored)),
             "INV(0): vali == 0, not started, i == prev_i, part == [] and not aliased, assign untouched")
        # ---- one arbitrary iteration
        q = p.fork()
        q.ghost["phase"] = "loop"
        c = z3.Int("c_iter")
        state["c"] = c
        S = arbitrary_state(eng, q, s, st, "_it", skip=(tname,))
        q.env[tname] = _int_ci(c, 0, 2 ** 31 - 1)
        stq = State(eng, q)
        hyp = inv_parts(s, stq, S, c, s.kS, s.jS)
        q.pc += [0 <= c, c < s.N] + s.level_facts(c) + s.level_facts(c - 1) + list(hyp.values())
        q.pc += s.row_facts(stq.rows, [s.kS, stq.i, stq.i - 1]) + s.row_facts(s.A0, [s.kS])
        r = solve(q.pc, timeout)
        res.addk("assemble.step.hypotheses_satisfiable" + tag, "functional", PROVED if r[0] == REFUTED else UNKNOWN, None, r[2], "z3",
                 "vacuity guard: precondition and INV(c) and 0 <= c < N have a model")
        q0_pc = list(q.pc)
        outs = eng.block(st.body, [q])
        S1 = spec_step(s, S, c)
        cases = []
        for cname, cc in step_cases(s, c):
            if solve(list(q0_pc) + [cc], 5000)[0] == PROVED:
                res.addk(f"assemble.step[{cname}].excluded_by_precondition{tag}", "functional", PROVED, None, 0.0, "z3",
                         "this case of the specification cannot occur under the precondition of this configuration")
            else:
                cases.append((cname, cc))
        seen = {nm: False for nm, _ in cases}
        for b in outs:
            if b.ctl not in (None, "continue"):
                res.addk("assemble.step.no_abrupt_exit" + tag, "functional", REFUTED, {"ctl": str(b.ctl)}, 0.0, "trace",
                         "an entry of a well-formed page must not end the loop / raise")
                continue
            try:
                stb = State(eng, b)
            except Unsupported as ex:
                res.addk("assemble.step.out_of_reach" + tag, "functional", UNKNOWN, None, 0.0, "engine", str(ex))
                continue
            goal = inv_parts(s, stb, S1, c + 1, s.kS, s.jS)
            extra = s.level_facts(c + 1) + s.row_facts(stb.rows, [s.kS])
            for cname, cc in cases:
                if solve(list(b.pc) + [cc], 2000)[0] == PROVED:
                    continue                     # this spec case does not occur on this path
                seen[cname] = True
                for g, members in GROUPS.items():
                    pose(f"assemble.step[{cname}].{g}{tag}", "functional", b, z3.And(*[goal[m] for m in members]), DETAIL[g], extra + [cc])
            pose("assemble.step.part_not_aliased" + tag, "functional", b, z3.BoolVal(not stb.part_stored),
                 "after the iteration `part` is not one of the lists stored in assign (I8)")
            tv = b.env.get(tname)
            pose("assemble.step.loop_counter_not_modified" + tag, "functional", b, eng.as_int(tv, b) == c if tv is not None else z3.BoolVal(False),
                 "the body does not assign the loop counter")
        for cname, ok in seen.items():
            if not ok:
                res.addk(f"assemble.step[{cname}].reachable{tag}", "functional", UNKNOWN, None, 0.0, "engine",
                         "no feasible path of the body for this case of the specification (vacuous)")
        state["n_body"] = len(outs)
        # ---- exit: arbitrary state under INV(N)
        ex = p.fork()
        ex.ghost["phase"] = "exit"
        SX = arbitrary_state(eng, ex, s, st, "_x", skip=(tname,))
        ex.env[tname] = _int_ci(z3.Int("counter_x"), -2 ** 31, 2 ** 31 - 1)
        stx = State(eng, ex)
        ex.pc += list(inv_parts(s, stx, SX, s.N, s.kS, s.jS).values()) + s.level_facts(s.N) + s.level_facts(s.N - 1)
        ex.pc += s.row_facts(stx.rows, [s.kS, stx.i, stx.i - 1]) + s.row_facts(s.A0, [s.kS])
        ex.ghost["SX"] = SX
        return [ex]

    def e_list(node, p):
        if not node.elts:
            return [(p, new_list(eng, p))]
        return orig_list(node, p)

    eng = cy.engine(loops={(FN, 0): LoopSpec("hook", inv=hook)})
    orig_list = eng.e_List
    eng.e_List = e_list
    p = Path()
    p.ghost.update(A=s.A0, Aver=0, L={}, phase="entry", writes=[])
    p.pc += s.pre()
    r = solve(p.pc, timeout)
    res.addk("assemble.precondition_satisfiable" + tag, "functional", PROVED if r[0] == REFUTED else UNKNOWN, None, r[2], "z3",
             "vacuity guard: the stated precondition has a model")
    dic_none = z3.Bool("dic_is_None")
    p.pc += [z3.Implies(s.D, z3.And(z3.Not(dic_none), z3.Bool("every_val_index_inside_dic")))]
    args = [Custom(AssignArr(s)), Custom(LevelArr(DEF, s.N, "defi")) if cfg["defi"] else NONE, Custom(LevelArr(REP, s.N, "rep")),
            Custom(ValArr(s, False)), Custom(DicArr(s, dic_none)), PyB(s.D), s.null, PyB(s.null_val), s.max_defi, s.prev_i]
    try:
        outs = eng.run(FN, p, args)
    except Unsupported as ex:
        res.take_engine(eng, "", timeout, mf)
        res.addk(f"{FN}.out_of_reach{tag}", "functional", UNKNOWN, None, 0.0, "engine", str(ex))
        return res
    for ob in eng.oblig:
        ob.name = "x." + ob.name + tag
    res.take_engine(eng, "", timeout, mf)
    n_ret = 0
    for q in outs:
        if q.ctl[0] != "ret" or "SX" not in q.ghost:
            if q.ctl[0] == "raise":
                res.addk("assemble.exit.no_exception" + tag, "functional", REFUTED, {"raise": q.ctl[1]}, 0.0, "trace", "a well-formed page must not raise")
            continue
        n_ret += 1
        SX = q.ghost["SX"]
        final = q.ghost["A"]
        rv = q.ctl[1]
        try:
            ret = eng.as_int(rv, q)
        except Unsupported:
            ret = None
        for cname, cc in exit_cases(s):
            if solve(list(q.pc) + [cc], 2000)[0] == PROVED:
                continue
            pose(f"assemble.exit[{cname}].rows_match_spec{tag}", "functional", q,
                 z3.Implies(z3.And(0 <= s.kS, s.kS < s.A), row_eq(final, SX, s.kS, s.jS)),
                 "on return every row of assign equals the record assembly of the page over the rows at entry (whole array, Skolem row / element)", [cc])
            pose(f"assemble.exit[{cname}].frame{tag}", "functional", q,
                 z3.Implies(z3.And(0 <= s.kS, s.kS < s.A, z3.Or(s.kS < s.prev_i.iv - 1, s.kS >= s.prev_i.iv + ROWS(s.N))), row_eq(final, s.A0, s.kS, s.jS)),
                 "rows outside [prev_i - 1, prev_i + rows started in the page) are untouched", [cc])
            pose(f"assemble.exit[{cname}].returns_index_of_last_row_started{tag}", "functional", q,
                 ret == s.prev_i.iv + ROWS(s.N) - 1 if ret is not None else z3.BoolVal(False),
                 "result == (rows started so far, this page included) - 1, so that the caller's 1 + result is the prev_i of the next page", [cc])
    if n_ret == 0:
        res.addk("assemble.exit.rows_match_spec" + tag, "functional", UNKNOWN, None, 0.0, "engine", "no returning path")
    return res


CFGS = [{"defi": True, "dict": False}, {"defi": True, "dict": True}, {"defi": False, "dict": False}, {"defi": False, "dict": True}]


def parts():
    """(label, fn(timeout) -> KResults) for every independent piece (run in a process pool by props/_assembly.py)"""
    out = [("assemble" + str(i), (lambda t, cfg=cfg: check_assemble(cfg, t))) for i, cfg in enumerate(CFGS)]
    return out
