"""C15 / C12 - record assembly of LIST / MAP columns under contract, from the real source on every run.

Part 1  cencoding._assemble_objects (Cython, via vc.front_cy)                                   -> check_assemble(cfg, timeout)
Part 2  schema.SchemaHelper.max_repetition_level / max_definition_level, _is_list_like, _is_map_like -> check_schema(timeout)
Part 3  core.read_col / read_data_page_v2 call sites of the kernel, read_row_group_arrays map zipping -> check_core(timeout)

=== Part 1: the specification (written from the Parquet format's definition / repetition levels, Dremel record assembly) ===
A page of a leaf with ONE repeated ancestor is a stream of N entries (rep[c], def[c]) and a value stream of NV values. With
   null      = 1 iff the outer LIST / MAP group is OPTIONAL              (definition level 0 then means: the row is null)
   max_defi  = the leaf's maximum definition level, null + 1 (REQUIRED leaf) or null + 2 (OPTIONAL leaf); Part 2 proves that
               schema.max_definition_level computes null + 1 + null_val for the 3-level layouts.  The parameter `null_val` is redundant
               given max_defi (and the code never reads it): it is not part of the contract.
record assembly is the left fold of SPEC STEP over the entries, started from the rows assembled so far (R = rows started so far):
   rep == 0   starts row R (R += 1): the row is None when null and def == 0, otherwise a new list
   rep == 1   continues row R - 1 (the row opened last - possibly on an earlier page)
   def == max_defi                      the next value of the value stream is appended (through the dictionary when d)
   null < def < max_defi                the entry exists but its leaf is null: None is appended
   def == null                          the collection exists and is empty: nothing is appended
The function's contract for one page:  final rows of `assign` == fold(SPEC STEP) of the page over the rows at entry (whole array,
posed at a Skolem row / element index: a lost, duplicated, reordered or trailing element fails), result == R_final - 1 (the caller
adds 1: the docstring's `prev_i` = 1 + index of the last row started).

How it is proved: the `for counter in range(rep.shape[0])` loop is a hook that runs ONE ARBITRARY iteration c: every local the body
assigns (i, vali, started, have_null, part, de, re, the contents of assign) is havoc'd, constrained only by the COUPLING INVARIANT
INV(c) between the code state and an arbitrary spec state S_c:
   I1  vali == CNT(c)             (CNT(c) = number of entries before c with def == max_defi)
   I2  started <=> ROWS(c) > 0    (ROWS(c) = number of entries before c with rep == 0)
   I3  i == prev_i + max(ROWS(c) - 1, 0)
   I4  have_null <=> c > 0 and def[c-1] == 0 and null
   I9  not started => len(part) == c      (every continuation entry of a well-formed page appends exactly one element)
   I5  every row k other than the open row o (o = i if started else i - 1): assign[k] == S_c[k]
   I6  the open row: started: S_c[o] == (None if have_null else part);  not started: S_c[o] == assign[o] ++ part
   I7  not started and (c > 0 or rep[0] == 1)  =>  prev_i >= 1 and assign[prev_i - 1] is a list (the row continued from the previous page)
   I10 rows outside [prev_i - 1, prev_i + ROWS(c)) are the rows at entry (frame)
   I8  `part` is not an alias of a stored row (tracked per list object: a store of an already stored list / a mutation of a stored
       list is an obligation of its own)
INV(0) is proved on entry from the real prologue, INV(c) and body => INV(c+1) with S_{c+1} = SPEC STEP(S_c, entry c) on every path of
the real body, and from an arbitrary state under INV(N) the real epilogue must leave assign == S_N and return R_N - 1.
All formulas are quantifier-free: universals of the invariant are instantiated at the goal's Skolem indices only.

Precondition (derived from the call site core.read_col; stated in PRE_TEXT, satisfiability checked): see PRE_TEXT.
"""
import ast
import time

import z3

from vc import backends
from vc.symexec import (Engine, Path, CI, PyI, PyB, NONE, NoneV, Opaque, Custom, Str, Tup, Opt, LoopSpec, Unsupported)
from vlib.common import PROVED, REFUTED, UNKNOWN
from . import cy
from .kernels import KResults, post, mv
from .util import solve, Results

FN = "_assemble_objects"

PRE_TEXT = [
    "len(defi) == len(rep) == N, 1 <= N < 2**31 (defi is None <=> every definition level == max_defi: core.read_def drops the array when the page has no nulls)",
    "0 <= def[c] <= max_defi and rep[c] in {0, 1} for every entry (levels of a well-formed page; max_repetition_level == 1 for the LIST / MAP layouts)",
    "null in {0, 1}, null + 1 <= max_defi <= null + 2 (schema: outer group OPTIONAL iff null, REPEATED middle group, leaf REQUIRED / OPTIONAL - Part 2)",
    "well-formed levels: rep[c] == 1 => def[c] > null and (c > 0 => def[c-1] > null)   (only a non-empty collection is continued)",
    "len(val) == number of entries with def == max_defi (core.read_data_page: nval = num_values - num_nulls)",
    "d => dic is an array and every val[j] is in [0, len(dic))",
    "0 <= prev_i, prev_i + (number of entries with rep == 0) <= len(assign) < 2**31  (assign holds the rows of the row group)",
    "rep[0] == 1 => prev_i >= 1 and assign[prev_i - 1] is a list (a page may start with the continuation of the previous page's last row; "
    "the first page of a chunk - prev_i == 0 - starts with rep == 0)",
    "the non-None entries of assign are pairwise distinct list objects referenced from nowhere else (they were created by `[]` in earlier calls)",
]

ASSUMED = [
    "prefix counts are monotone and bounded by the prefix length: CNT(a) <= CNT(b), ROWS(a) <= ROWS(b) for a <= b, CNT(a) <= a, ROWS(a) <= a "
    "(arithmetic facts about counting, used at the instances (0,c), (c,N), (c+1,N))",
    "CPython list semantics: `[]` creates a fresh list, list.append adds one element at the end, list.extend(x) appends the elements of x in order; "
    "`a[k] = v` on an object[:] memoryview stores a reference (boundscheck=False, wraparound=False: the index is used raw)",
    "numpy: `dic[val]` is the element-wise dereference (IndexError outside the dictionary), `val[j]` the j-th element",
    "the lifting from one page to a chunk (the fold over the concatenated pages, given that the caller hands R_final to the next page - Part 3) "
    "and from the two leaves of a MAP to its dict rows (Part 3, zip) is argued, not mechanised",
]

I = z3.IntSort()
B = z3.BoolSort()
DEF = z3.Function("DEF", I, I)
REP = z3.Function("REP", I, I)
CNT = z3.Function("CNT_def_eq_max_before", I, I)
ROWS = z3.Function("ROWS_started_before", I, I)


class Rows:
    """rows of an object array by value: none(k) Bool, ln(k) Int, elt(k, j) Int (element code: -1 None, 2v raw value v of the page's
    value stream, 2v+1 dictionary entry of value v)"""

    def __init__(self, none, ln, elt):
        self.none, self.ln, self.elt = none, ln, elt

    @staticmethod
    def sym(name):
        n_, l_, e_ = z3.Function(name + "_isnone", I, B), z3.Function(name + "_len", I, I), z3.Function(name + "_elt", I, I, I)
        return Rows(lambda k: n_(k), lambda k: l_(k), lambda k, j: e_(k, j))

    def store(self, t, isnone, n, elt):
        o = self
        return Rows(lambda k: z3.If(k == t, isnone, o.none(k)),
                    lambda k: z3.If(k == t, n, o.ln(k)),
                    lambda k, j: z3.If(k == t, elt(j), o.elt(k, j)))


def row_eq(a, b, k, j):
    """row k of a == row k of b (posed at element index j)"""
    return z3.And(a.none(k) == b.none(k),
                  z3.Implies(z3.Not(a.none(k)), z3.And(a.ln(k) == b.ln(k), z3.Implies(z3.And(0 <= j, j < a.ln(k)), a.elt(k, j) == b.elt(k, j)))))


class Sym:
    """the symbolic inputs of one call"""

    def __init__(self, cfg):
        self.cfg = cfg
        self.N, self.NV, self.A, self.ND = z3.Int("n_levels"), z3.Int("n_values"), z3.Int("len_assign"), z3.Int("len_dic")
        self.prev_i = cy.arg("prev_i", "int32_t")
        self.null = cy.arg("null", "char")
        self.max_defi = cy.arg("max_defi", "int32_t")
        self.null_val = z3.Bool("null_val")
        self.D = z3.BoolVal(bool(cfg["dict"]))
        self.A0 = Rows.sym("ASSIGN_at_entry")
        self.kS, self.jS = z3.Int("k_skolem_row"), z3.Int("j_skolem_elem")

    def pre(self):
        s = self
        return [s.prev_i.range_constraint(), s.null.range_constraint(), s.max_defi.range_constraint(),
                s.N >= 1, s.N < 2 ** 31, s.NV >= 0, s.A >= 0, s.A < 2 ** 31, s.ND >= 0,
                z3.Or(s.null.iv == 0, s.null.iv == 1), s.max_defi.iv >= s.null.iv + 1, s.max_defi.iv <= s.null.iv + 2,
                s.prev_i.iv >= 0, s.prev_i.iv + ROWS(s.N) <= s.A, CNT(s.N) == s.NV,
                CNT(0) == 0, ROWS(0) == 0, ROWS(s.N) >= 0, ROWS(s.N) <= s.N, CNT(s.N) <= s.N,
                z3.Implies(REP(0) == 1, z3.And(s.prev_i.iv >= 1, z3.Not(s.A0.none(s.prev_i.iv - 1))))] + self.level_facts(z3.IntVal(0))

    def level_facts(self, k):
        """instances at entry k of the universally quantified parts of the precondition and of the definitions of CNT / ROWS"""
        s = self
        f = [z3.Implies(z3.And(0 <= k, k < s.N), z3.And(
            DEF(k) >= 0, DEF(k) <= s.max_defi.iv, z3.Or(REP(k) == 0, REP(k) == 1),
            z3.Implies(REP(k) == 1, z3.And(DEF(k) > s.null.iv, z3.Implies(k > 0, DEF(k - 1) > s.null.iv))),
            CNT(k + 1) == CNT(k) + z3.If(DEF(k) == s.max_defi.iv, 1, 0),
            ROWS(k + 1) == ROWS(k) + z3.If(REP(k) == 0, 1, 0),
            CNT(k) >= 0, ROWS(k) >= 0, CNT(k + 1) <= CNT(s.N), ROWS(k + 1) <= ROWS(s.N), CNT(k) <= CNT(s.N), ROWS(k) <= ROWS(s.N),
            CNT(k) <= k, ROWS(k) <= k)),
             z3.Implies(z3.And(1 <= k, k <= s.N), z3.And(DEF(k - 1) >= 0, DEF(k - 1) <= s.max_defi.iv))]
        if not s.cfg["defi"]:
            f.append(z3.Implies(z3.And(0 <= k, k < s.N), DEF(k) == s.max_defi.iv))
            f.append(z3.Implies(z3.And(1 <= k, k <= s.N), DEF(k - 1) == s.max_defi.iv))
        return f

    def row_facts(self, rows, ks):
        return [rows.ln(k) >= 0 for k in ks]


def spec_step(s, S, c):
    """SPEC STEP: the rows after entry c, given the rows S before it (see the module docstring)"""
    re, de = REP(c), DEF(c)
    R, V = s.prev_i.iv + ROWS(c), CNT(c)
    t = z3.If(re == 0, R, R - 1)
    base_none = z3.If(re == 0, z3.And(s.null.iv == 1, de == 0), S.none(t))
    base_len = z3.If(re == 0, z3.IntVal(0), S.ln(t))
    has_val = de == s.max_defi.iv
    has_null = z3.And(s.null.iv < de, de < s.max_defi.iv)
    code = z3.If(has_val, 2 * V + z3.If(s.D, 1, 0), z3.IntVal(-1))
    grows = z3.And(z3.Not(base_none), z3.Or(has_val, has_null))
    new_len = z3.If(grows, base_len + 1, base_len)

    def elt(j):
        return z3.If(z3.And(grows, j == base_len), code, z3.If(re == 0, z3.IntVal(-7), S.elt(t, j)))
    return S.store(t, base_none, new_len, elt)


# ---- proof-script objects -----------------------------------------------------------------------------------------
class Elem:
    def __init__(self, code):
        self.code = code

    def is_none(self, eng, p):
        return z3.BoolVal(False)


def elem_code(v):
    if isinstance(v, NoneV):
        return z3.IntVal(-1)
    if isinstance(v, Custom) and isinstance(v.h, Elem):
        return v.h.code
    raise Unsupported(f"list element of kind {type(v).__name__}")


class ListRef:
    """a Python list object; its state (len, elt, stored-in-assign flag) lives in p.ghost['L'][oid]"""
    tracked = False

    def __init__(self, oid):
        self.oid = oid

    def is_none(self, eng, p):
        return z3.BoolVal(False)

    def truth(self, eng, p):
        return p.ghost["L"][self.oid][0] > 0

    def len(self, eng, p):
        return PyI(p.ghost["L"][self.oid][0])

    def call_method(self, eng, p, name, args, kw, node):
        n, elt, stored = p.ghost["L"][self.oid]
        if stored:
            eng.oblige(p, "assemble.stored_row_not_mutated", "inv", z3.BoolVal(False), node,
                       "a list that was already stored into assign is mutated through another reference")
        if name == "append" and len(args) == 1:
            code = elem_code(args[0])
            p.ghost["L"][self.oid] = (n + 1, lambda j, n=n, elt=elt, code=code: z3.If(j == n, code, elt(j)), stored)
            return [(p, NONE)]
        if name == "extend" and len(args) == 1 and isinstance(args[0], Custom) and isinstance(args[0].h, ListRef):
            m, elt2, _ = p.ghost["L"][args[0].h.oid]
            p.ghost["L"][self.oid] = (n + m, lambda j, n=n, elt=elt, elt2=elt2: z3.If(j < n, elt(j), elt2(j - n)), stored)
            return [(p, NONE)]
        if name == "extend" and len(args) == 1 and isinstance(args[0], Custom) and isinstance(args[0].h, RowRef):
            r = args[0].h
            rows = r._rows(p)
            eng.oblige(p, f"assemble.extend_source_is_a_list[{p.ghost['phase']}]", "post", z3.Not(rows.none(r.idx)), node,
                       "list.extend(assign[k]): the row must be a list (extending with None raises TypeError)")
            p.pc.append(z3.Not(rows.none(r.idx)))
            m, k = rows.ln(r.idx), r.idx
            p.ghost["L"][self.oid] = (n + m, lambda j, n=n, elt=elt, rows=rows, k=k: z3.If(j < n, elt(j), rows.elt(k, j - n)), stored)
            return [(p, NONE)]
        raise Unsupported("list." + name)


def new_list(eng, p, n=None, elt=None):
    oid = f"list!{next(eng.counter)}"
    p.ghost.setdefault("L", {})
    p.ghost["L"][oid] = (z3.IntVal(0) if n is None else n, (lambda j: z3.IntVal(-9)) if elt is None else elt, False)
    return Custom(ListRef(oid))


class RowRef:
    """the object loaded from assign[idx] (valid while assign is not stored to again)"""
    tracked = False

    def __init__(self, idx, ver, phase):
        self.idx, self.ver, self.phase = idx, ver, phase

    def _rows(self, p):
        if p.ghost["Aver"] != self.ver:
            raise Unsupported("object loaded from assign used after a later store into assign")
        return p.ghost["A"]

    def is_none(self, eng, p):
        return self._rows(p).none(self.idx)

    def call_method(self, eng, p, name, args, kw, node):
        rows = self._rows(p)
        k = self.idx
        if name == "extend" and len(args) == 1 and isinstance(args[0], Custom) and isinstance(args[0].h, ListRef):
            eng.oblige(p, f"assemble.extend_target_is_a_list[{p.ghost['phase']}]", "post", z3.Not(rows.none(k)), node,
                       "assign[i-1].extend(...): the row continued from the previous page must be a list (None.extend raises AttributeError)")
            p.pc.append(z3.Not(rows.none(k)))
            m, elt2, _ = p.ghost["L"][args[0].h.oid]
            la, old = rows.ln(k), rows
            p.ghost["A"] = rows.store(k, z3.BoolVal(False), la + m, lambda j: z3.If(j < la, old.elt(k, j), elt2(j - la)))
            p.ghost["Aver"] = p.ghost["Aver"] + 1
            p.ghost["writes"] = p.ghost.get("writes", []) + [k]
            return [(p, NONE)]
        raise Unsupported("method ." + name + " of an element of assign")


class AssignArr:
    tracked = False

    def __init__(self, s):
        self.s = s

    def is_none(self, eng, p):
        return z3.BoolVal(False)

    def attr(self, eng, p, name):
        if name == "shape":
            return Tup([PyI(self.s.A)])
        raise Unsupported("assign." + name)

    def len(self, eng, p):
        return PyI(self.s.A)

    def getitem(self, eng, p, i, node=None):
        k = eng.as_int(i, p)
        eng.oblige(p, f"assemble.assign_load_in_range[{p.ghost['phase']}]", "safety", z3.And(k >= 0, k < self.s.A), node,
                   "assign[k] read inside the array (boundscheck=False, wraparound=False: raw index)")
        return Custom(RowRef(k, p.ghost["Aver"], p.ghost["phase"]))

    def setitem(self, eng, p, i, v, node=None):
        k = eng.as_int(i, p)
        eng.oblige(p, f"assemble.assign_store_in_range[{p.ghost['phase']}]", "safety", z3.And(k >= 0, k < self.s.A), node,
                   "assign[k] = ... written inside the array (boundscheck=False: a store beyond the rows of the row group corrupts memory)")
        rows = p.ghost["A"]
        if isinstance(v, NoneV):
            p.ghost["A"] = rows.store(k, z3.BoolVal(True), z3.IntVal(0), lambda j: z3.IntVal(-8))
        elif isinstance(v, Custom) and isinstance(v.h, ListRef):
            n, elt, stored = p.ghost["L"][v.h.oid]
            eng.oblige(p, "assemble.rows_are_distinct_objects", "inv", z3.BoolVal(not stored), node,
                       "a list object is stored into assign at most once (otherwise two rows alias one list)")
            p.ghost["L"][v.h.oid] = (n, elt, True)
            p.ghost["A"] = rows.store(k, z3.BoolVal(False), n, elt)
        else:
            raise Unsupported(f"assign[k] = <{type(v).__name__}>")
        p.ghost["Aver"] = p.ghost["Aver"] + 1
        p.ghost["writes"] = p.ghost.get("writes", []) + [k]
        return [p]


class LevelArr:
    """const uint8_t[:] memoryview of levels: element k is the uninterpreted LEVEL(k), 0..255"""
    tracked = False

    def __init__(self, fn, n, name):
        self.fn, self.n, self.name = fn, n, name

    def is_none(self, eng, p):
        return z3.BoolVal(False)

    def attr(self, eng, p, name):
        if name == "shape":
            return Tup([PyI(self.n)])
        raise Unsupported(self.name + "." + name)

    def len(self, eng, p):
        return PyI(self.n)

    def getitem(self, eng, p, i, node=None):
        k = eng.as_int(i, p)
        eng.oblige(p, f"assemble.{self.name}_index_in_range", "safety", z3.And(k >= 0, k < self.n), node,
                   f"{self.name}[counter] read inside the memoryview (boundscheck=False)")
        v = self.fn(k)
        p.pc.append(z3.And(v >= 0, v <= 255))
        return CI(z3.Int2BV(v, 8), 8, False, v, (0, 255))


class ValArr:
    tracked = False

    def __init__(self, s, deref):
        self.s, self.deref = s, deref

    def is_none(self, eng, p):
        return z3.BoolVal(False)

    def getitem(self, eng, p, i, node=None):
        k = eng.as_int(i, p)
        eng.oblige(p, "assemble.val_index_in_range", "safety", z3.And(k >= 0, k < self.s.NV), node,
                   "val[vali] inside the page's value array (numpy raises IndexError otherwise; a negative index would silently wrap)")
        return Custom(Elem(2 * k + (1 if self.deref else 0)))


class DicArr:
    tracked = False

    def __init__(self, s, isnone):
        self.s, self.isnone = s, isnone

    def is_none(self, eng, p):
        return self.isnone

    def getitem(self, eng, p, i, node=None):
        eng.oblige(p, "assemble.dictionary_present_when_dereferenced", "safety", z3.Not(self.isnone), node, "dic[val] with dic None raises TypeError")
        if isinstance(i, Custom) and isinstance(i.h, ValArr) and not i.h.deref:
            eng.oblige(p, "assemble.dictionary_indices_in_range", "safety", z3.Bool("every_val_index_inside_dic"), node,
                       "dic[val]: every index inside the dictionary (precondition on the page)")
            return Custom(ValArr(self.s, True))
        if isinstance(i, Custom) and isinstance(i.h, Elem):
            return Custom(Elem(i.h.code + 1))
        raise Unsupported("dic[<%s>]" % type(i).__name__)


# ---- code state / invariant ------------------------------------------------------------------------------------------
ROLES = ("i", "vali", "started", "have_null", "part")


class State:
    def __init__(self, eng, p):
        for r in ROLES:
            if r not in p.env:
                raise Unsupported(f"local `{r}` of {FN} not found (the invariant is stated over i, vali, started, have_null, part)")
        self.i = eng.as_int(p.env["i"], p)
        self.vali = eng.as_int(p.env["vali"], p)
        self.started = eng.truth(p.env["started"], p)
        self.have_null = eng.truth(p.env["have_null"], p)
        pt = p.env["part"]
        if not (isinstance(pt, Custom) and isinstance(pt.h, ListRef)):
            raise Unsupported("`part` is not a list object")
        self.lp, self.pelt, self.part_stored = p.ghost["L"][pt.h.oid]
        self.rows = p.ghost["A"]


def inv_parts(s, st, S, c, k, j):
    """INV(c) between code state st and spec rows S, universals instantiated at row k / element j -> dict part -> formula"""
    rc = ROWS(c)
    o = z3.If(st.started, st.i, st.i - 1)
    in_arr = z3.And(0 <= k, k < s.A)
    cursors = z3.And(st.vali == CNT(c), st.started == (rc > 0), st.i == s.prev_i.iv + z3.If(rc > 0, rc - 1, 0),
                     st.have_null == z3.And(c > 0, DEF(c - 1) == 0, s.null.iv == 1), st.lp >= 0, z3.Implies(z3.Not(st.started), st.lp == c))
    closed = z3.Implies(z3.And(in_arr, k != o), row_eq(st.rows, S, k, j))
    open_started = z3.And(S.none(o) == st.have_null,
                          z3.Implies(z3.Not(st.have_null), z3.And(S.ln(o) == st.lp, z3.Implies(z3.And(0 <= j, j < st.lp), S.elt(o, j) == st.pelt(j)))))
    la = st.rows.ln(o)
    open_prev = z3.And(z3.Implies(st.lp > 0, o >= 0),
                       z3.Implies(z3.And(0 <= o, o < s.A),
                                  z3.If(st.lp == 0, row_eq(st.rows, S, o, j),
                                        z3.And(z3.Not(st.rows.none(o)), z3.Not(S.none(o)), S.ln(o) == la + st.lp,
                                               z3.Implies(z3.And(0 <= j, j < la + st.lp),
                                                          S.elt(o, j) == z3.If(j < la, st.rows.elt(o, j), st.pelt(j - la)))))))
    open_row = z3.If(st.started, open_started, open_prev)
    prev_open = z3.Implies(z3.And(z3.Not(st.started), z3.Or(c > 0, REP(0) == 1)), z3.And(s.prev_i.iv >= 1, z3.Not(st.rows.none(s.prev_i.iv - 1))))
    frame = z3.Implies(z3.And(in_arr, z3.Or(k < s.prev_i.iv - 1, k >= s.prev_i.iv + rc)), row_eq(st.rows, s.A0, k, j))
    return {"cursors": cursors, "closed_rows": closed, "open_row": open_row, "continued_row_is_a_list": prev_open, "frame": frame}


GROUPS = {"cursors": ("cursors",), "rows_match_spec": ("closed_rows", "open_row"), "continued_row_is_a_list": ("continued_row_is_a_list",),
          "frame": ("frame",)}
DETAIL = {
    "cursors": "vali == number of values consumed, started <=> a row was started in this page, i == prev_i + max(rows started - 1, 0), "
               "have_null <=> the previous entry said `row is null`",
    "rows_match_spec": "after the iteration every closed row of assign and the open row (None / part, or assign[prev_i-1] ++ part) equal "
                       "SPEC STEP applied to the rows before it (Dremel record assembly of entry c)",
    "continued_row_is_a_list": "while no row was started in this page the row continued from the previous page exists and is a list",
    "frame": "rows outside [prev_i - 1, prev_i + rows started) are untouched",
}


def step_cases(s, c):
    """case split of an iteration by the SPEC (not by code path)"""
    rc = ROWS(c)
    return [
        ("rep=0,row_open_in_page", z3.And(REP(c) == 0, rc > 0)),
        ("rep=0,first_row_of_page,first_entry", z3.And(REP(c) == 0, rc == 0, c == 0)),
        ("rep=0,first_row_of_page,after_continuation_with_values", z3.And(REP(c) == 0, rc == 0, c > 0, CNT(c) > 0)),
        ("rep=0,first_row_of_page,after_continuation_of_nulls_only", z3.And(REP(c) == 0, rc == 0, c > 0, CNT(c) == 0)),
        ("rep=1,row_open_in_page", z3.And(REP(c) == 1, rc > 0)),
        ("rep=1,row_from_previous_page", z3.And(REP(c) == 1, rc == 0)),
    ]


def exit_cases(s):
    return [("row_started_in_page", ROWS(s.N) > 0), ("continuation_only_page", ROWS(s.N) == 0)]


def assigned_names(stmts):
    names = set()
    for n in ast.walk(ast.Module(body=list(stmts), type_ignores=[])):
        if isinstance(n, (ast.Assign, ast.AugAssign, ast.AnnAssign, ast.For)):
            tg = n.targets if isinstance(n, ast.Assign) else [n.target]
            for t in tg:
                for m in ast.walk(t):
                    if isinstance(m, ast.Name) and isinstance(m.ctx, ast.Store):
                        names.add(m.id)
    return names


def _bool_ci(b, bits=8):
    return CI(z3.If(b, z3.BitVecVal(1, bits), z3.BitVecVal(0, bits)), bits, True, z3.If(b, 1, 0), (0, 1))


def _int_ci(x, lo, hi, bits=32):
    return CI(z3.Int2BV(x, bits), bits, True, x, (lo, hi))


def arbitrary_state(eng, q, s, st_node, sfx, skip=()):
    """havoc every local the loop assigns; -> spec rows symbol.  Roles get named symbols, other locals are havoc'd by kind."""
    names = assigned_names(st_node.body) | assigned_names([st_node])
    iv, vv = z3.Int("i" + sfx), z3.Int("vali" + sfx)
    q.env["i"] = _int_ci(iv, -2 ** 31, 2 ** 31 - 1)
    q.env["vali"] = _int_ci(vv, -2 ** 31, 2 ** 31 - 1)
    q.pc += [iv >= -2 ** 31, iv < 2 ** 31, vv >= -2 ** 31, vv < 2 ** 31]
    q.env["started"] = _bool_ci(z3.Bool("started" + sfx))
    q.env["have_null"] = _bool_ci(z3.Bool("have_null" + sfx))
    pe = z3.Function("PART_elt" + sfx, I, I)
    q.env["part"] = new_list(eng, q, z3.Int("PART_len" + sfx), lambda j: pe(j))
    q.ghost["A"] = Rows.sym("ASSIGN" + sfx)
    q.ghost["Aver"] = q.ghost["Aver"] + 1
    q.ghost["writes"] = []
    for nm in sorted(names):
        if nm in ROLES or nm in skip or nm not in q.env:
            continue
        v = q.env[nm]
        if isinstance(v, NoneV):
            continue
        if isinstance(v, (CI, PyI, PyB, Opaque)):
            q.env[nm] = eng.havoc_like(v, nm + "_havoc", q)
        else:
            raise Unsupported(f"the loop assigns local `{nm}` holding a {type(v).__name__}: no havoc rule")
    return Rows.sym("SPEC" + sfx)


def check_assemble(cfg, timeout):
    """cfg = {'defi': bool (definition levels given / None), 'dict': bool (d)}"""
    res = KResults()
    tag = "[" + ("defi" if cfg["defi"] else "defi=None") + "," + ("dict" if cfg["dict"] else "plain") + "]"
    s = Sym(cfg)
    state = {}

    def mf(m):
        out = {"cfg": tag}
        c = state.get("c")
        for nm, t in (("n_levels", s.N), ("n_values", s.NV), ("len_assign", s.A), ("prev_i", s.prev_i.iv), ("null", s.null.iv),
                      ("null_val", s.null_val), ("max_defi", s.max_defi.iv), ("rows_in_page", ROWS(s.N))):
            out[nm] = mv(m, t)
        if c is not None:
            for nm, t in (("c", c), ("rep[c]", REP(c)), ("def[c]", DEF(c)), ("def[c-1]", DEF(c - 1)), ("values_before_c", CNT(c)),
                          ("rows_before_c", ROWS(c)), ("len_part", z3.Int("PART_len_it")), ("i", z3.Int("i_it")),
                          ("k_skolem_row", s.kS), ("j_skolem_elem", s.jS)):
                out[nm] = mv(m, t)
        return out

    def pose(name, kind, p, goal, detail, extra=()):
        return post(res, name, list(p.pc) + list(p.axioms) + list(extra), goal, timeout, detail, mf, kind=kind)

    def hook(eng, st, p):
        it = st.iter
        if not (isinstance(it, ast.Call) and isinstance(it.func, ast.Name) and it.func.id == "range" and len(it.args) == 1
                and isinstance(st.target, ast.Name)):
            raise Unsupported("the level loop is not `for <name> in range(<n>)`")
        hi = eng.as_int(eng.ev1(it.args[0], p), p)
        pose("assemble.loop_runs_over_all_levels" + tag, "functional", p, hi == s.N, "the loop visits every (rep, def) entry of the page: range(len(rep))")
        tname = st.target.id
        # ---- INV(0) from the real prologue (S_0 = the rows at entry)
        st0 = State(eng, p)
        parts0 = inv_parts(s, st0, s.A0, z3.IntVal(0), s.kS, s.jS)
        pose("assemble.invariant_on_entry" + tag, "functional", p, z3.And(*parts0.values(), z3.BoolVal(not st0.part_stored)),
             "INV(0): vali == 0, not started, i == prev_i, part == [] and not aliased, assign untouched")
        # ---- one arbitrary iteration
        q = p.fork()
        q.ghost["phase"] = "loop"
        c = z3.Int("c_iter")
        state["c"] = c
        S = arbitrary_state(eng, q, s, st, "_it", skip=(tname,))
        q.env[tname] = _int_ci(c, 0, 2 ** 31 - 1)
        stq = State(eng, q)
        hyp = inv_parts(s, stq, S, c, s.kS, s.jS)
        q.pc += [0 <= c, c < s.N] + s.level_facts(c) + s.level_facts(c - 1) + list(hyp.values())
        q.pc += s.row_facts(stq.rows, [s.kS, stq.i, stq.i - 1]) + s.row_facts(s.A0, [s.kS])
        r = solve(q.pc, timeout)
        res.addk("assemble.step.hypotheses_satisfiable" + tag, "functional", PROVED if r[0] == REFUTED else UNKNOWN, None, r[2], "z3",
                 "vacuity guard: precondition and INV(c) and 0 <= c < N have a model")
        q0_pc = list(q.pc)
        outs = eng.block(st.body, [q])
        S1 = spec_step(s, S, c)
        cases = []
        for cname, cc in step_cases(s, c):
            if solve(list(q0_pc) + [cc], 5000)[0] == PROVED:
                res.addk(f"assemble.step[{cname}].excluded_by_precondition{tag}", "functional", PROVED, None, 0.0, "z3",
                         "this case of the specification cannot occur under the precondition of this configuration")
            else:
                cases.append((cname, cc))
        seen = {nm: False for nm, _ in cases}
        for b in outs:
            if b.ctl not in (None, "continue"):
                res.addk("assemble.step.no_abrupt_exit" + tag, "functional", REFUTED, {"ctl": str(b.ctl)}, 0.0, "trace",
                         "an entry of a well-formed page must not end the loop / raise")
                continue
            try:
                stb = State(eng, b)
            except Unsupported as ex:
                res.addk("assemble.step.out_of_reach" + tag, "functional", UNKNOWN, None, 0.0, "engine", str(ex))
                continue
            goal = inv_parts(s, stb, S1, c + 1, s.kS, s.jS)
            extra = s.level_facts(c + 1) + s.row_facts(stb.rows, [s.kS])
            for cname, cc in cases:
                if solve(list(b.pc) + [cc], 2000)[0] == PROVED:
                    continue                     # this spec case does not occur on this path
                seen[cname] = True
                for g, members in GROUPS.items():
                    pose(f"assemble.step[{cname}].{g}{tag}", "functional", b, z3.And(*[goal[m] for m in members]), DETAIL[g], extra + [cc])
            pose("assemble.step.part_not_aliased" + tag, "functional", b, z3.BoolVal(not stb.part_stored),
                 "after the iteration `part` is not one of the lists stored in assign (I8)")
            tv = b.env.get(tname)
            pose("assemble.step.loop_counter_not_modified" + tag, "functional", b, eng.as_int(tv, b) == c if tv is not None else z3.BoolVal(False),
                 "the body does not assign the loop counter")
        for cname, ok in seen.items():
            if not ok:
                res.addk(f"assemble.step[{cname}].reachable{tag}", "functional", UNKNOWN, None, 0.0, "engine",
                         "no feasible path of the body for this case of the specification (vacuous)")
        state["n_body"] = len(outs)
        # ---- exit: arbitrary state under INV(N)
        ex = p.fork()
        ex.ghost["phase"] = "exit"
        SX = arbitrary_state(eng, ex, s, st, "_x", skip=(tname,))
        ex.env[tname] = _int_ci(z3.Int("counter_x"), -2 ** 31, 2 ** 31 - 1)
        stx = State(eng, ex)
        ex.pc += list(inv_parts(s, stx, SX, s.N, s.kS, s.jS).values()) + s.level_facts(s.N) + s.level_facts(s.N - 1)
        ex.pc += s.row_facts(stx.rows, [s.kS, stx.i, stx.i - 1]) + s.row_facts(s.A0, [s.kS])
        ex.ghost["SX"] = SX
        return [ex]

    def e_list(node, p):
        if not node.elts:
            return [(p, new_list(eng, p))]
        return orig_list(node, p)

    eng = cy.engine(loops={(FN, 0): LoopSpec("hook", inv=hook)})
    orig_list = eng.e_List
    eng.e_List = e_list
    p = Path()
    p.ghost.update(A=s.A0, Aver=0, L={}, phase="entry", writes=[])
    p.pc += s.pre()
    r = solve(p.pc, timeout)
    res.addk("assemble.precondition_satisfiable" + tag, "functional", PROVED if r[0] == REFUTED else UNKNOWN, None, r[2], "z3",
             "vacuity guard: the stated precondition has a model")
    dic_none = z3.Bool("dic_is_None")
    p.pc += [z3.Implies(s.D, z3.And(z3.Not(dic_none), z3.Bool("every_val_index_inside_dic")))]
    args = [Custom(AssignArr(s)), Custom(LevelArr(DEF, s.N, "defi")) if cfg["defi"] else NONE, Custom(LevelArr(REP, s.N, "rep")),
            Custom(ValArr(s, False)), Custom(DicArr(s, dic_none)), PyB(s.D), s.null, PyB(s.null_val), s.max_defi, s.prev_i]
    try:
        outs = eng.run(FN, p, args)
    except Unsupported as ex:
        res.take_engine(eng, "", timeout, mf)
        res.addk(f"{FN}.out_of_reach{tag}", "functional", UNKNOWN, None, 0.0, "engine", str(ex))
        return res
    for ob in eng.oblig:
        ob.name = "x." + ob.name + tag
    res.take_engine(eng, "", timeout, mf)
    n_ret = 0
    for q in outs:
        if q.ctl[0] != "ret" or "SX" not in q.ghost:
            if q.ctl[0] == "raise":
                res.addk("assemble.exit.no_exception" + tag, "functional", REFUTED, {"raise": q.ctl[1]}, 0.0, "trace", "a well-formed page must not raise")
            continue
        n_ret += 1
        SX = q.ghost["SX"]
        final = q.ghost["A"]
        rv = q.ctl[1]
        try:
            ret = eng.as_int(rv, q)
        except Unsupported:
            ret = None
        for cname, cc in exit_cases(s):
            if solve(list(q.pc) + [cc], 2000)[0] == PROVED:
                continue
            pose(f"assemble.exit[{cname}].rows_match_spec{tag}", "functional", q,
                 z3.Implies(z3.And(0 <= s.kS, s.kS < s.A), row_eq(final, SX, s.kS, s.jS)),
                 "on return every row of assign equals the record assembly of the page over the rows at entry (whole array, Skolem row / element)", [cc])
            pose(f"assemble.exit[{cname}].frame{tag}", "functional", q,
                 z3.Implies(z3.And(0 <= s.kS, s.kS < s.A, z3.Or(s.kS < s.prev_i.iv - 1, s.kS >= s.prev_i.iv + ROWS(s.N))), row_eq(final, s.A0, s.kS, s.jS)),
                 "rows outside [prev_i - 1, prev_i + rows started in the page) are untouched", [cc])
            pose(f"assemble.exit[{cname}].returns_index_of_last_row_started{tag}", "functional", q,
                 ret == s.prev_i.iv + ROWS(s.N) - 1 if ret is not None else z3.BoolVal(False),
                 "result == (rows started so far, this page included) - 1, so that the caller's 1 + result is the prev_i of the next page", [cc])
    if n_ret == 0:
        res.addk("assemble.exit.rows_match_spec" + tag, "functional", UNKNOWN, None, 0.0, "engine", "no returning path")
    return res


CFGS = [{"defi": True, "dict": False}, {"defi": True, "dict": True}, {"defi": False, "dict": False}, {"defi": False, "dict": True}]


# =====================================================================================================================
# Part 2: schema.py - levels along an abstract schema path, LIST / MAP shape predicates
# =====================================================================================================================
"""The schema tree is abstract: nodes are integers, RT / CT / NCH give a node's repetition type, converted type (-1 = None) and number
of children, CHILD(n, k) its k-th child, CHILDNAMED(n, 1 | 2) its child called 'key' | 'value', KV(n) <=> the names of n's children
are exactly {'key', 'value'}.  The column's path_in_schema has symbolic length L; P(d) is the node reached by its first d names
(P(0) = root).  Path validity (what SchemaHelper.schema_element's dictionary walk needs not to raise KeyError): P(d+1) is a child of P(d),
so NCH(P(d)) >= 1 for d < L and, when P(d) has exactly one child, CHILD(P(d), 0) == P(d+1); the leaf P(L) has no children.
Specification (Parquet format, `Nested Encoding` and LogicalTypes.md `Lists` / `Maps`):
   max_rep(path) = NREP(L), NREP(0) = 0, NREP(d+1) = NREP(d) + [RT(P(d+1)) == REPEATED]      (number of REPEATED elements on the path)
   max_def(path) = NDEF(L), NDEF(0) = 0, NDEF(d+1) = NDEF(d) + [RT(P(d+1)) != REQUIRED]      (number of non-REQUIRED elements on the path)
   LIST layout:  L >= 3, the group P(L-2) is annotated LIST, is not REPEATED itself, has exactly one child, which is REPEATED and has exactly
                 one child (the leaf), which is not REPEATED
   MAP layout:   L >= 3, the group P(L-2) is annotated MAP, is not REPEATED, has exactly one child, REPEATED, with exactly the two children
                 'key' (REQUIRED) and 'value' (not REPEATED)
"""
NODE_RT = z3.Function("RT", I, I)
NODE_CT = z3.Function("CT", I, I)
NODE_NCH = z3.Function("NCH", I, I)
CHILD = z3.Function("CHILD", I, I, I)
CHILDNAMED = z3.Function("CHILD_NAMED", I, I, I)
KV = z3.Function("CHILD_NAMES_ARE_key_value", I, B)
PN = z3.Function("P", I, I)
NREP = z3.Function("NREP", I, I)
NDEF = z3.Function("NDEF", I, I)
PATH_LEN = z3.Int("len_path")


def enums_from_source():
    """FieldRepetitionType / ConvertedType values the code compares against: class attributes of parquet_thrift/parquet/ttypes.py"""
    import os
    from vlib.common import REPO
    src = open(os.path.join(REPO, "fastparquet", "parquet_thrift", "parquet", "ttypes.py")).read()
    out = {}
    for n in ast.parse(src).body:
        if isinstance(n, ast.ClassDef) and n.name in ("FieldRepetitionType", "ConvertedType", "PageType", "Encoding"):
            out[n.name] = {t.id: st.value.value for st in n.body if isinstance(st, ast.Assign) and isinstance(st.value, ast.Constant)
                           and isinstance(st.value.value, int) for t in st.targets if isinstance(t, ast.Name)}
    return out


class NS:
    tracked = False

    def __init__(self, d, name="namespace"):
        self.d, self.name = d, name

    def attr(self, eng, p, name):
        if name not in self.d:
            raise Unsupported(f"{self.name}.{name}")
        return self.d[name]

    def is_none(self, eng, p):
        return z3.BoolVal(False)


def thrift_ns(en):
    return Custom(NS({k: Custom(NS({n: PyI(v, lit=False) for n, v in vals.items()}, k)) for k, vals in en.items()}, "parquet_thrift"))


NAME_IS = z3.Function("NAME_IS", I, I, I, B)           # (which path, position, string id) -> path[position] == that string
STR_IDS = {}


def name_is(pid, idx, s_):
    return NAME_IS(pid, idx, STR_IDS.setdefault(s_, len(STR_IDS) + 1))


class PathV:
    """column.meta_data.path_in_schema: a list of L names"""
    tracked = False

    def __init__(self, pid=0):
        self.pid = pid

    def isinstance(self, eng, p, tn):
        return z3.BoolVal("list" in tn)

    def is_none(self, eng, p):
        return z3.BoolVal(False)

    def len(self, eng, p):
        return PyI(PATH_LEN)

    def slice(self, eng, p, lo, hi, node):
        if lo is not None:
            raise Unsupported("path[lo:...]")
        h = eng.as_int(hi, p) if hi is not None else PATH_LEN
        d = z3.If(h < 0, z3.If(PATH_LEN + h > 0, PATH_LEN + h, 0), z3.If(h > PATH_LEN, PATH_LEN, h))
        return Custom(Prefix(z3.simplify(d)))

    def getitem(self, eng, p, i, node=None):
        k = eng.as_int(i, p)
        return Custom(NameAt(z3.simplify(z3.If(k < 0, PATH_LEN + k, k)), self.pid))


class Prefix:
    tracked = False

    def __init__(self, d):
        self.d = d

    def isinstance(self, eng, p, tn):
        return z3.BoolVal("list" in tn)


class NameAt:
    """the name path[idx] (a str)"""
    tracked = False

    def __init__(self, idx, pid=0):
        self.idx, self.pid = idx, pid

    def isinstance(self, eng, p, tn):
        return z3.BoolVal("str" in tn)

    def call_method(self, eng, p, name, args, kw, node):
        if name == "split" and len(args) == 1 and isinstance(args[0], Str) and args[0].s == ".":
            return [(p, Tup([Custom(self)], True))]          # ASSUMED: the name contains no '.'
        raise Unsupported("str." + name)

    def eq(self, eng, p, other):
        if isinstance(other, Str):
            return name_is(self.pid, self.idx, other.s)
        raise Unsupported("name == <%s>" % type(other).__name__)


class PList:
    """a python list built by append (is_required builds the path prefix this way)"""
    tracked = False

    def __init__(self, oid):
        self.oid = oid

    def call_method(self, eng, p, name, args, kw, node):
        if name == "append":
            p.ghost["PL"][self.oid] = p.ghost["PL"][self.oid] + [args[0]]
            return [(p, NONE)]
        raise Unsupported("list." + name)


class Helper:
    tracked = False

    def call_method(self, eng, p, name, args, kw, node):
        if name == "schema_element":
            x = args[0]
            if isinstance(x, Custom) and isinstance(x.h, Prefix):
                d = x.h.d
            elif isinstance(x, Custom) and isinstance(x.h, PathV):
                d = PATH_LEN
            elif isinstance(x, Custom) and isinstance(x.h, PList):
                items = p.ghost["PL"][x.h.oid]
                ok = all(isinstance(it, Custom) and isinstance(it.h, NameAt) and z3.is_true(z3.simplify(it.h.idx == k)) for k, it in enumerate(items))
                if not ok:
                    raise Unsupported("schema_element of a list that is not a prefix of the path")
                d = z3.IntVal(len(items))
            else:
                raise Unsupported("schema_element(<%s>)" % type(x).__name__)
            eng.oblige(p, f"{eng.cur_func}.schema_element_of_a_path_prefix", "safety", z3.And(d >= 0, d <= PATH_LEN), node,
                       "schema_element is asked for a prefix of the column's path (anything else raises KeyError)")
            return [(p, Custom(SE(PN(d))))]
        if name in ("max_definition_level", "max_repetition_level", "is_required"):
            raise Unsupported("nested helper call " + name)
        raise Unsupported("SchemaHelper." + name)


class SE:
    """a schema element (node of the abstract tree)"""
    tracked = False

    def __init__(self, node):
        self.node = node

    def is_none(self, eng, p):
        return z3.BoolVal(False)

    def attr(self, eng, p, name):
        if name == "repetition_type":
            return PyI(NODE_RT(self.node))
        if name == "converted_type":
            return PyI(NODE_CT(self.node))
        raise Unsupported("SchemaElement." + name)

    def getitem(self, eng, p, i, node=None):
        if isinstance(i, Str) and i.s == "children":
            return Custom(Children(self.node))
        raise Unsupported("SchemaElement[...]")


class Children:
    tracked = False

    def __init__(self, node):
        self.node = node

    def len(self, eng, p):
        return PyI(NODE_NCH(self.node))

    def call_method(self, eng, p, name, args, kw, node):
        if name == "values" and not args:
            return [(p, Custom(ChildVals(self.node)))]
        raise Unsupported("dict." + name)

    def getitem(self, eng, p, i, node=None):
        if isinstance(i, Str) and i.s in ("key", "value"):
            eng.oblige(p, f"{eng.cur_func}.child_name_exists[{i.s}]", "safety", KV(self.node), node, "children[name] with a name that exists (KeyError otherwise)")
            return Custom(SE(CHILDNAMED(self.node, 1 if i.s == "key" else 2)))
        raise Unsupported("children[<%s>]" % type(i).__name__)


class ChildVals:
    tracked = False

    def __init__(self, node):
        self.node = node

    def getitem(self, eng, p, i, node=None):
        k = eng.as_int(i, p)
        eng.oblige(p, f"{eng.cur_func}.child_index_in_range", "safety", z3.And(k >= 0, k < NODE_NCH(self.node)), node,
                   "list(children.values())[k] exists (IndexError otherwise)")
        return Custom(SE(CHILD(self.node, k)))


class NameSet:
    tracked = False

    def __init__(self, node):
        self.node = node

    def eq(self, eng, p, other):
        if isinstance(other, Custom) and isinstance(other.h, SetLit) and other.h.items == frozenset(("key", "value")):
            return KV(self.node)
        raise Unsupported("set comparison")


class SetLit:
    tracked = False

    def __init__(self, items):
        self.items = items

    def eq(self, eng, p, other):
        if isinstance(other, Custom) and isinstance(other.h, NameSet):
            return other.h.eq(eng, p, Custom(self))
        raise Unsupported("set comparison")


def _schema_engine(funcs, en, loops=None):
    def h_set(eng, p, args, kw, node):
        if len(args) == 1 and isinstance(args[0], Custom) and isinstance(args[0].h, Children):
            return [(p, Custom(NameSet(args[0].h.node)))]
        raise Unsupported("set(...)")
    eng = Engine(funcs=funcs, handlers={"set": h_set}, loops=loops or {})

    def e_set(node, p):
        vals = [eng.ev1(x, p) for x in node.elts]
        if all(isinstance(v, Str) for v in vals):
            return [(p, Custom(SetLit(frozenset(v.s for v in vals))))]
        raise Unsupported("set literal")

    orig_list = eng.e_List

    def e_list(node, p):
        if not node.elts:
            oid = f"pl!{next(eng.counter)}"
            p.ghost.setdefault("PL", {})
            p.ghost["PL"][oid] = []
            return [(p, Custom(PList(oid)))]
        return orig_list(node, p)
    eng.e_Set = e_set
    eng.e_List = e_list
    return eng


def path_facts(en, ds):
    """path validity + leaf, instantiated at the depths ds"""
    f = [PATH_LEN >= 1, PATH_LEN < 2 ** 20, NODE_NCH(PN(PATH_LEN)) == 0]
    for d in ds:
        f.append(z3.Implies(z3.And(0 <= d, d < PATH_LEN), z3.And(NODE_NCH(PN(d)) >= 1, z3.Implies(NODE_NCH(PN(d)) == 1, CHILD(PN(d), 0) == PN(d + 1)))))
        f.append(NODE_NCH(PN(d)) >= 0)
    rts = sorted(_EN.get("FieldRepetitionType", {}).values()) or [0, 1, 2]
    for n in [PN(d) for d in list(ds) + [PATH_LEN]] + [CHILDNAMED(PN(PATH_LEN - 1), 1), CHILDNAMED(PN(PATH_LEN - 1), 2)]:
        f.append(z3.Or(*[NODE_RT(n) == v for v in rts]))          # repetition_type is a value of the enum
    return f


def count_defs(k):
    REQ, REPD = _EN["FieldRepetitionType"]["REQUIRED"], _EN["FieldRepetitionType"]["REPEATED"]
    return [NREP(0) == 0, NDEF(0) == 0,
            NREP(k + 1) == NREP(k) + z3.If(NODE_RT(PN(k + 1)) == REPD, 1, 0),
            NDEF(k + 1) == NDEF(k) + z3.If(NODE_RT(PN(k + 1)) != REQ, 1, 0)]


_EN = {}


def list_layout(en):
    L, RT = PATH_LEN, en["FieldRepetitionType"]
    o, m, leaf = PN(L - 2), PN(L - 1), PN(L)
    return z3.And(L >= 3, NODE_CT(o) == en["ConvertedType"]["LIST"], NODE_RT(o) != RT["REPEATED"], NODE_NCH(o) == 1,
                  NODE_RT(m) == RT["REPEATED"], NODE_NCH(m) == 1, NODE_RT(leaf) != RT["REPEATED"])


def map_layout(en):
    L, RT = PATH_LEN, en["FieldRepetitionType"]
    o, m = PN(L - 2), PN(L - 1)
    return z3.And(L >= 3, NODE_CT(o) == en["ConvertedType"]["MAP"], NODE_RT(o) != RT["REPEATED"], NODE_NCH(o) == 1,
                  NODE_RT(m) == RT["REPEATED"], NODE_NCH(m) == 2, KV(m),
                  NODE_RT(CHILDNAMED(m, 1)) == RT["REQUIRED"], NODE_RT(CHILDNAMED(m, 2)) != RT["REPEATED"])


def _mf_schema(en):
    def mf(m):
        L = mv(m, PATH_LEN)
        out = {"len_path": L}
        try:
            for nm, d in (("outer", PATH_LEN - 2), ("middle", PATH_LEN - 1), ("leaf", PATH_LEN)):
                out[nm] = {"repetition_type": mv(m, NODE_RT(PN(d))), "converted_type": mv(m, NODE_CT(PN(d))), "n_children": mv(m, NODE_NCH(PN(d)))}
            out["children_named_key_value"] = mv(m, KV(PN(PATH_LEN - 1)))
            out["key.repetition_type"] = mv(m, NODE_RT(CHILDNAMED(PN(PATH_LEN - 1), 1)))
            out["value.repetition_type"] = mv(m, NODE_RT(CHILDNAMED(PN(PATH_LEN - 1), 2)))
        except Exception:
            pass
        return out
    return mf


def check_levels(which, timeout):
    """SchemaHelper.max_repetition_level / max_definition_level: one arbitrary iteration of the path loop"""
    from vc.front_py import parse_module
    res = KResults()
    funcs, tree, src = parse_module("fastparquet/schema.py")
    en = enums_from_source()
    _EN.update(en)
    fn = "SchemaHelper." + which
    SPEC = NREP if which == "max_repetition_level" else NDEF
    mf = _mf_schema(en)
    state = {}

    def hook(eng, st, p):
        it = st.iter
        if not (isinstance(it, ast.Call) and isinstance(it.func, ast.Name) and it.func.id == "range" and len(it.args) == 1 and isinstance(st.target, ast.Name)):
            raise Unsupported("the path loop is not `for <name> in range(<n>)`")
        hi = eng.as_int(eng.ev1(it.args[0], p), p)
        post(res, f"{which}.loop_runs_over_the_whole_path", p.pc, hi == PATH_LEN, timeout, "range(len(parts))", mf)
        if "max_level" not in p.env:
            raise Unsupported("local `max_level` not found")
        post(res, f"{which}.invariant_on_entry", list(p.pc) + count_defs(z3.IntVal(0)), eng.as_int(p.env["max_level"], p) == SPEC(0), timeout,
             "max_level == 0 before the first path element", mf)
        q = p.fork()
        k = z3.Int("k_iter")
        m0 = z3.Int("max_level_iter")
        for nm in sorted(assigned_names(st.body)):
            if nm in q.env and nm != "max_level":
                v = q.env[nm]
                if isinstance(v, (PyI, PyB, CI, Opaque)):
                    q.env[nm] = eng.havoc_like(v, nm + "_havoc", q)
                else:
                    q.env[nm] = Opaque(f"{nm}_havoc!{next(eng.counter)}")
        q.env["max_level"] = PyI(m0)
        q.env[st.target.id] = PyI(k)
        q.pc += [0 <= k, k < PATH_LEN, m0 == SPEC(k)] + count_defs(k)
        for b in eng.block(st.body, [q]):
            if b.ctl not in (None, "continue"):
                res.addk(f"{which}.step_counts_this_element", "functional", REFUTED, {"ctl": str(b.ctl)}, 0.0, "trace", "the loop must not end early")
                continue
            post(res, f"{which}.step_counts_this_element", list(b.pc) + list(b.axioms), eng.as_int(b.env["max_level"], b) == SPEC(k + 1), timeout,
                 "after looking at path element k+1 (schema_element(parts[:k+1])) max_level == count over the first k+1 elements", mf)
        ex = p.fork()
        mx = z3.Int("max_level_exit")
        ex.env["max_level"] = PyI(mx)
        ex.pc += [mx == SPEC(PATH_LEN)]
        return [ex]

    eng = _schema_engine(funcs, en, loops={(fn, 0): LoopSpec("hook", inv=hook)})
    p = Path()
    p.pc += path_facts(en, [])
    try:
        outs = eng.run(fn, p, [Custom(Helper()), Custom(PathV())], closure={"parquet_thrift": thrift_ns(en)})
    except Unsupported as ex:
        res.addk(f"{which}.out_of_reach", "functional", UNKNOWN, None, 0.0, "engine", str(ex))
        return res
    res.take_engine(eng, "", timeout, mf)
    n = 0
    for q in outs:
        if q.ctl[0] != "ret":
            res.addk(f"{which}.result_is_spec_count", "functional", REFUTED, {"ctl": str(q.ctl)}, 0.0, "trace", "must return")
            continue
        n += 1
        what = "number of REPEATED elements on the path" if which == "max_repetition_level" else "number of non-REQUIRED elements on the path"
        post(res, f"{which}.result_is_spec_count", list(q.pc) + list(q.axioms), eng.as_int(q.ctl[1], q) == SPEC(PATH_LEN), timeout, "result == " + what, mf)
    if n == 0:
        res.addk(f"{which}.result_is_spec_count", "functional", UNKNOWN, None, 0.0, "engine", "no returning path")
    return res


def check_layout_levels(timeout):
    """corollary of the two counting specifications for a top-level 3-level LIST / MAP column (L == 3): max_rep == 1 and
    max_def == [outer OPTIONAL] + 1 + [leaf OPTIONAL]: what Part 1's precondition and core.read_col's `null` / `null_val` rely on"""
    res = KResults()
    en = enums_from_source()
    _EN.update(en)
    RT = en["FieldRepetitionType"]
    mf = _mf_schema(en)
    defs = count_defs(z3.IntVal(0)) + count_defs(z3.IntVal(1)) + count_defs(z3.IntVal(2))
    for nm, lay, leafs in (("list", list_layout(en), [PN(3)]), ("map", map_layout(en), [CHILDNAMED(PN(2), 1), CHILDNAMED(PN(2), 2)])):
        for leaf in leafs:
            tag = nm if nm == "list" else nm + (".key" if leaf is leafs[0] else ".value")
            cs = defs + [PATH_LEN == 3, lay, PN(3) == leaf, NODE_RT(PN(1)) >= 0, NODE_RT(PN(1)) <= 2, NODE_RT(leaf) >= 0, NODE_RT(leaf) <= 2]
            r = solve(cs, timeout)
            res.addk(f"levels[{tag}].layout_satisfiable", "functional", PROVED if r[0] == REFUTED else UNKNOWN, None, r[2], "z3", "vacuity guard")
            post(res, f"levels[{tag}].max_rep_is_1", cs, NREP(3) == 1, timeout, "a leaf of the 3-level layout has exactly one REPEATED ancestor-or-self", mf)
            post(res, f"levels[{tag}].max_def_is_null_plus_1_plus_null_val", cs,
                 NDEF(3) == z3.If(NODE_RT(PN(1)) != RT["REQUIRED"], 1, 0) + 1 + z3.If(NODE_RT(leaf) != RT["REQUIRED"], 1, 0), timeout,
                 "max_def == [outer group not REQUIRED] + 1 + [leaf not REQUIRED]  (core.read_col: null = not is_required(path[0]), "
                 "null_val = se.repetition_type != REQUIRED)", mf)
    # the enum values the code uses are those of the IDL
    try:
        from spec import thrift_idl
        idl = thrift_idl.load()
        ok = all(idl.enums[k] == v for k, v in en.items())
        res.addk("enums.match_idl", "functional", PROVED if ok else REFUTED, None if ok else {"source": en}, 0.0, "table",
                 "FieldRepetitionType / ConvertedType / PageType / Encoding values in parquet_thrift/parquet/ttypes.py == parquet.thrift")
    except Exception as ex:
        res.addk("enums.match_idl", "functional", UNKNOWN, None, 0.0, "engine", str(ex))
    return res


def check_is_required(timeout):
    from vc.front_py import parse_module
    res = KResults()
    funcs, tree, src = parse_module("fastparquet/schema.py")
    en = enums_from_source()
    _EN.update(en)
    mf = _mf_schema(en)
    eng = _schema_engine(funcs, en)
    p = Path()
    p.pc += path_facts(en, [])
    try:
        outs = eng.run("SchemaHelper.is_required", p, [Custom(Helper()), Custom(NameAt(z3.IntVal(0)))], closure={"parquet_thrift": thrift_ns(en)})
    except Unsupported as ex:
        res.addk("is_required.out_of_reach", "functional", UNKNOWN, None, 0.0, "engine", str(ex))
        return res
    res.take_engine(eng, "", timeout, mf)
    for q in outs:
        if q.ctl[0] != "ret":
            res.addk("is_required[top_level_name].is_outer_required", "functional", REFUTED, {"ctl": str(q.ctl)}, 0.0, "trace", "must return")
            continue
        post(res, "is_required[top_level_name].is_outer_required", list(q.pc) + list(q.axioms),
             eng.truth(q.ctl[1], q) == (NODE_RT(PN(1)) == en["FieldRepetitionType"]["REQUIRED"]), timeout,
             "is_required(path_in_schema[0]) <=> the top-level element of the path is REQUIRED (so `null = not is_required(...)` is `outer group OPTIONAL`)", mf)
    return res


def check_shape(which, timeout):
    """_is_list_like / _is_map_like accept exactly the 3-level layouts"""
    from vc.front_py import parse_module
    res = KResults()
    funcs, tree, src = parse_module("fastparquet/schema.py")
    en = enums_from_source()
    _EN.update(en)
    mf = _mf_schema(en)
    fn = "_is_list_like" if which == "list" else "_is_map_like"
    lay = list_layout(en) if which == "list" else map_layout(en)
    eng = _schema_engine(funcs, en)
    p = Path()
    p.pc += path_facts(en, [PATH_LEN - 2, PATH_LEN - 1])
    column = Custom(NS({"meta_data": Custom(NS({"path_in_schema": Custom(PathV())}, "meta_data"))}, "column"))
    r = solve(list(p.pc) + [lay], timeout)
    res.addk(f"{fn}.layout_satisfiable", "functional", PROVED if r[0] == REFUTED else UNKNOWN, None, r[2], "z3", "vacuity guard: a path with the layout exists")
    try:
        outs = eng.run(fn, p, [Custom(Helper()), column], closure={"parquet_thrift": thrift_ns(en)})
    except Unsupported as ex:
        res.addk(f"{fn}.out_of_reach", "functional", UNKNOWN, None, 0.0, "engine", str(ex))
        return res
    res.take_engine(eng, "", timeout, mf)
    n = 0
    RT = en["FieldRepetitionType"]
    outer_rep = NODE_RT(PN(PATH_LEN - 2)) == RT["REPEATED"]
    for q in outs:
        if q.ctl[0] != "ret":
            res.addk(f"{fn}.no_exception", "functional", REFUTED, {"ctl": str(q.ctl)}, 0.0, "trace", "a valid path must not raise")
            continue
        n += 1
        r_ = eng.truth(q.ctl[1], q)
        pcs = list(q.pc) + list(q.axioms)
        post(res, f"{fn}.true_only_for_the_{which}_layout[outer_not_repeated]", pcs + [z3.Not(outer_rep)], z3.Implies(r_, lay), timeout,
             f"a True answer implies the 3-level {which.upper()} layout (outer group OPTIONAL or REQUIRED)", mf)
        post(res, f"{fn}.true_only_for_the_{which}_layout[outer_repeated]", pcs + [outer_rep], z3.Implies(r_, lay), timeout,
             f"a group annotated {which.upper()} that is itself REPEATED is not the layout (its leaf has two repeated ancestors)", mf)
        post(res, f"{fn}.true_for_every_{which}_layout", pcs, z3.Implies(lay, r_), timeout, f"every column of the 3-level {which.upper()} layout is accepted", mf)
    if n == 0:
        res.addk(f"{fn}.true_for_every_{which}_layout", "functional", UNKNOWN, None, 0.0, "engine", "no returning path")
    return res


# =====================================================================================================================
# Part 3: core.py - the row index handed from page to page (read_col, read_data_page_v2), key/value zipping (read_row_group_arrays)
# =====================================================================================================================
class Lenient:
    """object whose unknown attributes are memoised opaque values (column metadata, headers)"""
    tracked = False

    def __init__(self, name, d=None):
        self.name, self.d = name, dict(d or {})

    def attr(self, eng, p, name):
        if name not in self.d:
            self.d[name] = Opaque((self.name, name))
        return self.d[name]

    def setattr(self, eng, p, name, v):
        self.d[name] = v

    def is_none(self, eng, p):
        return z3.BoolVal(False)

    def truth(self, eng, p):
        return z3.BoolVal(True)

    def call_method(self, eng, p, name, args, kw, node):
        if self.name == "np" and name in ("empty", "zeros", "frombuffer"):
            return [(p, Custom(TagArr(f"np.{name}!{next(eng.counter)}")))]
        return [(p, Opaque((self.name, name + "()", next(eng.counter))))]


class Cell:
    """a one-element list used as a mutable cell (row_idx = [0]); content in p.ghost['cell'][oid]"""
    tracked = False

    def __init__(self, oid):
        self.oid = oid

    def is_none(self, eng, p):
        return z3.BoolVal(False)

    def getitem(self, eng, p, i, node=None):
        if not z3.is_true(z3.simplify(eng.as_int(i, p) == 0)):
            raise Unsupported("cell[k], k != 0")
        return p.ghost["cell"][self.oid]

    def setitem(self, eng, p, i, v, node=None):
        if not z3.is_true(z3.simplify(eng.as_int(i, p) == 0)):
            raise Unsupported("cell[k] = ..., k != 0")
        p.ghost["cell"][self.oid] = v
        return [p]


class TagArr:
    """an array value identified by a tag (the levels / values a page reader returned); may be None"""
    tracked = False

    def __init__(self, tag, isnone=None, dtype_kind=None):
        self.tag, self.isnone, self.dtype_kind = tag, z3.BoolVal(False) if isnone is None else isnone, dtype_kind

    def is_none(self, eng, p):
        return self.isnone

    def len(self, eng, p):
        key = ("len", self.tag)
        if key not in p.opq:
            n = eng.fresh_int("len_" + self.tag)
            p.pc.append(n >= 0)
            p.opq[key] = PyI(n)
        return p.opq[key]

    def attr(self, eng, p, name):
        if name == "dtype" and self.dtype_kind:
            return Custom(Lenient("dtype", {"kind": Str(self.dtype_kind)}))
        return Opaque((self.tag, name))

    def call_method(self, eng, p, name, args, kw, node):
        return [(p, Opaque((self.tag, name + "()", next(eng.counter))))]

    def getitem(self, eng, p, i, node=None):
        return Opaque((self.tag, "[]", next(eng.counter)))

    def slice(self, eng, p, lo, hi, node):
        return Custom(SliceOf(self, eng.as_int(lo, p) if lo is not None else None, eng.as_int(hi, p) if hi is not None else None))

    def setitem(self, eng, p, i, v, node=None):
        return [p]

    def truth(self, eng, p):
        return z3.BoolVal(True)

    def eq(self, eng, p, other):
        return eng.fresh("arr_eq", z3.BoolSort())          # element-wise comparison: an opaque mask

    def binop(self, eng, p, op, other, node):
        return Opaque((self.tag, "binop", next(eng.counter)))


class SliceOf:
    tracked = False

    def __init__(self, base, lo, hi):
        self.base, self.lo, self.hi = base, lo, hi

    def is_none(self, eng, p):
        return z3.BoolVal(False)

    def attr(self, eng, p, name):
        return Opaque(("slice", name))

    def call_method(self, eng, p, name, args, kw, node):
        return [(p, Opaque(("slice", name + "()", next(eng.counter))))]

    def getitem(self, eng, p, i, node=None):
        return Opaque(("slice[]", next(eng.counter)))

    def slice(self, eng, p, lo, hi, node):
        return Opaque(("slice[:]", next(eng.counter)))

    def setitem(self, eng, p, i, v, node=None):
        return [p]


class CoreHelper(Helper):
    """schema_helper as seen by core.py: the level functions and is_required by their contracts (Part 2)"""

    def call_method(self, eng, p, name, args, kw, node):
        is_path = len(args) == 1 and isinstance(args[0], Custom) and isinstance(args[0].h, PathV)
        if name == "max_definition_level" and is_path:
            return [(p, PyI(z3.Int("max_definition_level(path)")))]
        if name == "max_repetition_level" and is_path:
            return [(p, PyI(z3.Int("max_repetition_level(path)")))]
        if name == "is_required" and len(args) == 1 and isinstance(args[0], Custom) and isinstance(args[0].h, NameAt) \
                and z3.is_true(z3.simplify(args[0].h.idx == 0)):
            return [(p, PyB(z3.Bool("outer_group_is_REQUIRED")))]
        if name == "schema_element":
            return Helper.call_method(self, eng, p, name, args, kw, node)
        raise Unsupported("schema_helper." + name + "(...) with these arguments")


def _is_obj(v, cls, tag=None):
    return isinstance(v, Custom) and isinstance(v.h, cls) and (tag is None or v.h.tag == tag)


def _core_engine(funcs, handlers, loops):
    eng = Engine(funcs=funcs, handlers=handlers, loops=loops, opaque_calls=True)
    orig_list = eng.e_List

    def e_list(node, p):
        if len(node.elts) == 1 and isinstance(node.elts[0], ast.Constant) and isinstance(node.elts[0].value, int):
            oid = f"cell!{next(eng.counter)}"
            p.ghost.setdefault("cell", {})
            p.ghost["cell"][oid] = PyI(node.elts[0].value)
            return [(p, Custom(Cell(oid)))]
        return orig_list(node, p)
    eng.e_List = e_list
    orig_assign = eng.assign

    def assign(t, v, p):
        # `x[a:b] = v`: the engine has no slice stores; a proof-script object with `setslice` records it, on anything else (opaque
        # numpy values, arrays not under contract here) it has no effect the obligations of this part depend on
        if isinstance(t, ast.Subscript) and isinstance(t.slice, ast.Slice):
            outs = []
            for q, o in eng.ev(t.value, p):
                if isinstance(o, Custom) and hasattr(o.h, "setslice"):
                    o.h.setslice(eng, q, t.slice, v, t)
                elif isinstance(o, Custom) and getattr(o.h, "tracked", False):
                    raise Unsupported("slice store into a tracked object")
                outs.append(q)
            return outs
        return orig_assign(t, v, p)
    eng.assign = assign
    orig_compare = eng.e_Compare

    def e_compare(e, p):
        # numpy: a comparison with an array operand is an element-wise mask (an opaque array), not a bool
        if len(e.ops) == 1 and isinstance(e.ops[0], (ast.Eq, ast.NotEq, ast.Lt, ast.LtE, ast.Gt, ast.GtE)):
            out = []
            for q, a in eng.ev(e.left, p):
                for r, b in eng.ev(e.comparators[0], q):
                    if any(isinstance(x, Custom) and isinstance(x.h, (TagArr, SliceOf)) for x in (a, b)):
                        out.append((r, Opaque(("mask", next(eng.counter)))))
                    else:
                        out.append((r, PyB(eng.compare(e.ops[0], a, b, r, e))))
            return out
        return orig_compare(e, p)
    eng.e_Compare = e_compare
    orig_identical = eng.identical

    def identical(a, b, p):
        if a is b or (isinstance(a, Opaque) and isinstance(b, Opaque) and a.tag == b.tag):
            return z3.BoolVal(True)
        if isinstance(a, (Opaque, Custom)) and isinstance(b, (Opaque, Custom)):
            key = ("is", str(getattr(a, "tag", id(a))), str(getattr(b, "tag", id(b))))
            if key not in p.opq:
                p.opq[key] = eng.fresh("is", z3.BoolSort())
            return p.opq[key]
        return orig_identical(a, b, p)
    eng.identical = identical
    orig_unary = eng.e_UnaryOp

    def e_unary(e, p):
        if isinstance(e.op, ast.Invert):
            out = []
            for q, v in eng.ev(e.operand, p):
                if isinstance(v, (Opaque, Custom)):
                    out.append((q, Opaque(("~", next(eng.counter)))))          # ~mask of an opaque numpy array
                elif isinstance(v, PyI):
                    out.append((q, PyI(-v.z - 1)))
                else:
                    raise Unsupported("invert of " + type(v).__name__)
            return out
        return orig_unary(e, p)
    eng.e_UnaryOp = e_unary
    return eng


def check_read_col(timeout):
    """core.read_col: one arbitrary iteration of the page loop for a repeated (LIST / MAP leaf) column"""
    from vc.front_py import parse_module
    res = KResults()
    funcs, tree, src = parse_module("fastparquet/core.py")
    en = enums_from_source()
    _EN.update(en)
    RS, ROWSP = z3.Int("rows_started_so_far"), z3.Int("rows_started_in_this_page")
    MAXDEF, OUTER_REQ = z3.Int("max_definition_level(path)"), z3.Bool("outer_group_is_REQUIRED")
    PT, ENC = z3.Int("page_type"), z3.Int("page_encoding")
    state = {"calls": [], "v2": []}
    assign = Custom(TagArr("assign", dtype_kind="O"))
    mf = lambda m: {"rows_started_so_far": mv(m, RS), "rows_started_in_this_page": mv(m, ROWSP), "page_type": mv(m, PT), "page_encoding": mv(m, ENC),
                    "outer_group_is_REQUIRED": mv(m, OUTER_REQ)}

    def pose(name, p, goal, detail, kind="functional"):
        post(res, name, list(p.pc) + list(p.axioms), goal, timeout, detail, mf, kind=kind)

    def h_from_buffer(eng, p, args, kw, node):
        ph = Custom(Lenient("ph", {"type": PyI(PT), "data_page_header": Custom(Lenient("data_page_header", {"encoding": PyI(ENC)})),
                                   "data_page_header_v2": Custom(Lenient("data_page_header_v2"))}))
        return [(p, ph)]

    def h_read_data_page(eng, p, args, kw, node):
        k = next(eng.counter)
        t = Tup([Custom(TagArr(f"defi!{k}", z3.Bool(f"defi_is_None!{k}"))), Custom(TagArr(f"rep!{k}", z3.Bool(f"rep_is_None!{k}"))), Custom(TagArr(f"val!{k}"))])
        p.ghost["page"] = t.items
        return [(p, t)]

    def h_assemble(eng, p, args, kw, node):
        names = ["assign", "defi", "rep", "val", "dic", "d", "null", "null_val", "max_defi", "prev_i"]
        a = dict(zip(names, args))
        a.update(kw)
        page = p.ghost.get("page")
        cellv = p.ghost["cell"][p.ghost["row_idx_oid"]]
        pose("read_col.assemble.output_is_the_row_group_array", p, z3.BoolVal(a.get("assign") is assign),
             "the kernel gets the whole output array of the row group (rows of earlier pages are at their indices), not a slice or copy")
        ok = page is not None and all(a.get(n) is page[k] for k, n in enumerate(("defi", "rep", "val")))
        pose("read_col.assemble.levels_and_values_of_this_page", p, z3.BoolVal(bool(ok)),
             "defi, rep, val are the definition levels, repetition levels and values read_data_page returned for THIS page, in that order")
        pose("read_col.assemble.dictionary_is_the_current_one", p, z3.BoolVal(a.get("dic") is p.ghost.get("dic_in")),
             "dic is the dictionary of the last dictionary page seen")
        pose("read_col.assemble.d_iff_dictionary_encoded_page", p,
             eng.truth(a["d"], p) == z3.Or(ENC == en["Encoding"]["PLAIN_DICTIONARY"], ENC == en["Encoding"]["RLE_DICTIONARY"]),
             "values are dereferenced through the dictionary exactly for PLAIN_DICTIONARY / RLE_DICTIONARY pages")
        pose("read_col.assemble.null_iff_outer_optional", p, eng.truth(a["null"], p) == z3.Not(OUTER_REQ),
             "null <=> the outer LIST / MAP group is not REQUIRED (definition level 0 means a null row only then)")
        pose("read_col.assemble.max_defi_is_the_leaf_max_definition_level", p, eng.as_int(a["max_defi"], p) == MAXDEF,
             "max_defi == schema_helper.max_definition_level(path of this leaf)")
        pose("read_col.assemble.prev_i_is_rows_started_so_far", p, eng.as_int(a["prev_i"], p) == RS,
             "prev_i == number of rows started by the earlier pages of the chunk (the cell row_idx[0])")
        state["calls"].append(1)
        ret = eng.fresh_int("assemble_result")
        p.pc += [ROWSP >= 0, ret == RS + ROWSP - 1]        # callee contract (Part 1: returns_index_of_last_row_started)
        p.ghost["assembled"] = True
        return [(p, PyI(ret))]

    def h_v2(eng, p, args, kw, node):
        f = funcs["read_data_page_v2"]
        a = dict(zip(f.params, args))
        a.update(kw)
        idx = a.get("idx")
        pose("read_col.v2.row_index_cell_is_shared", p, z3.BoolVal(isinstance(idx, Custom) and isinstance(idx.h, Cell) and idx.h.oid == p.ghost["row_idx_oid"]),
             "read_data_page_v2 gets the same row_idx cell (it advances it by the page's num_rows)")
        pose("read_col.v2.output_is_the_row_group_array", p, z3.BoolVal(a.get("assign") is assign), "the whole output array is passed")
        p.ghost["v2"] = True
        state["v2"].append(1)
        return [(p, PyI(eng.fresh_int("v2_values")))]

    def hook(eng, st, p):
        cells = [(k, v) for k, v in p.env.items() if isinstance(v, Custom) and isinstance(v.h, Cell)]
        if len(cells) != 1:
            raise Unsupported("expected exactly one one-element list cell (row_idx) before the page loop")
        cname, cell = cells[0]
        pose("read_col.row_index_starts_at_0", p, eng.as_int(p.ghost["cell"][cell.h.oid], p) == 0, "no row started before the first page")
        q = p.fork()
        q.ghost["row_idx_oid"] = cell.h.oid
        for nm in sorted(assigned_names(st.body)):
            if nm not in q.env:
                continue
            v = q.env[nm]
            if isinstance(v, NoneV) or nm == cname:
                q.env[nm] = Opaque(f"{nm}_havoc!{next(eng.counter)}") if nm != cname else v
            elif isinstance(v, (PyI, PyB, CI, Opaque)):
                q.env[nm] = eng.havoc_like(v, nm + "_havoc", q)
            elif isinstance(v, Custom) and isinstance(v.h, TagArr) and v is assign:
                raise Unsupported("the page loop rebinds `assign`")
            else:
                q.env[nm] = Opaque(f"{nm}_havoc!{next(eng.counter)}")
        q.ghost["cell"][cell.h.oid] = PyI(RS)
        q.pc += [RS >= 0]
        if "dic" in q.env:
            q.ghost["dic_in"] = q.env["dic"]
        outs = eng.block(st.body, [q])
        n = {"assemble": 0, "dict": 0, "v2": 0, "other": 0}
        for b in outs:
            if b.ctl not in (None, "continue"):
                continue                                        # raise paths: rejected input
            cv = eng.as_int(b.ghost["cell"][cell.h.oid], b)
            if b.ghost.get("assembled"):
                n["assemble"] += 1
                pose("read_col.row_index_handed_to_next_page[v1_repeated_page]", b, cv == RS + ROWSP,
                     "after a v1 page of a repeated column row_idx[0] == rows started so far, this page included (1 + index of the last row started): "
                     "the next page's continuation entries extend that row, its first rep == 0 entry starts the next one")
            elif b.ghost.get("v2"):
                n["v2"] += 1
            else:
                n["other"] += 1
                pose("read_col.row_index_unchanged_by_other_pages", b, cv == RS,
                     "dictionary pages and pages of non-repeated columns leave the row index alone")
        state["n"] = n
        if n["assemble"] == 0:
            res.addk("read_col.row_index_handed_to_next_page[v1_repeated_page]", "functional", UNKNOWN, None, 0.0, "engine", "no path reaches _assemble_objects")
        ex = p.fork()
        for nm in sorted(assigned_names(st.body)):
            if nm in ex.env and nm != cname:
                ex.env[nm] = Opaque(f"{nm}_exit!{next(eng.counter)}")
        ex.ghost["cell"][cell.h.oid] = PyI(z3.Int("rows_started_at_exit"))
        return [ex]

    handlers = {"ThriftObject.from_buffer": h_from_buffer, "read_data_page": h_read_data_page, "encoding._assemble_objects": h_assemble,
                "read_data_page_v2": h_v2, "min": lambda e, p, a, k, n: [(p, Opaque(("min", next(e.counter))))]}
    eng = _core_engine(funcs, handlers, {("read_col", 0): LoopSpec("hook", inv=hook)})
    p = Path()
    p.pc += path_facts(en, [])
    cmd = Custom(Lenient("cmd", {"path_in_schema": Custom(PathV()), "num_values": PyI(z3.Int("chunk_num_values"))}))
    column = Custom(Lenient("column", {"meta_data": cmd}))
    kwargs = {"use_cat": PyB(False), "selfmade": PyB(z3.Bool("selfmade")), "assign": assign, "catdef": NONE, "row_filter": NONE}
    try:
        eng.run("read_col", p, [column, Custom(CoreHelper()), Opaque("infile")], kwargs,
                closure={"parquet_thrift": thrift_ns(dict(en, CompressionCodec={"UNCOMPRESSED": 0})), "np": Custom(Lenient("np")), "pd": Custom(Lenient("pd"))})
    except Unsupported as ex:
        res.addk("read_col.out_of_reach", "functional", UNKNOWN, None, 0.0, "engine", str(ex))
        return res
    eng.oblig = [ob for ob in eng.oblig if ob.kind in ("safety",) and "None" in ob.name]
    res.take_engine(eng, "", timeout, mf)
    if not state["v2"]:
        res.addk("read_col.v2.row_index_cell_is_shared", "functional", UNKNOWN, None, 0.0, "engine", "no path reaches read_data_page_v2")
    return res


def check_v2(timeout):
    """core.read_data_page_v2 for a repeated column (max_repetition_level(path) != 0): every page encoding it accepts must run record
    assembly with arguments that satisfy the kernel's precondition, and advance the shared row index by the page's num_rows"""
    from vc.front_py import parse_module
    res = KResults()
    funcs, tree, src = parse_module("fastparquet/core.py")
    en = enums_from_source()
    _EN.update(en)
    RS = z3.Int("rows_started_so_far")
    MAXDEF, MAXREP, OUTER_REQ = z3.Int("max_definition_level(path)"), z3.Int("max_repetition_level(path)"), z3.Bool("outer_group_is_REQUIRED")
    ENC, NROWS, NNULLS, NVALS = z3.Int("page_encoding"), z3.Int("page_num_rows"), z3.Int("page_num_nulls"), z3.Int("page_num_values")
    encname = {v: k for k, v in en["Encoding"].items()}
    mf = lambda m: {"rows_started_so_far": mv(m, RS), "page_encoding": encname.get(mv(m, ENC), mv(m, ENC)), "page_num_rows": mv(m, NROWS),
                    "page_num_nulls": mv(m, NNULLS), "outer_group_is_REQUIRED": mv(m, OUTER_REQ), "max_definition_level": mv(m, MAXDEF)}
    assign = Custom(TagArr("assign", dtype_kind="O"))
    state = {"n": 0}

    def pose(name, p, goal, detail, kind="functional"):
        post(res, name, list(p.pc) + list(p.axioms), goal, timeout, detail, mf, kind=kind)

    def h_assemble(eng, p, args, kw, node):
        names = ["assign", "defi", "rep", "val", "dic", "d", "null", "null_val", "max_defi", "prev_i"]
        a = dict(zip(names, args))
        a.update(kw)
        state["n"] += 1
        out = a.get("assign")
        ok = isinstance(out, Custom) and isinstance(out.h, SliceOf) and out.h.base is assign.h and out.h.lo is not None and out.h.hi is not None
        pose("read_data_page_v2.assemble.output_is_rows_of_this_page", p,
             z3.And(out.h.lo == RS, out.h.hi == RS + NROWS, eng.as_int(a["prev_i"], p) == 0) if ok else z3.BoolVal(False),
             "the kernel writes assign[rows so far : rows so far + num_rows] starting at its row 0 (v2 pages start on a row boundary)")
        for nm in ("defi", "rep"):
            v = a.get(nm)
            bound = not (isinstance(v, Opaque) and isinstance(v.tag, str) and v.tag.startswith("global:"))
            for cname, cc in (("page_with_nulls", NNULLS > 0), ("page_without_nulls", NNULLS == 0)):
                if solve(list(p.pc) + [cc], 2000)[0] != PROVED:
                    post(res, f"read_data_page_v2.assemble.{nm}_levels_were_read[{cname}]", list(p.pc) + [cc], z3.BoolVal(bound), timeout,
                         f"the {nm} argument is a local that was assigned on this path (otherwise UnboundLocalError: a valid page is refused)", mf)
        for cname, cc in (("outer_optional", z3.Not(OUTER_REQ)), ("outer_required", OUTER_REQ)):
            post(res, f"read_data_page_v2.assemble.null_iff_outer_optional[{cname}]", list(p.pc) + [cc], eng.truth(a["null"], p) == z3.Not(OUTER_REQ), timeout,
                 "null <=> the outer LIST / MAP group is not REQUIRED (definition level 0 means `row is null` only then)", mf)
        pose("read_data_page_v2.assemble.max_defi_is_the_leaf_max_definition_level", p, eng.as_int(a["max_defi"], p) == MAXDEF, "max_defi == max_definition_level(path)")
        pose("read_data_page_v2.assemble.d_iff_dictionary_encoded_page", p,
             eng.truth(a["d"], p) == z3.Or(ENC == en["Encoding"]["PLAIN_DICTIONARY"], ENC == en["Encoding"]["RLE_DICTIONARY"]),
             "values go through the dictionary exactly for dictionary-encoded pages")
        p.ghost["assembled"] = True
        return [(p, PyI(eng.fresh_int("assemble_result")))]

    handlers = {"encoding._assemble_objects": h_assemble}
    eng = _core_engine(funcs, handlers, {})
    p = Path()
    p.pc += path_facts(en, []) + [RS >= 0, NROWS >= 0, NNULLS >= 0, NVALS >= NNULLS, MAXREP == 1, MAXDEF >= 1, MAXDEF <= 3]
    oid = "cell!idx"
    p.ghost["cell"] = {oid: PyI(RS)}
    idx = Custom(Cell(oid))
    dh2 = Custom(Lenient("data_header2", {"encoding": PyI(ENC), "num_rows": PyI(NROWS), "num_nulls": PyI(NNULLS), "num_values": PyI(NVALS)}))
    cmd = Custom(Lenient("cmd", {"path_in_schema": Custom(PathV())}))
    f = funcs["read_data_page_v2"]
    argv = {"infile": Opaque("infile"), "schema_helper": Custom(CoreHelper()), "se": Custom(Lenient("se")), "data_header2": dh2, "cmd": cmd,
            "dic": Opaque("dic"), "assign": assign, "num": PyI(z3.Int("num")), "use_cat": PyB(False), "file_offset": Opaque("off"),
            "ph": Custom(Lenient("ph")), "idx": idx, "selfmade": PyB(z3.Bool("selfmade")), "row_filter": NONE}
    try:
        outs = eng.run("read_data_page_v2", p, [argv[n] for n in f.params],
                       closure={"parquet_thrift": thrift_ns(dict(en, CompressionCodec={"UNCOMPRESSED": 0})), "np": Custom(Lenient("np")), "pd": Custom(Lenient("pd"))})
    except Unsupported as ex:
        res.addk("read_data_page_v2.out_of_reach", "functional", UNKNOWN, None, 0.0, "engine", str(ex))
        return res
    eng.oblig = []
    nret = 0
    for q in outs:
        if q.ctl[0] != "ret":
            continue
        nret += 1
        feas = sorted(nm for ev, nm in encname.items() if solve(list(q.pc) + [ENC == ev], 2000)[0] != PROVED)
        tag = "[" + "|".join(feas) + "]"
        pose(f"read_data_page_v2.repeated_column_is_assembled{tag}", q, z3.BoolVal(bool(q.ghost.get("assembled"))),
             "a page of a column with a repeated ancestor goes through record assembly whatever its value encoding")
        if q.ghost.get("assembled"):
            pose(f"read_data_page_v2.row_index_advanced_by_num_rows{tag}", q, eng.as_int(q.ghost["cell"][oid], q) == RS + NROWS,
                 "idx[0] (shared with read_col) ends as rows so far + the page's num_rows: the next page's rows go to the next slots")
    if nret == 0:
        res.addk("read_data_page_v2.repeated_column_is_assembled", "functional", UNKNOWN, None, 0.0, "engine", "no returning path")
    res.addk("read_data_page_v2.paths", "functional", PROVED, None, 0.0, "engine", f"{nret} returning paths, {state['n']} reach _assemble_objects")
    return res


# ---- read_row_group_arrays: key / value zipping of a MAP column ------------------------------------------------------------------
ROWNONE = z3.Function("LEAF_ROW_is_None", I, I, B)           # (leaf 1 = read first | 2 = read second, row) -> the assembled row is None


class RowObj:
    """row `i` of the array assembled from leaf `leaf`"""
    tracked = False

    def __init__(self, leaf, i):
        self.leaf, self.i = leaf, i

    def is_none(self, eng, p):
        return ROWNONE(self.leaf, self.i)


class ColArr:
    """the array out[name]; what it currently holds (which leaf's rows) is p.ghost['holds'][id]; .copy() snapshots it"""
    tracked = False

    def __init__(self, oid):
        self.oid = oid

    def is_none(self, eng, p):
        return z3.BoolVal(False)

    def call_method(self, eng, p, name, args, kw, node):
        if name == "copy" and not args:
            k = f"copy!{next(eng.counter)}"
            p.ghost["holds"][k] = p.ghost["holds"][self.oid]
            return [(p, Custom(ColArr(k)))]
        raise Unsupported("array." + name)

    def setslice(self, eng, p, sl, v, node):
        if sl.lower is not None or sl.upper is not None or sl.step is not None:
            raise Unsupported("partial slice store into out[name]")
        p.ghost["stored"] = p.ghost.get("stored", []) + [(self.oid, v)]


class ZipArr:
    tracked = False

    def __init__(self, a, b):
        self.a, self.b = a, b

    def arbitrary(self, eng, p):
        i = z3.Int("i_skolem_row")
        return Tup([Custom(RowObj(p.ghost["holds"][self.a.oid], i)), Custom(RowObj(p.ghost["holds"][self.b.oid], i))])


class ZipRows:
    tracked = False

    def __init__(self, k, v):
        self.k, self.v = k, v


class DictOf:
    tracked = False

    def __init__(self, z):
        self.z = z

    def is_none(self, eng, p):
        return z3.BoolVal(False)


class MapsDict:
    """the local dict `maps`: name -> array (at most the one name of this column)"""
    tracked = False

    def contains(self, eng, p, item):
        return z3.BoolVal(p.ghost.get("maps") is not None)

    def setitem(self, eng, p, k, v, node=None):
        p.ghost["maps"] = v
        return [p]

    def getitem(self, eng, p, k, node=None):
        if p.ghost.get("maps") is None:
            raise Unsupported("maps[name] before it was set")
        return p.ghost["maps"]

    def delitem(self, eng, p, k):
        p.ghost["maps"] = None


def check_map_zip(timeout):
    """core.read_row_group_arrays: the `if _is_map_like(...)` block executed for the FIRST leaf of a MAP column and then for the SECOND
    (read_col refills out[name] in between); precondition: the column chunks of a row group are in schema order, so the first is the
    'key' leaf, the second the 'value' leaf."""
    from vc.front_py import parse_module
    res = KResults()
    funcs, tree, src = parse_module("fastparquet/core.py")
    f = funcs["read_row_group_arrays"]
    blocks = [n for n in ast.walk(f.tree) if isinstance(n, ast.If) and isinstance(n.test, ast.Call) and isinstance(n.test.func, ast.Name)
              and n.test.func.id == "_is_map_like"]
    if len(blocks) != 1:
        res.addk("map_zip.out_of_reach", "functional", UNKNOWN, None, 0.0, "engine", f"expected one `if _is_map_like(...)` block, found {len(blocks)}")
        return res
    blk = blocks[0]
    TOPKEY = name_is(2, z3.IntVal(0), "key")
    iS = z3.Int("i_skolem_row")
    mf = lambda m: {"top_level_column_name_is_'key'": mv(m, TOPKEY), "row": mv(m, iS), "key_row_is_None": mv(m, ROWNONE(1, iS)),
                    "value_row_is_None": mv(m, ROWNONE(2, iS))}

    def h_zip(eng, p, args, kw, node):
        a, b = args
        if _is_obj(a, ColArr) and _is_obj(b, ColArr):
            return [(p, Custom(ZipArr(a.h, b.h)))]
        if _is_obj(a, RowObj) and _is_obj(b, RowObj):
            return [(p, Custom(ZipRows(a.h, b.h)))]
        raise Unsupported("zip of these values")

    def h_dict(eng, p, args, kw, node):
        if len(args) == 1 and _is_obj(args[0], ZipRows):
            return [(p, Custom(DictOf(args[0].h)))]
        raise Unsupported("dict(...)")

    class OutDict:
        tracked = False

        def __init__(self, arr):
            self.arr = arr

        def getitem(self, eng, p, k, node=None):
            return self.arr

    eng = _core_engine(funcs, {"zip": h_zip, "dict": h_dict, "_is_map_like": lambda e, p, a, k, n: [(p, PyB(True))]}, {})

    def s_delete(st, p):
        outs = [p]
        for t in st.targets:
            if not isinstance(t, ast.Subscript):
                raise Unsupported("del <name>")
            nxt = []
            for q in outs:
                for r, o in eng.ev(t.value, q):
                    for r2, k in eng.ev(t.slice, r):
                        if isinstance(o, Custom) and hasattr(o.h, "delitem"):
                            o.h.delitem(eng, r2, k)
                            nxt.append(r2)
                        else:
                            raise Unsupported("del on " + type(o).__name__)
            outs = nxt
        return outs
    eng.s_Delete = s_delete
    eng.cur_func = "read_row_group_arrays"
    arr = Custom(ColArr("out[name]"))
    p = Path()
    p.ghost.update(holds={"out[name]": 1}, maps=None, stored=[])
    mkcol = lambda pid: Custom(Lenient("column", {"meta_data": Custom(Lenient("meta_data", {"path_in_schema": Custom(PathV(pid))}))}))
    p.env = {"out": Custom(OutDict(arr)), "maps": Custom(MapsDict()), "name": Str("<column name>"), "column": mkcol(1), "schema_helper": Opaque("schema_helper")}
    last = PATH_LEN - 1
    # schema order: the first leaf is <name>.key_value.key, the second <name>.key_value.value; both share the top-level name
    p.pc += [PATH_LEN == 3, name_is(1, last, "key"), z3.Not(name_is(1, last, "value")), name_is(2, last, "value"), z3.Not(name_is(2, last, "key")),
             name_is(1, z3.IntVal(0), "key") == name_is(2, z3.IntVal(0), "key"), name_is(1, z3.IntVal(0), "value") == name_is(2, z3.IntVal(0), "value")]
    try:
        firsts = eng.block([blk], [p])
        seconds = []
        for q in firsts:
            if q.ctl is not None:
                continue
            post(res, "map_zip.first_leaf_is_kept_aside", q.pc, z3.BoolVal(_is_obj(q.ghost.get("maps"), ColArr) and q.ghost["holds"].get(q.ghost["maps"].h.oid) == 1
                                                                          and q.ghost["maps"].h.oid != "out[name]" and not q.ghost["stored"]),
                 timeout, "after the first leaf of a MAP column a COPY of its rows is kept (read_col reuses out[name] for the second leaf) and nothing is stored yet", mf)
            q.ghost["holds"]["out[name]"] = 2                      # read_col of the second leaf refilled out[name]
            q.env["column"] = mkcol(2)
            seconds += eng.block([blk], [q])
    except Unsupported as ex:
        res.addk("map_zip.out_of_reach", "functional", UNKNOWN, None, 0.0, "engine", str(ex))
        return res
    n = 0
    for q in seconds:
        if q.ctl is not None:
            continue
        n += 1
        st = q.ghost["stored"]
        ok_store = len(st) == 1 and st[0][0] == "out[name]" and isinstance(st[0][1], Custom) and hasattr(st[0][1].h, "elt")
        pcs = list(q.pc) + list(q.axioms)
        for cname, cc in (("column_not_named_key", z3.Not(TOPKEY)), ("column_named_key", TOPKEY)):
            if solve(pcs + [cc], 2000)[0] == PROVED:
                continue
            if not ok_store:
                post(res, f"map_zip.rows_are_dicts_of_key_and_value_rows[{cname}]", pcs + [cc], z3.BoolVal(False), timeout,
                     "out[name][:] is assigned exactly once, a comprehension over the zipped arrays", mf)
                continue
            comp = st[0][1].h
            elt, coll = comp.elt, comp.coll
            whole = isinstance(coll, Custom) and isinstance(coll.h, ZipArr) and z3.is_true(z3.simplify(comp.guard))
            if isinstance(elt, NoneV):
                goal = ROWNONE(1, iS)
            elif _is_obj(elt, DictOf):
                z = elt.h.z
                goal = z3.And(z3.BoolVal(z.k.leaf == 1 and z.v.leaf == 2 and z3.eq(z.k.i, iS) and z3.eq(z.v.i, iS)), z3.Not(ROWNONE(1, iS)))
            else:
                goal = z3.BoolVal(False)
            post(res, f"map_zip.rows_are_dicts_of_key_and_value_rows[{cname}]", pcs + [cc], z3.And(z3.BoolVal(bool(whole)), goal), timeout,
                 "row i of the result is None when row i assembled from the 'key' leaf is None, otherwise dict(zip(key row i, value row i)) - "
                 "keys from the 'key' leaf, values from the 'value' leaf, same row index, every row", mf)
        post(res, "map_zip.scratch_copy_is_dropped", pcs, z3.BoolVal(q.ghost.get("maps") is None), timeout, "maps[name] is deleted after the zip (a second MAP column starts afresh)", mf)
    if n == 0:
        res.addk("map_zip.rows_are_dicts_of_key_and_value_rows", "functional", UNKNOWN, None, 0.0, "engine", "no path through the second leaf")
    return res


def parts():
    """(label, fn(timeout) -> KResults) for every independent piece (run in a process pool by props/_assembly.py)"""
    out = [("assemble" + str(i), (lambda t, cfg=cfg: check_assemble(cfg, t))) for i, cfg in enumerate(CFGS)]
    out += [("levels.max_rep", lambda t: check_levels("max_repetition_level", t)), ("levels.max_def", lambda t: check_levels("max_definition_level", t)),
            ("levels.layout", check_layout_levels), ("is_required", check_is_required),
            ("shape.list", lambda t: check_shape("list", t)), ("shape.map", lambda t: check_shape("map", t)),
            ("core.read_col", check_read_col), ("core.v2", check_v2), ("core.map_zip", check_map_zip)]
    return out




