"""C02 / C07 / C09 / C19 - PART FILES and SUMMARY METADATA of a multi-file dataset, from the real sources of fastparquet/writer.py and
api.py:  writer.make_part_file, writer.write_common_metadata, api.ParquetFile._write_common_metadata, the loop and the closing
section of writer.write_multi, api.ParquetFile.write_row_groups (append through a handle) and the hive/drill dispatch of writer.write.

Models
  * byte-file model (contracts/filemodel.py) for the file object of make_part_file / write_common_metadata: whole-file equalities
    at a Skolem index;  make_row_group by its contract (contracts/c02_bookkeeping.py), exactly as contracts/c07_append.py uses it.
  * ThriftObject heap model (class TO): an object is a dict field -> value (cencoding.pyx: `copy` is a shallow copy of that dict,
    `obj.field = v` stores into it, a list of structs is stored / handed out as a NEW list each time).  `to_bytes()` returns a fresh
    byte string and records a SNAPSHOT of the object's fields: the postconditions about "the footer written into the file" are
    stated over the snapshot whose bytes are in the file.  thrift_object_model.* ties the model to the .pyx text.
  * a list of row groups is (length, position -> row-group identity); existing row groups are 0..N-1, a row group written in this call
    has a fresh negative identity; NumRowsOfRowGroup(id) is its num_rows.  List equalities are posed at a Skolem position.
  * every open / mkdirs / make_part_file / partition_on_columns / write_common_metadata / method call on the handle is an event of a
    ghost trace (as in contracts/c07_parts.py, whose obligations - fresh part numbers, modes, metadata-last - are NOT repeated here).

Obligations (what a VIOLATION names)
 make_part_file[fmd given].
   file_is_magic_rowgroup_footer_len_magic    content == 'PAR1' ++ <bytes make_row_group wrote> ++ F ++ le32(|F|) ++ 'PAR1' (whole file)
   file_is_a_complete_parquet_file[frame with rows] / [any frame]   on return the file holds a complete Parquet file; [any frame] is
                                              REFUTED exactly for len(data) == 0 (finding C02-P-make-part-file-empty-frame-leaves-file-empty:
                                              true of make_part_file alone; since fix f7aae56 no caller hands it an empty frame)
   footer_serialised_exactly_once             F is the one serialisation of a FileMetaData;  footer_is_serialised_from_a_copy
   footer.row_groups_is_exactly_the_row_group_written      row_groups == [rg], rg the value make_row_group returned in this call
   footer.num_rows_is_the_rows_of_this_file   num_rows == rg.num_rows (== len(data))              <- seeded change C02-m4
   footer.other_fields_are_the_datasets       schema / key_value_metadata / created_by / version / column_orders of the caller's fmd
   footer.chunks_carry_no_file_path           at serialisation no chunk of rg has a file_path (the data is in this very file)
   callers_fmd_untouched                      every field of the caller's fmd is what it was (the function works on a copy)
   returns_the_row_group_written              the value returned is rg (the caller puts it, with file_path set, into _metadata)
   row_group_written_from_the_arguments       make_row_group(f, data, schema, compression=compression, stats=stats), once
   empty_frame_returns_None_without_writing   len(data) == 0: nothing written, None returned (as make_row_group)
   footer_serialisation_does_not_raise        nothing raises after the row-group bytes are in the file (except the callee's refusals)
 make_part_file[fmd=None].  the same; footer_serialisation_does_not_raise and write_thrift.no_iteration_over_None[obj.key_value_metadata]
   are REFUTED (finding C02-P-make-part-file-default-fmd-raises): every non-empty call raises, the footer obligations are never reached
 write_common_metadata[no_row_groups=False|True|default].
   file_is_magic_footer_len_magic, footer_serialised_exactly_once, footer.row_groups_are_all_of_fmd / footer.has_no_row_groups,
   footer.num_rows_is_fmd_num_rows (_metadata) / footer.num_rows_is_dataset_total_or_zero (_common_metadata: schema-only summary,
   exempt from num_rows == sum as in the bounded oracle), footer.other_fields_are_fmds_after_consolidation, fmd_restored,
   opens_fn_wb_through_open_with_only, raises_only_before_the_file_is_opened[key or value not text | other]
   (was REFUTED before fix 4f80931 - record fixed-C02-summary-truncated-before-validation: the footer is now serialised into an
   io.BytesIO, modelled on the same byte model, BEFORE fn is opened; the bytes written to fn are that buffer's content)
   (consolidate_categories before writing: contracts/c14_cats.py write_common_metadata.consolidates_before_writing - not repeated)
 _write_common_metadata.  simple_scheme_raises_before_any_write, metadata_with_row_groups_then_common_metadata_without,
   common_metadata_is_the_sibling_of_metadata, same_fmd_and_open_with_for_both
 write_multi[append=..,partition_on=no|hive|drill].
   loop.row_groups_is_old_followed_by_written.on_entry / .preserved   (every list bound to fmd.row_groups and fmd.row_groups itself)
   part.written_into_the_file_just_opened_from_this_frame_with_dataset_schema_and_fmd, part.file_opened_under_the_root,
   part.every_chunk_gets_the_part_name_relative_to_the_root,
   part.file_opened_is_written_as_a_part_file[any frame], no_attr_of_None[rg.columns]: were REFUTED for an empty frame before fix f7aae56
   (records fixed-C02-empty-frame-zero-byte-part-file / fixed-C07-empty-frame-append-crashes); part.empty_frame_opens_no_file_and_appends_nothing:
   a frame without rows is skipped before any file is opened - `written` in the invariant are the frames WITH rows, in order
   partition.writer_gets_frame_columns_root_partname_fmd
   part.name_opened_is_numbered_past_every_existing_part[open_with | partition_on_columns]   append: the NAME actually opened / handed to the
       partition writer is part.<n>.parquet with n >= find_max_part(fmd.row_groups) - by value, whatever variable carries it: a re-binding of
       `part` from len(rg_list) / a counter is refuted (seed C18-m10: a refused append would open a live part file 'wb')
   closing.row_groups_is_old_followed_by_written, closing.num_rows_is_sum_over_all_row_groups,
   closing.metadata_holds_all_row_groups_old_then_new, closing.metadata_num_rows_is_sum_over_its_row_groups,
   closing.metadata_then_common_metadata_under_the_root, closing.summary_gets_the_datasets_fmd_and_open_with
   (fresh part numbers, open modes, metadata-last / iff write_fmd: contracts/c07_parts.py - not repeated)
 write_row_groups.  dispatch_by_the_handles_file_scheme, handle_refreshed_last,
   [multi].appends_through_write_multi_without_summary, [multi].row_groups_new_after_old_or_sorted_by_key,
   [multi].num_rows_left_as_write_multi_computed_it, [multi].steps_in_order_metadata_last_iff_write_fmd,
   [simple].appends_in_place_through_write_simple, [simple].no_summary_files_for_a_single_file
   (column check before any effect: contracts/c18_validate.py - not repeated)
 write.dispatch.  scheme_and_append_select_exactly_one_writer, fresh_multi_file_write_gets_new_metadata_and_writes_summary,
   append_goes_through_the_handle_with_summary,
   append_requires_the_existing_dataset_to_open   append=True and ParquetFile(filename, open_with) raises (FileNotFoundError | ValueError | OSError:
                                                  the handler forks these outcomes, the engine runs try/except by exception name) => write()
                                                  raises, with NO I/O effect; never falls back to a fresh write  (seed C19-m8)
   append_flag_is_not_reassigned                  no binding of `append` anywhere in write() (ast): the flag is only tested
 partition_on_columns[hive|drill].  (symbolic, group loop for one arbitrary group, make_part_file by the contract make_part_file[fmd given].* above)
   loop.returned_list_is_the_row_groups_written.on_entry / .preserved, returns_the_row_groups_written,
   group.one_directory_one_file_one_part_from_this_groups_frame, group.file_is_root_path_partname_opened_wb_after_its_directory,
   group.every_file_opened_holds_a_returned_row_group_labelled_with_it   every file opened 'wb' / directory created in the loop is matched by
        exactly one row group of the returned list whose chunks carry file_path = join_path(path, partname)      (seed C09-m12)
   group.file_opened_is_written_as_a_part_file[any group], group.only_an_empty_group_creates_nothing
 effects.  (structural, ast)  io_errors_propagate[<fn>]: no try/except (bare / Exception / BaseException / OSError / IOError) around a file
   operation whose handler does not raise on every path - one REFUTED obligation per swallowing handler, named [<fn>: <operations>];
   unclassifiable handler = unknown;  file_closed_by_with_or_raising_finally[<fn>]      (seed C19-m12)
   REFUTED on the unchanged tree: [ParquetFile.remove_row_groups: remove_with()] = finding C09-P-remove-row-groups-swallows-failed-removal
 thrift_object_model.  copy / __copy__ / __setattr__ / __getattr__ of cencoding.ThriftObject have the text the heap model encodes
Findings: contracts/findings.jsonl; native triage: tools/partf_native.py; probe: tools/partf_probe.py; canaries: canaries/C02parts.json.
"""
import ast
import itertools

import z3

from vc import backends
from vc.front_py import parse_module
from vc.symexec import (Engine, Path, Custom, Opaque, Str, PyB, PyI, BytesV, NONE, NoneV, Unsupported, Tup, Opt, AbstractComp)
from vlib.common import PROVED, REFUTED, UNKNOWN
from .filemodel import (FileH, Bts, concat, le32, eq_goal, h_struct_pack, install_byte_constants, FILE_ASSUMED)
from .util import Results, solve

I = z3.IntSort()
NR = z3.Function("NumRowsOfRowGroup", I, I)
K = z3.Int("k_skolem")          # byte position
J = z3.Int("j_skolem")          # list position
MAGIC = Bts.const(b"PAR1")
_ids = itertools.count(1)

FID_EMPTY = "C02-P-make-part-file-empty-frame-leaves-file-empty"      # what is left of the empty-frame finding after fix f7aae56
FID_NOFMD = "C02-P-make-part-file-default-fmd-raises"
FID_RMSWALLOW = "C09-P-remove-row-groups-swallows-failed-removal"


# ---- lists of row groups ----------------------------------------------------------------------------------------------------
class LV:
    """immutable VALUE of a list of row groups: length n, at(k) = identity of the k-th row group"""

    def __init__(self, n, at):
        self.n = n if z3.is_expr(n) else z3.IntVal(n)
        self.at = at

    def append(self, x):
        n0, at0 = self.n, self.at
        return LV(z3.simplify(n0 + 1), lambda k: z3.If(k == n0, x, at0(k)))

    def append_if(self, c, x):
        n0, at0 = self.n, self.at
        return LV(z3.simplify(n0 + z3.If(c, 1, 0)), lambda k: z3.If(z3.And(c, k == n0), x, at0(k)))

    def concat(self, o):
        n0, at0 = self.n, self.at
        return LV(z3.simplify(n0 + o.n), lambda k: z3.If(k < n0, at0(k), o.at(k - n0)))


def lv_const(ids):
    def at(k, ids=tuple(ids)):
        e = z3.IntVal(0)
        for i in reversed(range(len(ids))):
            e = z3.If(k == i, ids[i], e)
        return e
    return LV(len(ids), at)


def lv_eq(a, b, j=J):
    return z3.And(a.n == b.n, z3.Implies(z3.And(0 <= j, j < a.n), a.at(j) == b.at(j)))


def ev(p, *e):
    p.ghost.setdefault("ev", []).append(tuple(e))


def events(p, kind=None):
    return [e for e in p.ghost.get("ev", []) if kind is None or e[0] == kind]


class ListObj:
    """a Python list object holding row groups (mutable: append / extend); its value lives in path.ghost"""
    tracked = False

    def __init__(self, oid):
        self.oid = oid

    def val(self, p):
        return p.ghost["list:%d" % self.oid]

    def set(self, p, lv):
        p.ghost["list:%d" % self.oid] = lv

    def len(self, eng, p):
        return PyI(self.val(p).n)

    def truth(self, eng, p):
        return self.val(p).n > 0

    def nonempty(self, eng, p):
        return self.val(p).n > 0

    def is_none(self, eng, p):
        return z3.BoolVal(False)

    def arbitrary(self, eng, p):
        lv = self.val(p)
        j = eng.fresh_int("member")
        p.pc += [0 <= j, j < lv.n]
        p.ghost["last_member"] = (lv, j)
        return Custom(RG(lv.at(j)))

    def getitem(self, eng, p, i, node):
        lv = self.val(p)
        k = eng.as_int(i)
        eng.oblige(p, f"{eng.cur_func}.index_in_range[{ast.unparse(node)}]", "safety", z3.And(k >= -lv.n, k < lv.n), node)
        return Custom(RG(lv.at(z3.If(k < 0, lv.n + k, k))))

    def call_method(self, eng, p, name, args, kw, node):
        if name == "append":
            x = args[0]
            if isinstance(x, Opt):
                eng.oblige(p, f"{eng.cur_func}.row_group_appended_is_not_None[{ast.unparse(node)}]", "safety", z3.Not(x.isnone), node)
                x = x.val
            if not (isinstance(x, Custom) and isinstance(x.h, RG)):
                raise Unsupported("append of a non row group to the row-group list")
            self.set(p, self.val(p).append(x.h.rid))
            ev(p, "list_append", self.oid, x.h.key)
            return [(p, NONE)]
        if name == "extend":
            o = args[0]
            if isinstance(o, Custom) and isinstance(o.h, ListObj):
                self.set(p, self.val(p).concat(o.h.val(p)))
                ev(p, "list_extend", self.oid, o.h.oid)
                return [(p, NONE)]
            raise Unsupported("extend of the row-group list by " + type(getattr(o, "h", o)).__name__)
        raise Unsupported("row-group list." + name)


def new_list(eng, p, lv):
    lo = ListObj(next(eng.counter))
    lo.set(p, lv)
    return Custom(lo)


def as_lv(p, v):
    """value of a list expression holding row groups (a [rg] literal, a list object) or None"""
    if isinstance(v, Custom) and isinstance(v.h, ListObj):
        return v.h.val(p)
    if isinstance(v, Custom) and isinstance(v.h, SortedList):
        return v.h
    if isinstance(v, Tup) and v.is_list:
        ids = []
        for x in v.items:
            if isinstance(x, Opt):
                x = x.val
            if not (isinstance(x, Custom) and isinstance(x.h, RG)):
                return None
            ids.append(x.h.rid)
        return lv_const(ids)
    return None


class SortedList:
    """sorted(<row-group list>, key=k): a permutation of the list ordered by k - kept symbolic (value + key)"""
    tracked = False

    def __init__(self, lv, key):
        self.lv, self.key = lv, key


# ---- row groups and chunks --------------------------------------------------------------------------------------------------
class RG:
    """a RowGroup object: identity rid (z3 Int); `key` is set for row groups CREATED in this run (their chunks' file_path is tracked)"""
    tracked = False

    def __init__(self, rid, key=None):
        self.rid, self.key = rid, key

    def attr(self, eng, p, name):
        if name == "num_rows":
            return PyI(NR(self.rid))
        if name == "columns":
            return Custom(Cols(self))
        if name == "thrift_name":
            return Str("RowGroup")
        return Opaque(("rg." + name, str(self.rid)))

    def setattr(self, eng, p, name, v):
        ev(p, "rg_setattr", self.key, name)

    def is_none(self, eng, p):
        return z3.BoolVal(False)

    def truth(self, eng, p):
        return z3.BoolVal(True)


class Cols:
    tracked = False

    def __init__(self, rg):
        self.rg = rg

    def for_loop(self, eng, p, st):
        """`for chunk in rg.columns: body` - the body is run for ONE arbitrary chunk; what it does to that chunk it does to all"""
        outs = []
        for b in eng.assign(st.target, Custom(Chunk(self.rg, "all")), p):
            for r in eng.block(st.body, [b]):
                if r.ctl in (None, "continue"):
                    r.ctl = None
                elif r.ctl == "break":
                    raise Unsupported("break inside a loop over the chunks of a row group")
                outs.append(r)
        return outs

    def getitem(self, eng, p, i, node):
        return Custom(Chunk(self.rg, ast.unparse(node.slice)))

    def arbitrary(self, eng, p):
        return Custom(Chunk(self.rg, "arbitrary"))

    def len(self, eng, p):
        n = eng.fresh_int("n_columns")
        p.pc.append(n >= 0)
        return PyI(n)


class Chunk:
    tracked = False

    def __init__(self, rg, which):
        self.rg, self.which = rg, which

    def attr(self, eng, p, name):
        if name == "file_path":
            s = p.ghost.get("fp:%s" % self.rg.key) if self.rg.key is not None else None
            return s[1] if s else (NONE if self.rg.key is not None else Opaque(("file_path", str(self.rg.rid))))
        return Opaque(("chunk." + name, str(self.rg.rid)))

    def setattr(self, eng, p, name, v):
        if name == "file_path" and self.rg.key is not None:
            p.ghost["fp:%s" % self.rg.key] = (self.which, v)
        ev(p, "chunk_setattr", self.rg.key, self.which, name, v)


# ---- ThriftObject heap model -----------------------------------------------------------------------------------------------
class KV:
    """fmd.key_value_metadata (a list of KeyValue): identity + a version bumped by consolidate_categories; the validation loop of
    writer.write_thrift runs for an arbitrary entry"""
    tracked = False

    def __init__(self, kid):
        self.kid = kid

    def for_loop(self, eng, p, st):
        exit_path, body = p.fork(), p.fork()
        outs = [exit_path]
        for b in eng.assign(st.target, Opaque(("kv", next(eng.counter))), body):
            for r in eng.block(st.body, [b]):
                if r.ctl in (None, "continue", "break"):
                    continue
                outs.append(r)
        return outs

    def truth(self, eng, p):
        return eng.fresh("kv_nonempty", z3.BoolSort())

    def is_none(self, eng, p):
        return z3.BoolVal(False)


class Absent:
    """a field that is not set: reads as None; ITERATING it is a TypeError"""
    tracked = False

    def __init__(self, name):
        self.name = name

    def for_loop(self, eng, p, st):
        eng.oblige(p, f"{eng.cur_func}.no_iteration_over_None[{ast.unparse(st.iter)}]", "safety", z3.BoolVal(False), st,
                   note="iterating None raises TypeError")
        p.ctl = ("raise", "TypeError")
        p.trace.append(("raise", st.lineno))
        p.ghost["raised_in"] = f"for {ast.unparse(st.target)} in {ast.unparse(st.iter)}"
        return [p]

    def truth(self, eng, p):
        return z3.BoolVal(False)

    def is_none(self, eng, p):
        return z3.BoolVal(True)


LIST_FIELDS = {"FileMetaData": ("row_groups",), "RowGroup": ("columns",)}


class TO:
    """a ThriftObject (here: FileMetaData): fields in path.ghost['to:<oid>'] (a flat dict: Path.fork copies it)"""
    tracked = True

    def __init__(self, oid, kind="FileMetaData"):
        self.oid, self.kind = oid, kind

    def fields(self, p):
        return p.ghost["to:%d" % self.oid]

    def attr(self, eng, p, name):
        if name == "thrift_name":
            return Str(self.kind)
        f = self.fields(p)
        if name in LIST_FIELDS.get(self.kind, ()):
            v = f.get(name)
            if isinstance(v, LV):
                return new_list(eng, p, v)            # a NEW list of wrappers on every read (cencoding.pyx __getattr__)
            if isinstance(v, SortedList):
                return Custom(v)
        if name not in f or isinstance(f[name], NoneV):
            return Custom(Absent(name)) if name in ("key_value_metadata", "row_groups", "schema", "column_orders") else NONE
        return f[name]

    def setattr(self, eng, p, name, v):
        lv = as_lv(p, v)
        if isinstance(v, Opt):
            v = v.val
        p.ghost["to:%d" % self.oid] = dict(self.fields(p), **{name: lv if lv is not None else v})
        ev(p, "setattr", self.oid, name, lv if lv is not None else v)

    def is_none(self, eng, p):
        return z3.BoolVal(False)

    def truth(self, eng, p):
        return z3.BoolVal(True)

    def isinstance(self, eng, p, tn):
        return z3.BoolVal("ThriftObject" in tn)

    def call_method(self, eng, p, name, args, kw, node):
        if name == "to_bytes":
            k = next(_ids)
            b = Bts.sym(f"footer_bytes!{k}")
            p.pc += [b.n >= 0, b.n < 2 ** 32]
            snap = dict(self.fields(p))
            fps = {key[3:]: val for key, val in p.ghost.items() if key.startswith("fp:")}
            kvv = {key: val for key, val in p.ghost.items() if key.startswith("kvver:")}
            ev(p, "serialise", self.oid, self.kind, b, snap, fps, kvv)
            return [(p, BytesV(b))]
        if name in ("copy", "__copy__"):
            return [(p, to_copy(eng, p, self))]
        raise Unsupported(f"{self.kind}.{name}()")


def to_new(eng, p, fields, kind="FileMetaData"):
    t = TO(next(eng.counter), kind)
    p.ghost["to:%d" % t.oid] = dict(fields)
    return t


def to_copy(eng, p, t):
    c = to_new(eng, p, t.fields(p), t.kind)
    ev(p, "copy", t.oid, c.oid)
    return Custom(c)


def h_copy(eng, p, args, kw, node):
    v = args[0]
    if isinstance(v, Custom) and isinstance(v.h, TO):
        return [(p, to_copy(eng, p, v.h))]
    if isinstance(v, Custom) and getattr(v.h, "tracked", False):
        raise Unsupported("copy of " + type(v.h).__name__)
    return [(p, Opaque(("copy", next(eng.counter))))]


def h_ctor_fmd(eng, p, args, kw, node):
    """parquet_thrift.FileMetaData(**fields)  (ThriftObject.from_fields: the given fields, nothing else)"""
    f = {}
    for k, v in kw.items():
        lv = as_lv(p, v)
        f[k] = lv if lv is not None else (v.val if isinstance(v, Opt) else v)
    t = to_new(eng, p, f)
    ev(p, "construct", t.oid, sorted(kw))
    return [(p, Custom(t))]


def dataset_fmd(eng, p, N, DS):
    """the dataset's FileMetaData as handed in: N row groups (identities 0..N-1), num_rows DS"""
    kv = KV(next(eng.counter))
    p.ghost["kvver:%d" % kv.kid] = 0
    f = {"version": Opaque("fmd.version"), "schema": Opaque("fmd.schema"), "num_rows": PyI(DS), "row_groups": LV(N, lambda k: k),
         "key_value_metadata": Custom(kv), "created_by": Opaque("fmd.created_by"), "column_orders": Opaque("fmd.column_orders")}
    return to_new(eng, p, f), kv


def same_value(base, a, b, timeout):
    """are two field values the same? identity of proof-script objects / opaque tags; equality of ints and list values by the solver"""
    if a is b:
        return True
    if isinstance(a, LV) and isinstance(b, LV):
        return solve(base + [z3.Not(lv_eq(a, b))], timeout)[0] == PROVED
    if isinstance(a, PyI) and isinstance(b, PyI):
        return solve(base + [a.z != b.z], timeout)[0] == PROVED
    if isinstance(a, Opaque) and isinstance(b, Opaque):
        return a.tag == b.tag
    if isinstance(a, Custom) and isinstance(b, Custom):
        return a.h is b.h
    if isinstance(a, Str) and isinstance(b, Str):
        return a.s == b.s
    if isinstance(a, NoneV) and isinstance(b, NoneV):
        return True
    return False


def differing_fields(base, f0, f1, timeout, skip=()):
    out = []
    for name in sorted(set(f0) | set(f1)):
        if name in skip:
            continue
        if name not in f0 or name not in f1 or not same_value(base, f0[name], f1[name], timeout):
            out.append(name)
    return out


def show(v):
    if isinstance(v, PyI):
        return str(z3.simplify(v.z))
    if isinstance(v, LV):
        return f"<list of {z3.simplify(v.n)} row groups>"
    if isinstance(v, Opaque):
        return str(v.tag)
    if isinstance(v, Custom):
        return type(v.h).__name__
    if isinstance(v, Str):
        return repr(v.s)
    return type(v).__name__


# ---- engine -----------------------------------------------------------------------------------------------------------------
class FStr:
    tracked = False

    def __init__(self, parts):
        self.parts = parts


class PEngine(Engine):
    """+ a value that may be None and is dereferenced: obligation, and the path goes on with `not None` (the None case has raised)
       + f-strings keep their parts"""

    def getattr(self, o, attr, p, node):
        if isinstance(o, Opt) and isinstance(o.val, (Opaque, Custom)):
            self.oblige(p, f"{self.cur_func}.no_attr_of_None[{ast.unparse(node)}]", "safety", z3.Not(o.isnone), node,
                        note="AttributeError: 'NoneType' object has no attribute " + attr)
            p.pc.append(z3.Not(o.isnone))
            return self.getattr(o.val, attr, p, node)
        return Engine.getattr(self, o, attr, p, node)

    def e_JoinedStr(self, e, p):
        parts = []
        for v in e.values:
            if isinstance(v, ast.Constant):
                parts.append(Str(v.value))
            else:
                parts.append(self.ev1(v.value, p))
        return [(p, Custom(FStr(parts)))]


def discharge_engine(res, eng, prefix, timeout, model_fn=None, rename=None):
    for ob in eng.oblig:
        st, be, secs, m = backends.discharge(ob, timeout)
        nm = ob.name.split(".", 1)[-1] if "." in ob.name else ob.name
        fn = ob.name.split(".")[0]
        nm = prefix + (rename(fn, nm) if rename else nm)
        res.add(nm, st, (model_fn(m) if model_fn else {"z3_model": str(m)[:300]}) if m is not None else None, secs, be, ob.note or ob.kind)
    eng.oblig = []


def stable(fn, nm):
    """engine obligation names carry the function they arise in, not a line number"""
    if "@L" in nm:
        nm = nm.split("@L")[0]
    return (fn + "." if fn not in ("make_part_file", "write_common_metadata", "write_multi") else "") + nm


# ---- file objects -----------------------------------------------------------------------------------------------------------
def whole_file_goal(content, expected):
    return eq_goal(content, expected, K)


class Frame:
    tracked = False

    def __init__(self, n, tag="data"):
        self.n, self.tag = n, tag

    def len(self, eng, p):
        return PyI(self.n)

    def attr(self, eng, p, name):
        return Opaque((self.tag, name))

    def isinstance(self, eng, p, tn):
        return z3.BoolVal("DataFrame" in tn)


def model_of(m, **terms):
    if m is None:
        return None
    return {k: backends.model_value(m, t) for k, t in terms.items()}


# =============================================================================================================================
# 1. writer.make_part_file on the byte-file model
# =============================================================================================================================
def run_make_part_file(ctx, funcs, timeout, with_fmd):
    res = Results()
    tag = "make_part_file[fmd given]." if with_fmd else "make_part_file[fmd=None]."
    fh = FileH("partfile")
    ROWS, DS, N = z3.Int("len_data"), z3.Int("dataset_num_rows"), z3.Int("n_dataset_row_groups")
    RID = z3.Int("row_group_written")
    frame = Frame(ROWS)
    schema_arg, comp_arg, stats_arg = Opaque("arg:schema"), Opaque("arg:compression"), Opaque("arg:stats")
    rg_new = RG(RID, key="new")

    def h_make_row_group(eng, p, args, kw, node):
        """contract (contracts/c02_bookkeeping.py make_row_group.*): writes only at/after the current position, may raise after writing
        >= 0 bytes; returns None WITHOUT writing iff len(data) == 0, else a row group with num_rows == len(data) whose chunks are the
        chunks just written (no file_path)"""
        if not (isinstance(args[0], Custom) and args[0].h is fh):
            raise Unsupported("make_row_group called with something that is not the file handed in")
        ok_args = (len(args) >= 3 and isinstance(args[1], Custom) and args[1].h is frame and args[2] is schema_arg
                   and kw.get("compression") is comp_arg and kw.get("stats") is stats_arg) or \
                  (len(args) == 5 and isinstance(args[1], Custom) and args[1].h is frame and args[2] is schema_arg and args[3] is comp_arg
                   and args[4] is stats_arg)
        ev(p, "make_row_group", ok_args)
        outs = []
        for kind in ("ok", "raise"):
            q = p.fork()
            s = dict(fh.st(q))
            k = next(_ids)
            f = z3.Function(f"rg_bytes_at!{k}", I, z3.BitVecSort(8))
            n1, pos1 = z3.Int(f"n_rg!{k}"), z3.Int(f"pos_rg!{k}")
            old, pos0 = s["content"], s["pos"]
            q.pc += [pos1 >= pos0, n1 == z3.If(pos1 > old.n, pos1, old.n),
                     z3.Implies(z3.And(0 <= K, K < pos0), f(K) == old.at(K)),
                     z3.Implies(pos1 == pos0, z3.And(n1 == old.n, z3.Implies(0 <= K, f(K) == old.at(K))))]
            q.ghost["rg_span"] = (pos0, pos1, f)
            s["content"], s["pos"] = Bts(n1, lambda i, f=f: f(i)), pos1
            s["writes"] += 1
            q.ghost[fh.key] = s
            if kind == "raise":
                q.ctl = ("raise", "ValueError")
                q.ghost["raised_in"] = "make_row_group"
                outs.append((q, NONE))
            else:
                q.pc += [z3.Implies(ROWS == 0, pos1 == pos0), NR(RID) == ROWS, RID < 0]
                outs.append((q, Opt(ROWS == 0, Custom(rg_new))))
        return outs
    handlers = {"make_row_group": h_make_row_group, "struct.pack": h_struct_pack, "copy": h_copy, "copy.copy": h_copy,
                "parquet_thrift.FileMetaData": h_ctor_fmd, "with_exit": lambda e, q, st: [q]}
    eng = PEngine(funcs=funcs, handlers=handlers, inline=("write_thrift",), opaque_calls=True)
    install_byte_constants(eng)
    p = Path()
    p.pc += [ROWS >= 0, N >= 0, DS >= 0]
    fh.init(p, Bts(0, lambda i: z3.BitVecVal(0, 8)), 0)        # the caller has just opened the file 'wb': empty, position 0
    if with_fmd:
        fmd0, kv0 = dataset_fmd(eng, p, N, DS)
        fields0 = dict(fmd0.fields(p))
        fmd_arg = Custom(fmd0)
    else:
        fmd0, fields0, fmd_arg = None, None, NONE
    outs = eng.run("make_part_file", p, [Custom(fh), Custom(frame), schema_arg], {"compression": comp_arg, "fmd": fmd_arg, "stats": stats_arg})
    discharge_engine(res, eng, tag, timeout, lambda m: model_of(m, len_data=ROWS, dataset_num_rows=DS), stable)
    n_ret = 0
    for q in outs:
        s = fh.st(q)
        c1 = s["content"]
        base = list(q.pc) + list(q.axioms)
        sers = events(q, "serialise")
        if q.ctl[0] == "raise":
            if q.ghost.get("raised_in") == "make_row_group" or (q.ghost.get("raised_in") is None and q.ctl[1] == "TypeError"):
                continue      # the callee refused the frame / write_thrift refused a key or value that is not text: propagates (C18 territory)
            res.add(tag + "footer_serialisation_does_not_raise", REFUTED,
                    {"raises": q.ctl[1], "at": q.ghost.get("raised_in"), "bytes_written_before": str(z3.simplify(c1.n))}, 0.0, "trace",
                    "a non-empty frame is written completely: no exception after the row group bytes are in the file")
            continue
        n_ret += 1
        rv = q.ctl[1]
        empty = solve(base + [ROWS != 0], timeout)[0] == PROVED
        # ---- a complete Parquet file, whatever the frame ----
        if empty:
            ok = s["writes"] == 0 and isinstance(rv, NoneV)
            res.add(tag + "empty_frame_returns_None_without_writing", PROVED if ok else REFUTED, None if ok else {"writes": s["writes"]}, 0.0,
                    "trace", "len(data) == 0: nothing is written to the file and None is returned (as make_row_group does)")
            st, m, secs = solve(base + [z3.Not(c1.n >= 12)], timeout)
            res.add(tag + "file_is_a_complete_parquet_file[any frame]", st, model_of(m, len_data=ROWS, file_length=c1.n), secs, "z3",
                    "on return the file the caller opened holds magic, footer, footer length, magic - for EVERY frame, incl. one without rows")
            continue
        res.add(tag + "empty_frame_returns_None_without_writing", PROVED, None, 0.0, "trace")
        span = q.ghost.get("rg_span")
        n_mrg = len(events(q, "make_row_group"))
        okm = n_mrg == 1 and events(q, "make_row_group")[0][1]
        res.add(tag + "row_group_written_from_the_arguments", PROVED if okm else REFUTED, None if okm else {"make_row_group_calls": n_mrg}, 0.0,
                "trace", "make_row_group(f, data, schema, compression=compression, stats=stats) is called exactly once, on the file handed in")
        ok1 = len(sers) == 1 and sers[0][2] == "FileMetaData"
        res.add(tag + "footer_serialised_exactly_once", PROVED if ok1 else REFUTED, None if ok1 else {"serialisations": len(sers)}, 0.0, "trace",
                "exactly one FileMetaData is serialised into the file")
        if not ok1 or span is None or n_mrg != 1:
            continue
        _, soid, _, F, snap, fps, _ = sers[0]
        pos0, pos1, f = span
        rgb = Bts(pos1 - pos0, lambda i: f(pos0 + i))
        expected = concat(MAGIC, rgb, F, le32(F.n), MAGIC)
        # (the row-group bytes are whatever make_row_group wrote from position pos0 on; that pos0 == 4 is part of the goal)
        st, m, secs = solve(base + [z3.Not(z3.And(pos0 == 4, whole_file_goal(c1, expected)))], timeout)
        res.add(tag + "file_is_magic_rowgroup_footer_len_magic", st,
                model_of(m, file_length=c1.n, expected_length=expected.n, footer_length=F.n, row_group_starts_at=pos0, differs_at=K), secs, "z3",
                "content == 'PAR1' ++ row-group bytes ++ F ++ le32(|F|) ++ 'PAR1'  (whole file: nothing before, between or after)")
        st, m, secs = solve(base + [z3.Not(c1.n >= 12)], timeout)
        for nm in ("[any frame]", "[frame with rows]"):
            res.add(tag + "file_is_a_complete_parquet_file" + nm, st, model_of(m, len_data=ROWS, file_length=c1.n), secs, "z3",
                    "on return the file holds at least magic + footer length + magic (the exact content: file_is_magic_rowgroup_footer_len_magic)")
        # ---- the footer ----
        rgs = snap.get("row_groups")
        if isinstance(rgs, LV):
            st, m, secs = solve(base + [z3.Not(z3.And(rgs.n == 1, rgs.at(z3.IntVal(0)) == RID))], timeout)
            mdl = model_of(m, row_groups_in_footer=rgs.n, n_dataset_row_groups=N)
        else:
            st, mdl, secs = REFUTED, {"row_groups": show(rgs) if rgs is not None else "not set"}, 0.0
        res.add(tag + "footer.row_groups_is_exactly_the_row_group_written", st, mdl, secs, "z3",
                "FileMetaData.row_groups of the part file == [rg]: the ONE row group whose bytes are in this file")
        nr = snap.get("num_rows")
        if isinstance(nr, (PyI, Opt)):
            z = nr.z if isinstance(nr, PyI) else eng.as_int(nr.val)
            st, m, secs = solve(base + [z3.Not(z == NR(RID))], timeout)
            mdl = model_of(m, num_rows_in_footer=z, rows_in_this_file=NR(RID), dataset_num_rows=DS)
        else:
            st, mdl, secs = REFUTED, {"num_rows": show(nr) if nr is not None else "not set"}, 0.0
        res.add(tag + "footer.num_rows_is_the_rows_of_this_file", st, mdl, secs, "z3",
                "FileMetaData.num_rows of the part file == rg.num_rows == len(data), not the row count of the dataset")
        if with_fmd:
            # must-fail guard (independent of the code under test): the hypotheses of this path do not identify the rows of this file with
            # the rows of the dataset, nor the file's row group with an existing one - `num_rows == dataset num_rows` is not a consequence
            if solve(base + [NR(RID) != DS, N > 0], 2000)[0] == REFUTED:
                ctx.vacuity["must_fail_sat"] += 1
            else:
                ctx.engine_error(tag + " vacuity: the path condition forces len(data) == dataset num_rows")
        if with_fmd:
            diff = differing_fields(base, fields0, snap, timeout, skip=("row_groups", "num_rows"))
            res.add(tag + "footer.other_fields_are_the_datasets", PROVED if not diff else REFUTED, None if not diff else {"fields": diff}, 0.0,
                    "trace+z3", "schema, key_value_metadata, created_by, version, column_orders of the footer are those of the caller's fmd")
            now = fmd0.fields(q)
            diff = differing_fields(base, fields0, now, timeout)
            res.add(tag + "callers_fmd_untouched", PROVED if not diff else REFUTED,
                    None if not diff else {"fields_changed": {d: [show(fields0.get(d)), show(now.get(d))] for d in diff}}, 0.0, "trace+z3",
                    "the caller's fmd is not mutated: row_groups, num_rows and every other field are what they were (work on a copy)")
            okc = soid != fmd0.oid
            res.add(tag + "footer_is_serialised_from_a_copy", PROVED if okc else REFUTED, None, 0.0, "trace")
        else:
            want = {"schema": schema_arg, "version": PyI(1)}
            bad = [k for k, v in want.items() if k not in snap or not same_value(base, v, snap[k], timeout)]
            cb = snap.get("created_by")
            if not (isinstance(cb, Custom) and isinstance(cb.h, FStr)) and not (isinstance(cb, Opaque) and "created_by" in str(cb.tag)):
                bad.append("created_by")
            bad += [k for k in snap if k not in ("schema", "version", "created_by", "row_groups", "num_rows", "i32list")]
            res.add(tag + "footer.schema_is_the_argument_version_1_created_by_this_library", PROVED if not bad else REFUTED,
                    None if not bad else {"fields": bad}, 0.0, "trace+z3")
        okfp = not fps.get("new")
        res.add(tag + "footer.chunks_carry_no_file_path", PROVED if okfp else REFUTED, None if okfp else {"file_path": show(fps["new"][1])}, 0.0,
                "trace", "no chunk of the row group has a file_path when the part file's own footer is serialised (the data is in this file)")
        okr = isinstance(rv, Opt) and isinstance(rv.val, Custom) and rv.val.h is rg_new or (isinstance(rv, Custom) and rv.h is rg_new)
        res.add(tag + "returns_the_row_group_written", PROVED if okr else REFUTED, None if okr else {"returns": show(rv)}, 0.0, "trace",
                "the row group returned (for _metadata) is the row group object written into this file")
    if tag + "footer_serialisation_does_not_raise" not in res.d:
        res.add(tag + "footer_serialisation_does_not_raise", PROVED, None, 0.0, "trace",
                "no path raises except make_row_group refusing the frame and write_thrift refusing a key/value that is not text")
    if n_ret == 0:
        ctx.engine_error(tag + " no returning path")
    ctx.vacuity["covers"] += n_ret
    if solve(list(p.pc) + [ROWS == 3, N == 2, DS == 7], 2000)[0] == REFUTED:
        ctx.vacuity["requires_sat"] += 1
    return res


# =============================================================================================================================
# 2. writer.write_common_metadata on the byte-file model; api.ParquetFile._write_common_metadata
# =============================================================================================================================
def run_write_common_metadata(ctx, funcs, timeout, nrg):
    """nrg in (True, False, None): the no_row_groups argument (None: left to its default)"""
    res = Results()
    tag = f"write_common_metadata[no_row_groups={'default' if nrg is None else nrg}]."
    strip = nrg is not False
    N, DS = z3.Int("n_dataset_row_groups"), z3.Int("dataset_num_rows")
    fn_arg = Opaque("arg:fn")
    files = {}

    def opener(via):
        def h(eng, p, args, kw, node):
            mode = args[1] if len(args) > 1 else kw.get("mode", Str("r"))
            mode = mode.s if isinstance(mode, Str) else "?"
            k = next(_ids)
            fh = FileH(f"file{k}")
            files[fh.key] = fh
            if mode == "wb":
                fh.init(p, Bts(0, lambda i: z3.BitVecVal(0, 8)), 0)
            else:                              # not truncated: whatever was there stays; 'ab' starts at the end
                old = Bts.sym(f"previous_content!{k}")
                p.pc += [old.n >= 0]
                fh.init(p, old, old.n if mode.startswith("a") else 0)
            ev(p, "open", fh.key, args[0], mode, via)
            return [(p, Custom(fh))]
        return h

    class BufH(FileH):
        """io.BytesIO(): an in-memory file on the same byte model (empty, position 0); getvalue() is its whole content"""

        def call_method(self, eng, p, name, args, kw, node):
            if name == "getvalue":
                return [(p, BytesV(self.st(p)["content"]))]
            return FileH.call_method(self, eng, p, name, args, kw, node)

    def h_bytesio(eng, p, args, kw, node):
        if args or kw:
            raise Unsupported("io.BytesIO(initial bytes)")
        b = BufH(f"buffer{next(_ids)}")
        b.init(p, Bts(0, lambda i: z3.BitVecVal(0, 8)), 0)
        ev(p, "buffer", b.key)
        return [(p, Custom(b))]

    def h_consolidate(eng, p, args, kw, node):
        """contracts/c14_cats.py: only rewrites the value of the b'pandas' entry of fmd.key_value_metadata (num_categories)"""
        v = args[0]
        if not (isinstance(v, Custom) and isinstance(v.h, TO)):
            raise Unsupported("consolidate_categories of a non FileMetaData")
        kvo = v.h.fields(p).get("key_value_metadata")
        if isinstance(kvo, Custom) and isinstance(kvo.h, KV):
            p.ghost["kvver:%d" % kvo.h.kid] = p.ghost["kvver:%d" % kvo.h.kid] + 1
        ev(p, "consolidate", v.h.oid)
        return [(p, NONE)]
    handlers = {"open_with": opener("open_with"), "open": opener("open"), "default_open": opener("default_open"),
                "consolidate_categories": h_consolidate, "struct.pack": h_struct_pack, "copy": h_copy, "copy.copy": h_copy,
                "io.BytesIO": h_bytesio, "BytesIO": h_bytesio, "with_exit": lambda e, q, st: [q]}
    eng = PEngine(funcs=funcs, handlers=handlers, inline=("write_thrift",), opaque_calls=True)
    install_byte_constants(eng)
    p = Path()
    p.pc += [N >= 0, DS >= 0]
    fmd0, kv0 = dataset_fmd(eng, p, N, DS)
    fields0 = dict(fmd0.fields(p))
    args = [fn_arg, Custom(fmd0), Opaque("func:open_with")]
    if nrg is not None:
        args.append(PyB(nrg))
    outs = eng.run("write_common_metadata", p, args, {})
    discharge_engine(res, eng, tag, timeout, None, stable)
    n_ret = 0
    for q in outs:
        base = list(q.pc) + list(q.axioms)
        if q.ctl[0] == "raise":
            opens = events(q, "open")
            ok = not opens
            ln = next((l for k_, l in reversed(q.trace) if k_ == "raise"), 0)
            lo, hi = funcs["write_thrift"].lines
            why = "key or value not text" if (q.ctl[1] == "TypeError" and lo <= ln <= hi and q.ghost.get("raised_in") is None) else "other"
            res.add(tag + f"raises_only_before_the_file_is_opened[{why}]", PROVED if ok else REFUTED,
                    None if ok else {"raised": q.ctl[1], "at_line": ln, "file_length_then": str(z3.simplify(files[opens[0][1]].st(q)["content"].n))},
                    0.0, "trace", "a refusal (TypeError for a key/value that is neither str nor bytes) comes BEFORE the summary file is opened "
                    "'wb' = truncated: a rejected call leaves the existing _metadata as it was")
            continue
        n_ret += 1
        opens = events(q, "open")
        ok = len(opens) == 1 and opens[0][2] is fn_arg and opens[0][3] == "wb" and opens[0][4] == "open_with"
        res.add(tag + "opens_fn_wb_through_open_with_only", PROVED if ok else REFUTED,
                None if ok else {"opens": [(show(o[2]), o[3], o[4]) for o in opens]}, 0.0, "trace",
                "exactly one file is opened: fn, mode 'wb', through the caller's open_with")
        sers = events(q, "serialise")
        ok1 = len(sers) == 1 and sers[0][2] == "FileMetaData"
        res.add(tag + "footer_serialised_exactly_once", PROVED if ok1 else REFUTED, None if ok1 else {"serialisations": len(sers)}, 0.0, "trace")
        now = fmd0.fields(q)
        diff = differing_fields(base, fields0, now, timeout)
        res.add(tag + "fmd_restored", PROVED if not diff else REFUTED,
                None if not diff else {"fields_changed": {d: [show(fields0.get(d)), show(now.get(d))] for d in diff}}, 0.0, "trace+z3",
                "on return the fmd handed in has the row_groups, num_rows and fields it had (stripping the row groups for "
                "_common_metadata happens on a copy or is undone)")
        if not ok1 or len(opens) != 1:
            continue
        _, soid, _, F, snap, fps, kvv = sers[0]
        c1 = files[opens[0][1]].st(q)["content"]
        expected = concat(MAGIC, F, le32(F.n), MAGIC)
        st, m, secs = solve(base + [z3.Not(whole_file_goal(c1, expected))], timeout)
        res.add(tag + "file_is_magic_footer_len_magic", st, model_of(m, file_length=c1.n, expected_length=expected.n, differs_at=K), secs, "z3",
                "content == 'PAR1' ++ F ++ le32(|F|) ++ 'PAR1'  (whole file)")
        if solve(base + [N > 0, DS > 0, F.n > 0], 2000)[0] == REFUTED:      # vacuity guard: a dataset with row groups, a non-empty footer
            ctx.vacuity["must_fail_sat"] += 1
        else:
            ctx.engine_error(tag + " vacuity: the path condition excludes a non-empty dataset")
        rgs = snap.get("row_groups")
        if strip:
            if isinstance(rgs, LV):
                st, m, secs = solve(base + [z3.Not(rgs.n == 0)], timeout)
                mdl = model_of(m, row_groups_in_footer=rgs.n)
            else:
                st, mdl, secs = REFUTED, {"row_groups": show(rgs) if rgs is not None else "not set"}, 0.0
            res.add(tag + "footer.has_no_row_groups", st, mdl, secs, "z3", "_common_metadata: the footer lists NO row groups")
            nr = snap.get("num_rows")
            if isinstance(nr, PyI):
                st, m, secs = solve(base + [z3.Not(z3.Or(nr.z == DS, nr.z == 0))], timeout)
                mdl = model_of(m, num_rows_in_footer=nr.z, dataset_num_rows=DS)
            else:
                st, mdl, secs = REFUTED, {"num_rows": show(nr) if nr is not None else "not set"}, 0.0
            res.add(tag + "footer.num_rows_is_dataset_total_or_zero", st, mdl, secs, "z3",
                    "_common_metadata (schema-only summary): num_rows is the dataset's row count, or 0 for `no rows in this file`")
        else:
            if isinstance(rgs, LV):
                st, m, secs = solve(base + [z3.Not(lv_eq(rgs, fields0["row_groups"]))], timeout)
                mdl = model_of(m, row_groups_in_footer=rgs.n, n_dataset_row_groups=N, differs_at=J)
            else:
                st, mdl, secs = REFUTED, {"row_groups": show(rgs) if rgs is not None else "not set"}, 0.0
            res.add(tag + "footer.row_groups_are_all_of_fmd", st, mdl, secs, "z3", "_metadata: the footer lists ALL row groups of fmd, in order")
            nr = snap.get("num_rows")
            if isinstance(nr, PyI):
                st, m, secs = solve(base + [z3.Not(nr.z == DS)], timeout)
                mdl = model_of(m, num_rows_in_footer=nr.z, dataset_num_rows=DS)
            else:
                st, mdl, secs = REFUTED, {"num_rows": show(nr) if nr is not None else "not set"}, 0.0
            res.add(tag + "footer.num_rows_is_fmd_num_rows", st, mdl, secs, "z3", "_metadata: num_rows is fmd.num_rows (the caller makes it the sum)")
        diff = differing_fields(base, now, snap, timeout, skip=("row_groups", "num_rows"))
        kv_now = {k: v for k, v in q.ghost.items() if k.startswith("kvver:")}
        if kvv != kv_now:
            diff.append("key_value_metadata (serialised before consolidate_categories)")
        if not events(q, "consolidate"):
            diff.append("key_value_metadata (never consolidated)")
        res.add(tag + "footer.other_fields_are_fmds_after_consolidation", PROVED if not diff else REFUTED, None if not diff else {"fields": diff},
                0.0, "trace+z3", "schema, created_by, version and the (consolidated) key_value_metadata of the footer are those of fmd")
    if n_ret == 0:
        ctx.engine_error(tag + " no returning path")
    ctx.vacuity["covers"] += n_ret
    return res


class SymScheme:
    """self.file_scheme: a symbolic string, only compared with literals"""
    tracked = False

    def __init__(self, name="self_file_scheme"):
        self.name = name

    def eq(self, eng, p, other):
        if isinstance(other, Str):
            return z3.Bool(f"[{self.name} == {other.s!r}]")
        raise Unsupported("file_scheme compared with " + type(other).__name__)

    def contains_in(self, items):
        return z3.Or(*[z3.Bool(f"[{self.name} == {s!r}]") for s in items])

    def is_none(self, eng, p):
        return z3.BoolVal(False)


def scheme_axioms(name, lits=("simple", "hive", "drill", "flat", "empty", "other")):
    bs = [z3.Bool(f"[{name} == {s!r}]") for s in lits]
    return [z3.AtMost(*bs, 1)]


class FnStr:
    """self.fn: text ending in '_metadata' (handles of multi-file datasets); fn[:-9] is its directory prefix"""
    tracked = False

    def slice(self, eng, p, lo, hi, node):
        lo_ok = lo is None
        h = z3.simplify(eng.as_int(hi)) if hi is not None else None
        return Custom(FnPart(lo_ok and h is not None and z3.is_int_value(h) and h.as_long() == -9, ast.unparse(node)))

    def getitem(self, eng, p, i, node):
        return Opaque(("self.fn[]", ast.unparse(node)))


class FnPart:
    tracked = False

    def __init__(self, is_prefix, text):
        self.is_prefix, self.text = is_prefix, text

    def eq(self, eng, p, other):
        return eng.fresh("fn_part_eq", z3.BoolSort())


def run_pf_write_common_metadata(ctx, funcs, timeout):
    res = Results()
    tag = "_write_common_metadata."
    N, DS = z3.Int("n_dataset_row_groups"), z3.Int("dataset_num_rows")
    fnv = Custom(FnStr())
    ow = Opaque("arg:open_with")

    class SelfPF:
        tracked = True

        def __init__(self, fmd):
            self.fmd = fmd

        def attr(self, eng, p, name):
            if name == "file_scheme":
                return Custom(SymScheme())
            if name == "fn":
                return fnv
            if name == "fmd":
                return Custom(self.fmd)
            return Opaque(("self." + name,))

        def call_method(self, eng, p, name, args, kw, node):
            ev(p, "self_call", name)
            return [(p, NONE)]

    def h_wcm(eng, p, args, kw, node):
        nrg = args[3] if len(args) > 3 else kw.get("no_row_groups", PyB(True))
        ev(p, "wcm", args[0], args[1], args[2] if len(args) > 2 else kw.get("open_with"), nrg)
        return [(p, NONE)]
    eng = PEngine(funcs=funcs, handlers={"write_common_metadata": h_wcm}, opaque_calls=True)
    p = Path()
    p.pc += [N >= 0, DS >= 0] + scheme_axioms("self_file_scheme")
    fmd0, _ = dataset_fmd(eng, p, N, DS)
    outs = eng.run("ParquetFile._write_common_metadata", p, [Custom(SelfPF(fmd0)), ow], {})
    discharge_engine(res, eng, tag, timeout, None, stable)
    simple = z3.Bool("[self_file_scheme == 'simple']")
    for q in outs:
        base = list(q.pc) + list(q.axioms)
        w = events(q, "wcm")
        if q.ctl[0] == "raise":
            ok = not w and solve(base + [z3.Not(simple)], timeout)[0] == PROVED
            res.add(tag + "simple_scheme_raises_before_any_write", PROVED if ok else REFUTED, None if ok else {"writes_before": len(w)}, 0.0,
                    "trace+z3", "a single-file dataset has no summary files: ValueError, nothing written; nothing else raises")
            continue
        st, _, secs = solve(base + [simple], timeout)
        res.add(tag + "simple_scheme_raises_before_any_write", st, None, secs, "z3", "no returning path has file_scheme == 'simple'")
        nrgs = [z3.simplify(eng.truth(x[4], q)) for x in w]
        ok = len(w) == 2 and z3.is_false(nrgs[0]) and z3.is_true(nrgs[1])
        res.add(tag + "metadata_with_row_groups_then_common_metadata_without", PROVED if ok else REFUTED,
                None if ok else {"calls": [(show(x[1]), str(n)) for x, n in zip(w, nrgs)]}, 0.0, "trace",
                "two files: first with no_row_groups=False (all row groups), then with no_row_groups true (none)")
        if len(w) != 2:
            continue
        p2 = w[1][1]
        ok = w[0][1] is fnv and isinstance(p2, Custom) and isinstance(p2.h, FStr) and len(p2.h.parts) == 2 and \
            isinstance(p2.h.parts[0], Custom) and isinstance(p2.h.parts[0].h, FnPart) and p2.h.parts[0].h.is_prefix and \
            isinstance(p2.h.parts[1], Str) and p2.h.parts[1].s == "_common_metadata"
        res.add(tag + "common_metadata_is_the_sibling_of_metadata", PROVED if ok else REFUTED, None if ok else {"second_path": show(p2)}, 0.0,
                "trace", "first file: self.fn (= <root>/_metadata); second: self.fn[:-9] + '_common_metadata' (same directory)")
        ok = all(isinstance(x[2], Custom) and x[2].h is fmd0 and x[3] is ow for x in w)
        res.add(tag + "same_fmd_and_open_with_for_both", PROVED if ok else REFUTED, None, 0.0, "trace",
                "both files are written from self.fmd through the open_with handed in")
    ctx.vacuity["covers"] += sum(1 for q in outs if q.ctl[0] == "ret")
    return res


# =============================================================================================================================
# 3. writer.write_multi: the part loop and the closing section
# =============================================================================================================================
class PartName:
    tracked = False

    def __init__(self, n):
        self.n = n


class JoinedPath:
    tracked = False

    def __init__(self, parts):
        self.parts = parts


class FileTok:
    tracked = True

    def __init__(self, k):
        self.k = k

    def call_method(self, eng, p, name, args, kw, node):
        if name in ("close", "flush", "__exit__", "__enter__"):
            return [(p, Custom(self) if name == "__enter__" else NONE)]
        ev(p, "file_method", self.k, name)
        return [(p, Opaque(("file", name)))]

    def truth(self, eng, p):
        return z3.BoolVal(True)


def assigned_names(stmts):
    out = set()
    for st in stmts:
        for n in ast.walk(st):
            if isinstance(n, ast.Name) and isinstance(n.ctx, ast.Store):
                out.add(n.id)
    return out


def run_write_multi(ctx, funcs, timeout, append, partition, scheme="hive"):
    """the loop invariant first includes fmd.row_groups (the code re-binds it in every iteration); if exactly that conjunct is not
    preserved (a refactoring that re-binds it once, after the loop) the run is repeated with the weaker invariant over the local lists
    only - the postconditions closing.* are the same in both"""
    res = _run_write_multi(ctx, funcs, timeout, append, partition, scheme, True)
    nm = [n for n in res.order if n.endswith("loop.row_groups_is_old_followed_by_written.preserved")]
    if nm and res.status(nm[0]) == REFUTED and all((e[1] or {}).get("list") == "fmd.row_groups" for e in res.d[nm[0]] if e[0] == REFUTED):
        res2 = _run_write_multi(ctx, funcs, timeout, append, partition, scheme, False)
        if not any(res2.status(n) == REFUTED and res.status(n) != REFUTED for n in res2.order):
            return res2
    return res


def _run_write_multi(ctx, funcs, timeout, append, partition, scheme, inv_fmd):
    res = Results()
    tag = f"write_multi[append={append},partition_on={'no' if not partition else scheme}]."
    N, DS = z3.Int("n_dataset_row_groups"), z3.Int("dataset_num_rows")
    FLEN = z3.Function("RowsOfFrame", I, I)
    dn = Opaque("arg:dn")
    comp_arg, stats_arg, ow, mk = Opaque("arg:compression"), Opaque("arg:stats"), Opaque("arg:open_with"), Opaque("arg:mkdirs")
    pon = Tup([Str("a")], True) if partition else Tup([], True)
    OLD = LV(N, lambda k: k)
    is_df = z3.Bool("data_is_a_DataFrame")
    st_holder = {}

    def produced(p):
        return p.ghost.get("produced", LV(0, lambda k: z3.IntVal(0)))

    def want(p):
        return OLD.concat(produced(p))

    class DataIter:
        tracked = False

        def isinstance(self, eng, p, tn):
            return is_df if "DataFrame" in tn else z3.BoolVal(False)

        def enumerate(self, eng, p):
            return Custom(Enumerated())

        def for_loop(self, eng, p, st):
            raise Unsupported("the frames are iterated without enumerate")

    class Enumerated:
        tracked = False

        def tracking(self, p, fmd):
            """(description, list value) of everything that must be `old ++ written so far`"""
            out = [("fmd.row_groups", fmd.fields(p).get("row_groups"))] if inv_fmd else []
            for name, v in sorted(p.env.items()):
                if isinstance(v, Custom) and isinstance(v.h, ListObj):
                    out.append((name, v.h.val(p)))
            return out

        def for_loop(self, eng, p, st):
            fmd = st_holder["fmd"]
            # which list variables track fmd.row_groups on entry (rg_list = fmd.row_groups)?  proved, then havoc'd with it
            track = []
            for name, lv in self.tracking(p, fmd):
                if not isinstance(lv, LV):
                    raise Unsupported("fmd.row_groups is not a list on loop entry")
                s, m, secs = solve(list(p.pc) + [z3.Not(lv_eq(lv, want(p)))], timeout)
                if name == "fmd.row_groups" or s == PROVED:
                    res.add(tag + "loop.row_groups_is_old_followed_by_written.on_entry", s, model_of(m, length=lv.n, n_dataset_row_groups=N), secs,
                            "z3", "before the first part: fmd.row_groups (and every list bound to it) == the existing row groups")
                    track.append(name)
            outs = []
            body_names = assigned_names(st.body)
            for kind in ("exit", "body"):
                q = p.fork()
                # ---- havoc: an arbitrary number of parts has been written ----
                k = next(_ids)
                PAT = z3.Function(f"written_rg!{k}", I, I)
                P = z3.Int(f"n_written!{k}")
                q.pc += [P >= 0]
                q.ghost["produced"] = LV(P, lambda j, PAT=PAT: PAT(j))
                for name in track:
                    if name == "fmd.row_groups":
                        q.ghost["to:%d" % fmd.oid] = dict(fmd.fields(q), row_groups=want(q))
                    else:
                        q.env[name].h.set(q, want(q))
                if not inv_fmd:         # fmd.row_groups is not part of the invariant: arbitrary at the loop head
                    k2 = next(_ids)
                    ARB = z3.Function(f"arbitrary_rg!{k2}", I, I)
                    q.ghost["to:%d" % fmd.oid] = dict(fmd.fields(q), row_groups=LV(z3.Int(f"n_arbitrary!{k2}"), lambda j, ARB=ARB: ARB(j)))
                q.ghost["loop_ev_start"] = len(q.ghost.get("ev", []))
                if kind == "exit":
                    q.ghost["after_loop"] = True
                    outs.append(q)
                    continue
                for name in body_names:
                    if name in q.env and name not in track:
                        q.env[name] = Opaque(("stale", name))
                i = eng.fresh_int("i_part")
                q.pc.append(i >= 0)
                q.pc.append(FLEN(i) >= 0)
                q.ghost["in_loop"] = i
                frame = Frame(FLEN(i), tag="frame")
                q.ghost["cur_frame"] = frame
                for b in eng.assign(st.target, Tup([PyI(i), Custom(frame)]), q):
                    for r in eng.block(st.body, [b]):
                        if r.ctl in (None, "continue"):
                            self.end_of_body(eng, r, st, fmd, track, i, frame)
                        elif r.ctl == "break":
                            raise Unsupported("break in the part loop")
                        else:
                            outs.append(r)
            return outs

        def end_of_body(self, eng, r, st, fmd, track, i, frame):
            base = list(r.pc) + list(r.axioms)
            evs = r.ghost.get("ev", [])[r.ghost["loop_ev_start"]:]
            for name, lv in self.tracking(r, fmd):
                if name not in track:
                    continue
                if not isinstance(lv, LV):
                    res.add(tag + "loop.row_groups_is_old_followed_by_written.preserved", REFUTED, {"list": name, "value": show(lv)}, 0.0, "trace")
                    continue
                s, m, secs = solve(base + [z3.Not(lv_eq(lv, want(r)))], timeout)
                res.add(tag + "loop.row_groups_is_old_followed_by_written.preserved", s,
                        dict(model_of(m, length=lv.n, expected_length=want(r).n, differs_at=J) or {}, list=name) if m is not None else None, secs,
                        "z3", "after each part: fmd.row_groups (and the list bound to it) == existing row groups ++ the row groups written so "
                        "far, in the order written (nothing lost, duplicated or reordered; fmd.row_groups re-bound after the append)")
            bad = [e for e in evs if e[0] == "setattr" and e[1] == fmd.oid and e[2] != "row_groups"]
            if bad:
                raise Unsupported("the part loop assigns fmd." + bad[0][2])
            opens = [e for e in evs if e[0] == "open"]
            mpf = [e for e in evs if e[0] == "make_part_file"]
            poc = [e for e in evs if e[0] == "partition_on_columns"]
            if partition:
                ok = len(poc) == 1 and not opens and not mpf
                if ok:
                    a, kw = poc[0][1], poc[0][2]
                    wf = kw.get("with_field")
                    ok = (len(a) >= 8 and isinstance(a[0], Custom) and a[0].h is frame and a[1] is pon and a[2] is dn
                          and isinstance(a[3], Custom) and isinstance(a[3].h, PartName) and isinstance(a[4], Custom) and a[4].h is fmd
                          and a[5] is comp_arg and a[6] is ow and a[7] is not None and kw.get("stats") is stats_arg
                          and isinstance(wf, PyB) and z3.is_true(z3.simplify(wf.z == z3.BoolVal(scheme == "hive"))))
                res.add(tag + "partition.writer_gets_frame_columns_root_partname_fmd", PROVED if ok else REFUTED,
                        None if ok else {"calls": len(poc), "opens": len(opens)}, 0.0, "trace",
                        "partition_on_columns(this frame, partition_on, dn, part, fmd, compression, open_with, mkdirs, with_field = hive, stats)")
                return
            if not opens and not mpf and solve(base + [frame.n != 0], timeout)[0] == PROVED:
                # this path is the empty frame's (fix f7aae56: `if len(row_group) == 0: continue` before the file is opened): nothing may
                # have been opened, written or appended - `written` are the frames WITH rows, in order (the invariant above says so)
                touched = [e[0] for e in evs if e[0] in ("list_append", "list_extend", "mkdirs", "wcm", "chunk_setattr", "rg_setattr", "setattr")]
                res.add(tag + "part.empty_frame_opens_no_file_and_appends_nothing", PROVED if not touched else REFUTED,
                        None if not touched else {"effects": touched}, 0.0, "trace+z3",
                        "a frame without rows is skipped: no file is opened for it, nothing is appended to the row-group list")
                return
            ok = len(opens) == 1 and len(mpf) == 1
            detail = "exactly one file is opened per frame with rows and make_part_file is called once, on it, with the frame of this " \
                     "iteration, fmd.schema, compression, fmd=fmd, stats"
            if ok:
                o, m_ = opens[0], mpf[0]
                a, kw = m_[1], m_[2]
                ok = (isinstance(a[0], Custom) and isinstance(a[0].h, FileTok) and a[0].h.k == o[1] and isinstance(a[1], Custom)
                      and a[1].h is frame and isinstance(a[2], Opaque) and a[2].tag == "fmd.schema" and kw.get("compression") is comp_arg
                      and isinstance(kw.get("fmd"), Custom) and kw["fmd"].h is fmd and kw.get("stats") is stats_arg)
            res.add(tag + "part.written_into_the_file_just_opened_from_this_frame_with_dataset_schema_and_fmd", PROVED if ok else REFUTED,
                    None if ok else {"opens": len(opens), "make_part_file_calls": len(mpf)}, 0.0, "trace", detail)
            if len(opens) != 1 or len(mpf) != 1:
                return
            path = opens[0][2]
            okp = isinstance(path, Custom) and isinstance(path.h, JoinedPath) and len(path.h.parts) == 2 and path.h.parts[0] is dn and \
                isinstance(path.h.parts[1], Custom) and isinstance(path.h.parts[1].h, PartName)
            res.add(tag + "part.file_opened_under_the_root", PROVED if okp else REFUTED, None if okp else {"path": show(path)}, 0.0, "trace",
                    "the file opened is join_path(dn, 'part.<n>.parquet')")
            fp = r.ghost.get("fp:%s" % mpf[0][3])
            if not fp and solve(base + [frame.n > 0], timeout)[0] == PROVED:
                return          # this path is the empty frame's: make_part_file returned None, there is no new row group to label
            if okp and fp and fp[0] == "all" and isinstance(fp[1], Custom) and isinstance(fp[1].h, PartName):
                s, m, secs = solve(base + [z3.Not(fp[1].h.n == path.h.parts[1].h.n)], timeout)
                mdl = model_of(m, file_written=path.h.parts[1].h.n, file_path_recorded=fp[1].h.n)
            else:
                s, mdl, secs = REFUTED, {"file_path": "not set on every chunk" if not fp or fp[0] != "all" else show(fp[1]),
                                        "chunks": fp[0] if fp else None}, 0.0
            res.add(tag + "part.every_chunk_gets_the_part_name_relative_to_the_root", s, mdl, secs, "z3",
                    "every chunk of the new row group gets file_path = 'part.<n>.parquet', n the number of the file just written, relative to dn")

    def h_strmod(eng, p, a, b, node):
        if a.s == "part.%i.parquet":
            return Custom(PartName(eng.as_int(b)))
        return None

    def h_join_path(eng, p, args, kw, node):
        return [(p, Custom(JoinedPath(list(args))))]

    def h_open_with(eng, p, args, kw, node):
        mode = args[1].s if len(args) > 1 and isinstance(args[1], Str) else "?"
        k = next(_ids)
        ev(p, "open", k, args[0], mode)
        oblige_past_existing(eng, p, args[0], "open_with", node)
        return [(p, Custom(FileTok(k)))]

    def h_make_part_file(eng, p, args, kw, node):
        """contract = make_part_file[fmd given].* above: None without writing iff the frame has no rows; else the file given holds a
        complete part file and the NEW row group (num_rows = len(frame), no file_path) is returned; the caller's fmd is untouched"""
        fr = args[1].h if isinstance(args[1], Custom) and isinstance(args[1].h, Frame) else None
        rows = fr.n if fr is not None else eng.fresh_int("rows")
        key = "w%d" % next(_ids)
        rid = eng.fresh_int("new_rg")
        ev(p, "make_part_file", list(args), dict(kw), key)
        eng.oblige(p, f"write_multi.part.file_opened_is_written_as_a_part_file[any frame]", "post", rows > 0, node,
                   note="a file opened 'wb' for a frame is left a complete Parquet file: make_part_file writes NOTHING for a frame "
                        "without rows (the file stays empty, 0 bytes)")
        p.pc += [rid < 0, NR(rid) == rows]
        # the row group exists only if the frame has rows: only then has something been `written`
        p.ghost["produced"] = produced(p).append_if(rows > 0, rid)
        return [(p, Opt(z3.Not(rows > 0), Custom(RG(rid, key=key))))]

    def h_poc(eng, p, args, kw, node):
        """contract (contracts/c08_paths.py partition_on_columns.*): returns the list of the NEW row groups it wrote, file_path set"""
        ev(p, "partition_on_columns", list(args), dict(kw))
        oblige_past_existing(eng, p, args[3] if len(args) > 3 else kw.get("partname"), "partition_on_columns", node)
        k = next(_ids)
        PATN = z3.Function(f"partition_rg!{k}", I, I)
        M = z3.Int(f"n_partition_rgs!{k}")
        p.pc += [M >= 0]
        lv = LV(M, lambda j: PATN(j))
        p.ghost["produced"] = produced(p).concat(lv)
        return [(p, new_list(eng, p, lv))]

    def h_wcm(eng, p, args, kw, node):
        t = args[1].h if len(args) > 1 and isinstance(args[1], Custom) and isinstance(args[1].h, TO) else None
        nrg = args[3] if len(args) > 3 else kw.get("no_row_groups", PyB(True))
        ev(p, "wcm", args[0], t, args[2] if len(args) > 2 else kw.get("open_with"), nrg, dict(t.fields(p)) if t else None,
           "in_loop" in p.ghost and not p.ghost.get("after_loop"))
        return [(p, NONE)]

    def h_mkdirs(eng, p, args, kw, node):
        ev(p, "mkdirs", args[0] if args else None)
        return [(p, NONE)]

    def h_find_max_part(eng, p, args, kw, node):
        """contract (contracts/c07_parts.py find_max_part.fresh): the result is greater than the part number of EVERY referenced file"""
        n = eng.fresh_int("i_offset")
        p.pc.append(n >= 0)
        ok = len(args) == 1 and isinstance(args[0], Custom) and isinstance(args[0].h, ListObj) and \
            solve(list(p.pc) + [z3.Not(lv_eq(args[0].h.val(p), OLD))], timeout)[0] == PROVED
        p.ghost["fmp"] = n if ok else None
        p.ghost["fmp_seen"] = True
        return [(p, PyI(n))]

    def oblige_past_existing(eng, p, name_val, what, node):
        """the file NAME actually opened / handed to the partition writer is part.<n>.parquet with n >= find_max_part(the dataset's row groups)
        - the only number known to lie past every existing part; a number taken from anywhere else (len(rg_list), a counter) does not"""
        if not append:
            return
        v = name_val
        if isinstance(v, Custom) and isinstance(v.h, JoinedPath):
            v = v.h.parts[-1]
        fmp = p.ghost.get("fmp")
        nm = f"write_multi.part.name_opened_is_numbered_past_every_existing_part[{what}]"
        note = "an append opens only part.<n>.parquet with n >= find_max_part(fmd.row_groups) (> every existing part number): an existing " \
               "part file is never opened 'wb', not even by an append that is then refused"
        if not (isinstance(v, Custom) and isinstance(v.h, PartName)) or fmp is None:
            eng.oblige(p, nm, "post", z3.BoolVal(False), node, note=note + " - the name is not 'part.%i.parquet' % <number>, or find_max_part "
                                                                      "was not applied to the dataset's row groups")
            return
        eng.oblige(p, nm, "post", v.h.n >= fmp, node, note=note)

    def h_sum(eng, p, args, kw, node):
        v = args[0]
        S = eng.fresh_int("sum")
        if isinstance(v, Custom) and isinstance(v.h, AbstractComp) and isinstance(v.h.coll, Custom) and isinstance(v.h.coll.h, ListObj) \
                and isinstance(v.h.elt, PyI) and z3.is_true(z3.simplify(v.h.guard)):
            lv, j = p.ghost.get("last_member", (None, None))
            if lv is not None and z3.eq(z3.simplify(v.h.elt.z), z3.simplify(NR(lv.at(j)))):
                p.ghost.setdefault("sums", []).append((S, lv))
                p.pc.append(S >= 0)
        return [(p, PyI(S))]

    def h_iter_dataframe(eng, p, args, kw, node):
        return [(p, Custom(DataIter()))]

    handlers = {"str%": h_strmod, "join_path": h_join_path, "open_with": h_open_with, "partition_on_columns": h_poc,
                "make_part_file": h_make_part_file, "write_common_metadata": h_wcm, "mkdirs": h_mkdirs, "default_mkdirs": h_mkdirs,
                "find_max_part": h_find_max_part, "sum": h_sum, "iter_dataframe": h_iter_dataframe, "with_exit": lambda e, q, st: [q]}
    eng = PEngine(funcs=funcs, handlers=handlers, opaque_calls=True)
    p = Path()
    p.pc += [N >= 0, DS >= 0]
    fmd0, kv0 = dataset_fmd(eng, p, N, DS)
    st_holder["fmd"] = fmd0
    kw = {"row_group_offsets": Opaque("arg:row_group_offsets"), "compression": comp_arg, "file_scheme": Str(scheme), "write_fmd": PyB(True),
          "open_with": ow, "mkdirs": mk, "partition_on": pon, "append": PyB(append), "stats": stats_arg}
    outs = eng.run("write_multi", p, [dn, Custom(DataIter()), Custom(fmd0)], kw)
    discharge_engine(res, eng, tag, timeout, None, stable)
    n_ret = 0
    for q in outs:
        if q.ctl[0] != "ret":
            continue
        n_ret += 1
        base = list(q.pc) + list(q.axioms)
        w = events(q, "wcm")
        final = fmd0.fields(q)
        rgs, nr = final.get("row_groups"), final.get("num_rows")
        if isinstance(rgs, LV):
            s, m, secs = solve(base + [z3.Not(lv_eq(rgs, want(q)))], timeout)
            res.add(tag + "closing.row_groups_is_old_followed_by_written", s, model_of(m, length=rgs.n, differs_at=J), secs, "z3",
                    "on return fmd.row_groups == existing row groups ++ the row groups written by this call, in order")
            if solve(base + [produced(q).n > 0, N > 0], 2000)[0] == REFUTED:    # vacuity guard: parts were written to a non-empty dataset
                ctx.vacuity["must_fail_sat"] += 1
            else:
                ctx.engine_error(tag + " vacuity: the exit path excludes `some part was written`")
        sums = q.ghost.get("sums", [])
        hit = [lv for S, lv in sums if isinstance(nr, PyI) and z3.eq(z3.simplify(nr.z), S)]
        if hit and isinstance(rgs, LV):
            s, m, secs = solve(base + [z3.Not(lv_eq(hit[-1], rgs))], timeout)
            mdl = model_of(m, summed_over=hit[-1].n, row_groups=rgs.n)
        else:
            s, mdl, secs = REFUTED, {"num_rows": show(nr), "is": "not the sum of rg.num_rows over fmd.row_groups"}, 0.0
        res.add(tag + "closing.num_rows_is_sum_over_all_row_groups", s, mdl, secs, "trace+z3",
                "on return fmd.num_rows == sum of num_rows over the final fmd.row_groups (old and new): it grows by exactly the rows written")
        nrgs = [z3.simplify(eng.truth(x[4], q)) for x in w]
        ok = len(w) == 2 and z3.is_false(nrgs[0]) and z3.is_true(nrgs[1]) and all(
            isinstance(x[1], Custom) and isinstance(x[1].h, JoinedPath) and len(x[1].h.parts) == 2 and x[1].h.parts[0] is dn
            and isinstance(x[1].h.parts[1], Str) for x in w) and [x[1].h.parts[1].s for x in w] == ["_metadata", "_common_metadata"]
        res.add(tag + "closing.metadata_then_common_metadata_under_the_root", PROVED if ok else REFUTED,
                None if ok else {"calls": [(show(x[1]), str(n)) for x, n in zip(w, nrgs)]}, 0.0, "trace",
                "join_path(dn, '_metadata') with no_row_groups=False, then join_path(dn, '_common_metadata') with no_row_groups true")
        ok = bool(w) and all(x[2] is fmd0 and x[3] is ow for x in w)
        res.add(tag + "closing.summary_gets_the_datasets_fmd_and_open_with", PROVED if ok else REFUTED, None, 0.0, "trace",
                "both summary files are written from the dataset's fmd object through the caller's open_with")
        for x in w[:1]:
            snap = x[5] or {}
            srg, snr = snap.get("row_groups"), snap.get("num_rows")
            if isinstance(srg, LV):
                s, m, secs = solve(base + [z3.Not(lv_eq(srg, want(q)))], timeout)
                mdl = model_of(m, row_groups_in_metadata=srg.n, expected=want(q).n, differs_at=J)
            else:
                s, mdl, secs = REFUTED, {"row_groups": show(srg)}, 0.0
            res.add(tag + "closing.metadata_holds_all_row_groups_old_then_new", s, mdl, secs, "z3",
                    "when _metadata is written fmd.row_groups == existing ++ written (write_common_metadata serialises exactly that list)")
            hit = [lv for S, lv in sums if isinstance(snr, PyI) and z3.eq(z3.simplify(snr.z), S)]
            if hit and isinstance(srg, LV):
                s, m, secs = solve(base + [z3.Not(lv_eq(hit[-1], srg))], timeout)
                mdl = model_of(m, summed_over=hit[-1].n, row_groups=srg.n)
            else:
                s, mdl, secs = REFUTED, {"num_rows_when_metadata_is_written": show(snr), "is": "not the sum over the row groups"}, 0.0
            res.add(tag + "closing.metadata_num_rows_is_sum_over_its_row_groups", s, mdl, secs, "trace+z3",
                    "when _metadata is written fmd.num_rows == sum of num_rows over the row groups it lists")
    if n_ret == 0:
        ctx.engine_error(tag + " no returning path")
    ctx.vacuity["covers"] += n_ret
    return res


# =============================================================================================================================
# 3b. writer.partition_on_columns: every file opened / directory created in the group loop holds exactly one RETURNED row group
# =============================================================================================================================
class POCEngine(PEngine):
    """+ `[]` is a list object (rgs = []; rgs.append(rg)); `f(*xs)` hands the starred value on as one opaque argument"""

    def e_List(self, e, p):
        if not e.elts:
            return [(p, new_list(self, p, LV(0, lambda k: z3.IntVal(0))))]
        return PEngine.e_List(self, e, p)

    def e_Starred(self, e, p):
        return [(q, Opaque(("star", ast.unparse(e.value)[:60]))) for q, v in self.ev(e.value, p)]


def run_partition_on_columns(ctx, funcs, timeout, with_field):
    res = Results()
    tag = f"partition_on_columns[{'hive' if with_field else 'drill'}]."
    GROWS = z3.Function("RowsOfGroup", I, I)
    root, partname = Opaque("arg:root_path"), Opaque("arg:partname")
    comp_arg, stats_arg, ow, mk = Opaque("arg:compression"), Opaque("arg:stats"), Opaque("arg:open_with"), Opaque("arg:mkdirs")
    N, DS = z3.Int("n_dataset_row_groups"), z3.Int("dataset_num_rows")
    holder = {}

    def produced(p):
        return p.ghost.get("produced", LV(0, lambda k: z3.IntVal(0)))

    class ColList:
        tracked = False

        def call_method(self, eng, p, name, args, kw, node):
            return [(p, NONE)]

        def truth(self, eng, p):
            return z3.Bool("some_column_remains_after_the_partition_columns")

    class ColsArg:
        """the `columns` argument: a non-empty list of column names"""
        tracked = False

        def len(self, eng, p):
            n = z3.Int("n_partition_columns")
            p.pc.append(n >= 1)
            return PyI(n)

        def getitem(self, eng, p, i, node):
            return Opaque(("columns[]", ast.unparse(node)))

        def for_loop(self, eng, p, st):
            outs = []
            for b in eng.assign(st.target, Opaque(("column", next(eng.counter))), p):
                for r in eng.block(st.body, [b]):
                    if r.ctl in ("continue", "break"):
                        r.ctl = None
                    outs.append(r)
            return outs

    class DataP:
        tracked = False

        def call_method(self, eng, p, name, args, kw, node):
            if name == "groupby":
                return [(p, Custom(Groups()))]
            raise Unsupported("data." + name)

    class Group:
        """one group of the groupby: `empty` <=> it has no rows (it has all the columns of data, and some column remains)"""
        tracked = False

        def __init__(self, g):
            self.g = g
            self.df = Frame(GROWS(g), tag="group_frame")

        def attr(self, eng, p, name):
            if name == "empty":
                return PyB(GROWS(self.g) == 0)
            return Opaque(("group." + name,))

        def getitem(self, eng, p, i, node):
            return Custom(self.df)

        def len(self, eng, p):
            return PyI(GROWS(self.g))

    class Groups:
        tracked = False

        def for_loop(self, eng, p, st):
            rgs_names = [n for n, v in sorted(p.env.items()) if isinstance(v, Custom) and isinstance(v.h, ListObj)]
            track = []
            for n in rgs_names:
                s_, m, secs = solve(list(p.pc) + [z3.Not(lv_eq(p.env[n].h.val(p), produced(p)))], timeout)
                if s_ == PROVED:
                    track.append(n)
            res.add(tag + "loop.returned_list_is_the_row_groups_written.on_entry", PROVED if track else REFUTED, None, 0.0, "z3",
                    "before the first group the list that will be returned is empty")
            outs = []
            body_names = assigned_names(st.body)
            for kind in ("exit", "body"):
                q = p.fork()
                k = next(_ids)
                PAT, P = z3.Function(f"written_rg!{k}", I, I), z3.Int(f"n_written!{k}")
                q.pc.append(P >= 0)
                q.ghost["produced"] = LV(P, lambda j, PAT=PAT: PAT(j))
                for n in track:
                    q.env[n].h.set(q, produced(q))
                q.ghost["loop_ev_start"] = len(q.ghost.get("ev", []))
                if kind == "exit":
                    outs.append(q)
                    continue
                for n in body_names:
                    if n in q.env and n not in track:
                        q.env[n] = Opaque(("stale", n))
                g = eng.fresh_int("g_group")
                q.pc += [g >= 0, GROWS(g) >= 0]
                grp = Group(g)
                for b in eng.assign(st.target, Tup([Opaque(("key", str(g))), Custom(grp)]), q):
                    for r in eng.block(st.body, [b]):
                        if r.ctl in (None, "continue"):
                            r.ctl = None
                            self.end_of_body(eng, r, track, grp)
                        elif r.ctl == "break":
                            raise Unsupported("break in the group loop")
                        else:
                            outs.append(r)
            return outs

        def end_of_body(self, eng, r, track, grp):
            base = list(r.pc) + list(r.axioms)
            evs = r.ghost.get("ev", [])[r.ghost["loop_ev_start"]:]
            for n in track:
                s_, m, secs = solve(base + [z3.Not(lv_eq(r.env[n].h.val(r), produced(r)))], timeout)
                res.add(tag + "loop.returned_list_is_the_row_groups_written.preserved", s_,
                        model_of(m, length=r.env[n].h.val(r).n, row_groups_written=produced(r).n, rows_of_this_group=grp.df.n), secs, "z3",
                        "after each group: the list returned == the row groups written so far, in order - a row group that was written into "
                        "a file is appended, exactly once")
            opens = [e for e in evs if e[0] == "open"]
            mkd = [e for e in evs if e[0] == "mkdirs"]
            mpf = [e for e in evs if e[0] == "make_part_file"]
            if not opens and not mkd and not mpf:
                empty = solve(base + [grp.df.n != 0], timeout)[0] == PROVED
                res.add(tag + "group.only_an_empty_group_creates_nothing", PROVED if empty else REFUTED, None, 0.0, "trace+z3",
                        "a group is skipped (no directory, no file, no row group) only if it has no rows")
                return
            ok = len(opens) == 1 and len(mkd) == 1 and len(mpf) == 1
            path_ok = fp_ok = False
            if ok:
                o, m_, d = opens[0], mpf[0], mkd[0]
                a, kw = m_[1], m_[2]
                full, dirp = o[2], d[1]
                parts = full.h.parts if isinstance(full, Custom) and isinstance(full.h, JoinedPath) else []
                dparts = dirp.h.parts if isinstance(dirp, Custom) and isinstance(dirp.h, JoinedPath) else []
                path_ok = len(parts) == 3 and parts[0] is root and parts[2] is partname and len(dparts) == 2 and dparts[0] is root \
                    and dparts[1] is parts[1] and o[3] == "wb" and evs.index(d) < evs.index(o)
                ok = (isinstance(a[0], Custom) and isinstance(a[0].h, FileTok) and a[0].h.k == o[1] and isinstance(a[1], Custom)
                      and a[1].h is grp.df and isinstance(a[2], Opaque) and a[2].tag == "fmd.schema" and kw.get("compression") is comp_arg
                      and isinstance(kw.get("fmd"), Custom) and kw["fmd"].h is holder["fmd"] and kw.get("stats") is stats_arg)
                fp = r.ghost.get("fp:%s" % m_[3])
                rel = fp[1].h.parts if fp and fp[0] == "all" and isinstance(fp[1], Custom) and isinstance(fp[1].h, JoinedPath) else []
                fp_ok = path_ok and len(rel) == 2 and rel[0] is parts[1] and rel[1] is partname
            res.add(tag + "group.one_directory_one_file_one_part_from_this_groups_frame", PROVED if ok else REFUTED,
                    None if ok else {"mkdirs": len(mkd), "opens": len(opens), "make_part_file_calls": len(mpf)}, 0.0, "trace",
                    "per group with rows: mkdirs once, then exactly one file opened, make_part_file once into it with group[remaining], "
                    "fmd.schema, compression, fmd=fmd, stats")
            res.add(tag + "group.file_is_root_path_partname_opened_wb_after_its_directory", PROVED if path_ok else REFUTED, None, 0.0, "trace",
                    "the file is join_path(root_path, path, partname), opened 'wb', after mkdirs(join_path(root_path, path))")
            res.add(tag + "group.every_file_opened_holds_a_returned_row_group_labelled_with_it", PROVED if fp_ok else REFUTED,
                    None if fp_ok else {"file_path_on_every_chunk": bool(fp and fp[0] == "all"), "rows_of_this_group": "0 possible"
                                        if solve(base + [grp.df.n == 0], timeout)[0] == REFUTED else "> 0"}, 0.0, "trace+z3",
                    "every file opened for writing (and directory created) in the group loop is matched by exactly one row group in the "
                    "returned list whose chunks all carry file_path = join_path(path, partname): nothing unreferenced is left behind")

    def h_join_path(eng, p, args, kw, node):
        return [(p, Custom(JoinedPath(list(args))))]

    def h_open_with(eng, p, args, kw, node):
        mode = args[1].s if len(args) > 1 and isinstance(args[1], Str) else "?"
        k = next(_ids)
        ev(p, "open", k, args[0], mode)
        return [(p, Custom(FileTok(k)))]

    def h_mkdirs(eng, p, args, kw, node):
        ev(p, "mkdirs", args[0] if args else None)
        return [(p, NONE)]

    def h_make_part_file(eng, p, args, kw, node):
        """contract = make_part_file[fmd given].* of THIS module (derived from its real source in the same run): returns None without
        writing iff len(data) == 0; else the file holds a complete part file and the new row group is returned"""
        fr = args[1].h if len(args) > 1 and isinstance(args[1], Custom) and isinstance(args[1].h, Frame) else None
        rows = fr.n if fr is not None else eng.fresh_int("rows")
        key = "w%d" % next(_ids)
        rid = eng.fresh_int("new_rg")
        ev(p, "make_part_file", list(args), dict(kw), key)
        eng.oblige(p, "partition_on_columns.group.file_opened_is_written_as_a_part_file[any group]", "post", rows > 0, node,
                   note="a file opened 'wb' (and the directory created for it) belongs to a group WITH rows: make_part_file writes nothing "
                        "for an empty frame and returns None - a 0-byte part file in a spurious partition directory that _metadata never references")
        p.pc += [rid < 0, NR(rid) == rows]
        p.ghost["produced"] = produced(p).append_if(rows > 0, rid)
        return [(p, Opt(z3.Not(rows > 0), Custom(RG(rid, key=key))))]

    def h_list(eng, p, args, kw, node):
        if args and isinstance(args[0], Custom) and isinstance(args[0].h, DataP):
            return [(p, Custom(ColList()))]
        return [(p, args[0] if args else new_list(eng, p, LV(0, lambda k: z3.IntVal(0))))]

    def h_sorted(eng, p, args, kw, node):
        return [(p, args[0])]
    handlers = {"join_path": h_join_path, "open_with": h_open_with, "mkdirs": h_mkdirs, "make_part_file": h_make_part_file, "list": h_list,
                "sorted": h_sorted, "with_exit": lambda e, q, st: [q]}
    eng = POCEngine(funcs=funcs, handlers=handlers, opaque_calls=True)
    p = Path()
    p.pc += [N >= 0, DS >= 0]
    fmd0, _ = dataset_fmd(eng, p, N, DS)
    holder["fmd"] = fmd0
    columns = Custom(ColsArg())
    outs = eng.run("partition_on_columns", p, [Custom(DataP()), columns, root, partname, Custom(fmd0), comp_arg, ow, mk],
                   {"with_field": PyB(with_field), "stats": stats_arg})
    discharge_engine(res, eng, tag, timeout, None, lambda fn, nm: (nm.split("@L")[0] if fn == "partition_on_columns" else fn + "." + nm.split("@L")[0]))
    n_ret = 0
    for q in outs:
        if q.ctl[0] != "ret":
            continue
        n_ret += 1
        base = list(q.pc) + list(q.axioms)
        rv = q.ctl[1]
        lv = as_lv(q, rv)
        if lv is None:
            res.add(tag + "returns_the_row_groups_written", REFUTED, {"returns": show(rv)}, 0.0, "trace")
            continue
        s_, m, secs = solve(base + [z3.Not(lv_eq(lv, produced(q)))], timeout)
        res.add(tag + "returns_the_row_groups_written", s_, model_of(m, returned=lv.n, written=produced(q).n), secs, "z3",
                "the list returned == the row groups written into files by this call, in order (the caller extends fmd.row_groups with it)")
    if n_ret == 0:
        ctx.engine_error(tag + " no returning path")
    ctx.vacuity["covers"] += n_ret
    return res


# =============================================================================================================================
# 4. api.ParquetFile.write_row_groups (append through a handle) and the dispatch of writer.write
# =============================================================================================================================
class NamedV:
    """an opaque argument / attribute with a name: identity is all that is used"""
    tracked = False

    def __init__(self, name):
        self.name = name

    def binop(self, eng, p, op, other, node):
        return Opaque(("binop", self.name, ast.unparse(node)))

    def attr(self, eng, p, name):
        return Opaque((self.name, name))

    def is_none(self, eng, p):
        return z3.BoolVal(False)


def opq_truth(q, tag):
    return q.opq.get(("truth", tag))


def implied(base, cond, timeout):
    return solve(base + [z3.Not(cond)], timeout)[0] == PROVED


def run_write_row_groups(ctx, funcs, timeout):
    res = Results()
    N, DS = z3.Int("n_dataset_row_groups"), z3.Int("dataset_num_rows")
    is_df = z3.Bool("data_is_a_DataFrame")
    A = {k: Opaque("arg:" + k) for k in ("row_group_offsets", "sort_key", "sort_pnames", "compression", "write_fmd", "open_with", "mkdirs", "stats")}
    OLD = LV(N, lambda k: k)
    fnv = Custom(FnStr())
    cats = Custom(NamedV("self.cats"))
    scheme = Custom(SymScheme())
    basepath = Opaque("self.basepath")

    class Data:
        tracked = False

        def isinstance(self, eng, p, tn):
            return is_df if "DataFrame" in tn else z3.BoolVal(False)

        def attr(self, eng, p, name):
            return Opaque(("data", name))
    data = Custom(Data())

    class SelfPF:
        tracked = True

        def __init__(self, fmd):
            self.fmd = fmd

        def attr(self, eng, p, name):
            return {"file_scheme": scheme, "fn": fnv, "fmd": Custom(self.fmd), "cats": cats, "basepath": basepath}.get(name) or \
                Custom(NamedV("self." + name))

        def call_method(self, eng, p, name, args, kw, node):
            ev(p, "self_call", name, list(args), dict(kw), dict(self.fmd.fields(p)))
            return [(p, NONE)]

    def h_write_multi(eng, p, args, kw, node):
        """contract = write_multi[append=True,...].* above: fmd.row_groups := old ++ the row groups written, fmd.num_rows := their sum;
        summary files only when write_fmd"""
        ev(p, "write_multi", list(args), dict(kw))
        t = args[2].h if len(args) > 2 and isinstance(args[2], Custom) and isinstance(args[2].h, TO) else None
        if t is not None:
            k = next(_ids)
            NEWAT, M, S = z3.Function(f"appended_rg!{k}", I, I), z3.Int(f"n_appended!{k}"), z3.Int(f"sum_num_rows!{k}")
            p.pc += [M >= 0, S >= 0]
            old = t.fields(p).get("row_groups")
            if not isinstance(old, LV):
                raise Unsupported("write_multi on an fmd whose row_groups is not a plain list")
            lv = old.concat(LV(M, lambda j: NEWAT(j)))
            p.ghost["after_write_multi"] = lv
            p.ghost.setdefault("sums", []).append((S, lv))
            p.ghost["to:%d" % t.oid] = dict(t.fields(p), row_groups=lv, num_rows=PyI(S))
        return [(p, NONE)]

    def h_write_simple(eng, p, args, kw, node):
        ev(p, "write_simple", list(args), dict(kw))
        return [(p, NONE)]

    def h_sorted(eng, p, args, kw, node):
        lv = as_lv(p, args[0])
        if lv is not None and "key" in kw:
            return [(p, Custom(SortedList(lv, kw["key"])))]
        return [(p, Opaque(("sorted", ast.unparse(node))))]
    handlers = {"write_multi": h_write_multi, "write_simple": h_write_simple, "sorted": h_sorted}
    eng = PEngine(funcs=funcs, handlers=handlers, opaque_calls=True)
    p = Path()
    p.pc += [N >= 0, DS >= 0] + scheme_axioms("self_file_scheme")
    fmd0, _ = dataset_fmd(eng, p, N, DS)
    outs = eng.run("ParquetFile.write_row_groups", p, [Custom(SelfPF(fmd0)), data], dict(A))
    discharge_engine(res, eng, "write_row_groups.", timeout, None, stable)
    S_ = lambda s: z3.Bool(f"[self_file_scheme == {s!r}]")
    n_ret = 0
    for q in outs:
        if q.ctl[0] != "ret":
            continue            # the column check refused the frame (contracts/c18_validate.py: before any effect)
        n_ret += 1
        base = list(q.pc) + list(q.axioms)
        wm, ws, calls = events(q, "write_multi"), events(q, "write_simple"), events(q, "self_call")
        names = [c[1] for c in calls]
        one = len(wm) + len(ws) == 1
        ok = one and ((ws and implied(base, z3.Or(S_("simple"), S_("empty")), timeout)) or (wm and implied(base, z3.Not(S_("simple")), timeout)))
        res.add("write_row_groups.dispatch_by_the_handles_file_scheme", PROVED if ok else REFUTED,
                None if ok else {"write_simple": len(ws), "write_multi": len(wm)}, 0.0, "trace+z3",
                "exactly one writer: write_simple only for a single-file ('simple' / a lone 'empty' file) handle, write_multi otherwise")
        if not one:
            continue
        last_ok = bool(names) and names[-1] == "_set_attrs" and names.count("_set_attrs") == 1
        res.add("write_row_groups.handle_refreshed_last", PROVED if last_ok else REFUTED, None if last_ok else {"calls": names}, 0.0, "trace",
                "self._set_attrs() is the last step on every returning path (the handle's row_groups / counts follow the new metadata)")
        if ws:
            a, kw = ws[0][1], ws[0][2]
            ok = (len(a) == 3 and a[0] is fnv and a[1] is data and isinstance(a[2], Custom) and a[2].h is fmd0
                  and kw.get("row_group_offsets") is A["row_group_offsets"] and kw.get("compression") is A["compression"]
                  and kw.get("open_with") is A["open_with"] and kw.get("stats") is A["stats"]
                  and isinstance(kw.get("append"), PyB) and z3.is_true(z3.simplify(kw["append"].z)))
            res.add("write_row_groups[simple].appends_in_place_through_write_simple", PROVED if ok else REFUTED, None, 0.0, "trace",
                    "write_simple(self.fn, data, self.fmd, row_group_offsets, compression, open_with, append=True, stats)")
            ok = names == ["_set_attrs"]
            res.add("write_row_groups[simple].no_summary_files_for_a_single_file", PROVED if ok else REFUTED, None if ok else {"calls": names}, 0.0,
                    "trace", "a single-file handle: neither _sort_part_names nor _write_common_metadata")
            continue
        a, kw = wm[0][1], wm[0][2]
        ok = (len(a) == 3 and a[0] is basepath and a[1] is data and isinstance(a[2], Custom) and a[2].h is fmd0
              and kw.get("row_group_offsets") is A["row_group_offsets"] and kw.get("compression") is A["compression"]
              and kw.get("file_scheme") is scheme and kw.get("open_with") is A["open_with"] and kw.get("mkdirs") is A["mkdirs"]
              and kw.get("partition_on") is cats and kw.get("stats") is A["stats"]
              and isinstance(kw.get("append"), PyB) and z3.is_true(z3.simplify(kw["append"].z))
              and isinstance(kw.get("write_fmd"), PyB) and z3.is_false(z3.simplify(kw["write_fmd"].z)))
        res.add("write_row_groups[multi].appends_through_write_multi_without_summary", PROVED if ok else REFUTED,
                None if ok else {"args": [show(x) for x in a], "kw": {k: show(v) for k, v in kw.items()}}, 0.0, "trace",
                "write_multi(self.basepath, data, self.fmd, ..., file_scheme=self.file_scheme, partition_on=list(self.cats), append=True, "
                "write_fmd=False): new parts get fresh numbers after the existing ones, the summary is NOT written yet")
        # ---- the row-group list: old ++ new, or that list sorted by sort_key ----
        t_sort, t_pn, t_wf = opq_truth(q, "arg:sort_key"), opq_truth(q, "arg:sort_pnames"), opq_truth(q, "arg:write_fmd")
        final = fmd0.fields(q).get("row_groups")
        after = q.ghost.get("after_write_multi")
        if isinstance(final, SortedList):
            ok = final.key is A["sort_key"] and after is not None and same_value(base, final.lv, after, timeout) and \
                t_sort is not None and implied(base, t_sort, timeout)
        elif isinstance(final, LV):
            ok = after is not None and same_value(base, final, after, timeout) and t_sort is not None and implied(base, z3.Not(t_sort), timeout)
        else:
            ok = False
        res.add("write_row_groups[multi].row_groups_new_after_old_or_sorted_by_key", PROVED if ok else REFUTED,
                None if ok else {"row_groups": show(final) if not isinstance(final, SortedList) else "sorted(...)"}, 0.0, "trace+z3",
                "without sort_key fmd.row_groups == existing ++ appended (in that order); with sort_key it is sorted(that list, key=sort_key)")
        nr = fmd0.fields(q).get("num_rows")
        hit = [lv for S, lv in q.ghost.get("sums", []) if isinstance(nr, PyI) and z3.eq(z3.simplify(nr.z), S)]
        ok = bool(hit) and after is not None and same_value(base, hit[-1], after, timeout)
        res.add("write_row_groups[multi].num_rows_left_as_write_multi_computed_it", PROVED if ok else REFUTED, None if ok else {"num_rows": show(nr)},
                0.0, "trace+z3", "fmd.num_rows stays the sum over old ++ appended (sorting does not change it)")
        # ---- steps in order ----
        conds = {"_sort_part_names": t_pn, "_write_common_metadata": t_wf}
        order_ok = [n for n in names if n in conds or n == "_set_attrs"] == names
        pos = {n: names.index(n) for n in names}
        iff = {}
        for n, t in conds.items():
            present = n in names
            iff[n] = t is not None and implied(base, t if present else z3.Not(t), timeout) and names.count(n) <= 1
        seq_ok = order_ok and all(iff.values()) and \
            (("_sort_part_names" not in pos or "_write_common_metadata" not in pos) or pos["_sort_part_names"] < pos["_write_common_metadata"])
        if "_sort_part_names" in pos:
            c = calls[pos["_sort_part_names"]]
            seq_ok = seq_ok and len(c[2]) == 2 and isinstance(c[2][0], PyB) and z3.is_false(z3.simplify(c[2][0].z)) and c[2][1] is A["open_with"]
        if "_write_common_metadata" in pos:
            c = calls[pos["_write_common_metadata"]]
            seq_ok = seq_ok and len(c[2]) == 1 and c[2][0] is A["open_with"]
            snap = c[4].get("row_groups")
            seq_ok = seq_ok and (snap is final or (isinstance(snap, LV) and isinstance(final, LV) and same_value(base, snap, final, timeout)))
        res.add("write_row_groups[multi].steps_in_order_metadata_last_iff_write_fmd", PROVED if seq_ok else REFUTED,
                None if seq_ok else {"calls": names, "iff": iff}, 0.0, "trace+z3",
                "write_multi(no summary) -> [sort iff sort_key] -> [_sort_part_names(False, open_with) iff sort_pnames] -> "
                "[_write_common_metadata(open_with) iff write_fmd, on the final row-group list] -> _set_attrs(): the summary is written last, once")
    if n_ret == 0:
        ctx.engine_error("write_row_groups: no returning path")
    ctx.vacuity["covers"] += n_ret
    return res


def run_write_dispatch(ctx, funcs, timeout):
    from .c18_validate import SymStr, AppendV, Named, strid, solve_on
    res = Results()

    def implied_on(q, cond):
        # the path condition restricted to what shares variables with `cond` (cached by text: hundreds of paths differ elsewhere)
        return solve_on(q, [z3.Not(cond)], timeout)[0] == PROVED
    scheme, app = z3.Int("file_scheme"), z3.Int("append_code")
    S = strid
    A = {k: Opaque("arg:" + k) for k in ("row_group_offsets", "compression", "stats")}
    G = {k: Opaque("get_fs:" + k) for k in ("fs", "filename", "open_with", "mkdirs")}
    scheme_v = Custom(SymStr(scheme))
    pon = Custom(Named("partition_on", is_str=z3.Bool("partition_on_is_a_str")))
    new_fmd = Opaque("make_metadata:result")

    class PF(Named):
        def __init__(self):
            Named.__init__(self, "pf")

        def attr(self, eng, p, name):
            if name == "file_scheme":
                return Custom(SymStr(z3.Int("pf_file_scheme")))
            return Custom(Named("pf." + name))

        def call_method(self, eng, p, name, args, kw, node):
            if name == "write_row_groups":
                ev(p, "pf.write_row_groups", list(args), dict(kw))
                return [(p, NONE)]
            return [(p, Opaque(("call", "pf." + name, next(eng.counter))))]

    def rec(name):
        def h(eng, p, args, kw, node):
            ev(p, name, list(args), dict(kw))
            return [(p, NONE)]
        return h

    def h_get_fs(eng, p, args, kw, node):
        ev(p, "get_fs", list(args))
        return [(p, Tup([G["fs"], G["filename"], G["open_with"], G["mkdirs"]]))]

    def h_parquet_file(eng, p, args, kw, node):
        """the handle of the existing dataset either opens, or construction raises: FileNotFoundError (nothing there) / ValueError (what an
        I/O failure while READING _metadata through a plain-function open_with becomes, api.py __init__) / OSError"""
        ev(p, "ParquetFile", list(args), dict(kw))
        outs = []
        for exc in ("FileNotFoundError", "ValueError", "OSError"):
            r = p.fork()
            r.ctl = ("raise", exc)
            r.trace.append(("raise", node.lineno))
            r.ghost["handle_open_failed"] = exc
            outs.append((r, Opaque(("raised", exc))))
        outs.append((p, Custom(PF())))
        return outs

    def h_make_metadata(eng, p, args, kw, node):
        ev(p, "make_metadata", list(args), dict(kw))
        return [(p, new_fmd)]
    handlers = {"write_multi": rec("write_multi"), "write_simple": rec("write_simple"), "overwrite": rec("overwrite"), "get_fs": h_get_fs,
                "ParquetFile": h_parquet_file, "make_metadata": h_make_metadata}
    for nm in ("mkdirs", "default_mkdirs", "open_with", "default_open", "open", "os.makedirs", "os.remove", "shutil.rmtree"):
        handlers[nm] = rec("io:" + nm)
    eng = Engine(funcs=funcs, handlers=handlers, opaque_calls=True)
    p = Path()
    p.pc += [0 <= app, app <= 2]
    kw = {"file_scheme": scheme_v, "append": Custom(AppendV(app)), "partition_on": pon,
          "open_with": Opaque("arg:open_with"), "mkdirs": Opaque("arg:mkdirs"), "custom_metadata": Opaque("custom_metadata"),
          "row_group_offsets": A["row_group_offsets"], "compression": A["compression"], "has_nulls": Opaque("has_nulls"),
          "write_index": Opaque("write_index"), "fixed_text": Opaque("fixed_text"), "object_encoding": Opaque("object_encoding"),
          "times": Opaque("times"), "stats": A["stats"]}
    outs = eng.run("write", p, [Opaque("arg:filename"), Opaque("data")], kw)
    eng.oblig = []                       # the safety obligations of write() belong to contracts/c18_validate.py
    multi = z3.Or(scheme == S("hive"), scheme == S("drill"))

    def is_data(v):
        return isinstance(v, Opaque) and (v.tag == "data" or (isinstance(v.tag, tuple) and len(v.tag) == 3 and v.tag[1] == "reset_row_idx"))

    def is_pon(v):
        return v is pon or (isinstance(v, Tup) and len(v.items) == 1 and v.items[0] is pon)
    n_multi = n_app = 0
    for q in outs:
        if q.ctl[0] != "ret":
            continue
        base = list(q.pc) + list(q.axioms)
        wm, ws, ov, wr = events(q, "write_multi"), events(q, "write_simple"), events(q, "overwrite"), events(q, "pf.write_row_groups")
        one = len(wm) + len(ws) + len(ov) + len(wr) == 1
        ok = one and ((wm and implied_on(q, z3.And(multi, app == 0))) or (ws and implied_on(q, z3.And(scheme == S("simple"), app == 0)))
                      or (ov and implied_on(q, app == 2)) or (wr and implied_on(q, app == 1)))
        res.add("write.dispatch.scheme_and_append_select_exactly_one_writer", PROVED if ok else REFUTED,
                None if ok else {"write_multi": len(wm), "write_simple": len(ws), "overwrite": len(ov), "pf.write_row_groups": len(wr)}, 0.0,
                "trace+z3", "append False: write_simple for 'simple', write_multi for 'hive'/'drill'; append True: the handle's write_row_groups; "
                "'overwrite': overwrite - exactly one of them per call")
        if wm:
            n_multi += 1
            a, k = wm[0][1], wm[0][2]
            ok = (len(a) == 3 and a[0] is G["filename"] and is_data(a[1]) and a[2] is new_fmd and k.get("row_group_offsets") is A["row_group_offsets"]
                  and k.get("compression") is A["compression"] and k.get("file_scheme") is scheme_v and k.get("open_with") is G["open_with"]
                  and k.get("mkdirs") is G["mkdirs"] and is_pon(k.get("partition_on")) and k.get("stats") is A["stats"]
                  and isinstance(k.get("append"), PyB) and z3.is_false(z3.simplify(k["append"].z))
                  and isinstance(k.get("write_fmd"), PyB) and z3.is_true(z3.simplify(k["write_fmd"].z)))
            res.add("write.dispatch.fresh_multi_file_write_gets_new_metadata_and_writes_summary", PROVED if ok else REFUTED,
                    None if ok else {"args": [show(x) for x in a], "kw": {kk: show(v) for kk, v in k.items()}}, 0.0, "trace",
                    "write_multi(filename, data, make_metadata(...), file_scheme=file_scheme, partition_on=partition_on, append=False, "
                    "write_fmd=True, open_with / mkdirs from get_fs): parts first, then _metadata and _common_metadata")
        if wr:
            n_app += 1
            a, k = wr[0][1], wr[0][2]
            pfs = events(q, "ParquetFile")
            ok = (len(pfs) == 1 and pfs[0][1] and pfs[0][1][0] is G["filename"] and pfs[0][2].get("open_with") is G["open_with"]
                  and len(a) == 2 and is_data(a[0]) and a[1] is A["row_group_offsets"] and isinstance(k.get("sort_key"), NoneV)
                  and isinstance(k.get("sort_pnames"), PyB) and z3.is_false(z3.simplify(k["sort_pnames"].z))
                  and isinstance(k.get("write_fmd"), PyB) and z3.is_true(z3.simplify(k["write_fmd"].z))
                  and k.get("compression") is A["compression"] and k.get("open_with") is G["open_with"] and k.get("mkdirs") is G["mkdirs"]
                  and k.get("stats") is A["stats"])
            res.add("write.dispatch.append_goes_through_the_handle_with_summary", PROVED if ok else REFUTED,
                    None if ok else {"args": [show(x) for x in a], "kw": {kk: show(v) for kk, v in k.items()}}, 0.0, "trace",
                    "ParquetFile(filename, open_with).write_row_groups(data, row_group_offsets, sort_key=None, sort_pnames=False, write_fmd=True, ...)")
    # ---- an append needs the existing dataset: a failure to open it is the caller's to see (C19 / C07 / C18) ----
    n_fail = 0
    for q in outs:
        exc = q.ghost.get("handle_open_failed")
        if exc is None:
            continue
        n_fail += 1
        eff = [e[0] for e in q.ghost.get("ev", []) if e[0] in ("write_multi", "write_simple", "overwrite", "pf.write_row_groups") or e[0].startswith("io:")]
        ok = q.ctl[0] == "raise" and not eff
        res.add("write.dispatch.append_requires_the_existing_dataset_to_open", PROVED if ok else REFUTED,
                None if ok else {"constructing_the_handle_raised": exc, "write_then": "returns normally" if q.ctl[0] == "ret" else "raises " + str(q.ctl[1]),
                                 "effects_after_the_failure": eff}, 0.0, "trace",
                "append=True: if ParquetFile(filename, open_with=...) raises (no such dataset, or an I/O failure while reading _metadata), write() "
                "raises too - the exception is not handled inside write() - and nothing was created, opened for writing or written; no path "
                "goes on to write_simple / write_multi with append=False (which would overwrite part.0.parquet and _metadata)")
    if n_fail == 0:
        res.add("write.dispatch.append_requires_the_existing_dataset_to_open", UNKNOWN, None, 0.0, "trace",
                "no path constructs the handle of the existing dataset through ParquetFile(...)")
    wtree = funcs["write"].tree
    stores = sorted({f"L{n.lineno}: " + ast.unparse(st).split("\n")[0][:80] for st in ast.walk(wtree) if isinstance(st, ast.stmt)
                     for n in ast.iter_child_nodes(st) for n in ast.walk(n)
                     if isinstance(n, ast.Name) and n.id == "append" and isinstance(n.ctx, (ast.Store, ast.Del))
                     and not isinstance(st, (ast.FunctionDef, ast.If, ast.For, ast.While, ast.With, ast.Try))} |
                    {f"L{st.lineno}: " + ast.unparse(st).split("\n")[0][:80] for st in ast.walk(wtree) if isinstance(st, (ast.For, ast.With))
                     for n in ast.walk(st.target if isinstance(st, ast.For) else ast.Tuple([i.optional_vars for i in st.items if i.optional_vars], ast.Store()))
                     if isinstance(n, ast.Name) and n.id == "append"})
    res.add("write.dispatch.append_flag_is_not_reassigned", PROVED if not stores else REFUTED, None if not stores else {"assignments": stores}, 0.0,
            "ast", "the caller's `append` (False | True | 'overwrite') decides the branch: write() never assigns to it (the real source has NO "
            "normalisation of this flag: it is only tested)")
    if not n_multi or not n_app:
        ctx.engine_error("write dispatch: no returning path reaches write_multi / pf.write_row_groups")
    ctx.vacuity["covers"] += n_multi + n_app
    return res


# =============================================================================================================================
# 4b. I/O errors propagate: no handler on the write path swallows a failing file operation; files are closed by `with`
# =============================================================================================================================
EFFECT_FUNCS_W = ("make_part_file", "make_row_group", "write_column", "write_multi", "partition_on_columns", "write_simple",
                  "write_simple.write_to_file", "write_common_metadata", "update_file_custom_metadata", "write_thrift", "overwrite", "merge")
EFFECT_FUNCS_A = ("ParquetFile.write_row_groups", "ParquetFile._write_common_metadata", "ParquetFile.remove_row_groups", "ParquetFile._sort_part_names")
FILE_METHODS = {"write", "close", "flush", "seek", "truncate", "writelines", "rename", "rm", "mv", "remove", "makedirs", "mkdirs"}
IO_CALLS = {"open_with", "mkdirs", "default_mkdirs", "default_open", "open", "remove_with", "write_thrift", "make_row_group", "make_part_file",
            "write_column", "write_common_metadata", "write_to_file", "write_simple", "write_multi", "partition_on_columns", "write_row_groups",
            "remove_row_groups", "_write_common_metadata", "_sort_part_names", "update_file_custom_metadata"}
BROAD = {"Exception", "BaseException", "OSError", "IOError", "EnvironmentError", "io.UnsupportedOperation"}


def _io_ops(stmts):
    """file operations syntactically inside these statements: method calls write/close/flush/.. , the I/O callables, `with` blocks"""
    out = []
    for st in stmts:
        for n in ast.walk(st):
            if isinstance(n, ast.Call):
                if isinstance(n.func, ast.Attribute) and n.func.attr in FILE_METHODS | IO_CALLS:
                    out.append(ast.unparse(n.func) + "()")
                elif isinstance(n.func, ast.Name) and n.func.id in IO_CALLS:
                    out.append(n.func.id + "()")
            elif isinstance(n, (ast.With, ast.AsyncWith)):
                out.append("with " + ast.unparse(n.items[0].context_expr)[:40])
    return out


def _always_raises(stmts):
    """True: every path through the handler body ends in `raise`; False: some path falls through; None: cannot classify"""
    if not stmts:
        return False
    for st in stmts[:-1]:
        if isinstance(st, (ast.Return, ast.Continue, ast.Break)):
            return False
        if isinstance(st, (ast.While, ast.For, ast.Try)):
            return None
    last = stmts[-1]
    if isinstance(last, ast.Raise):
        return True
    if isinstance(last, ast.If):
        a, b = _always_raises(last.body), _always_raises(last.orelse)
        if a is None or b is None:
            return None
        return a and b
    if isinstance(last, (ast.While, ast.For, ast.Try, ast.With)):
        return None
    return False


def _catches_io(h):
    if h.type is None:
        return "bare except"
    names = [ast.unparse(e) for e in (h.type.elts if isinstance(h.type, ast.Tuple) else [h.type])]
    hit = [n for n in names if n in BROAD or n.split(".")[-1] in BROAD]
    return "except " + ", ".join(hit) if hit else None


def run_effects(ctx, w, a):
    res = Results()
    for mod, funcs, names in (("writer", w, EFFECT_FUNCS_W), ("api", a, EFFECT_FUNCS_A)):
        for q in names:
            if q not in funcs:
                continue
            fn = funcs[q].tree
            body = [n for n in fn.body]
            swallowed, unclear = [], []
            todo = list(body)
            nodes = []
            while todo:
                n = todo.pop()
                nodes.append(n)
                for c in ast.iter_child_nodes(n):
                    if isinstance(c, (ast.FunctionDef, ast.AsyncFunctionDef, ast.Lambda)) and n is not fn:
                        continue
                    todo.append(c)
            for t in nodes:
                if not isinstance(t, ast.Try):
                    continue
                ops = _io_ops(t.body)
                if not ops:
                    continue
                for h in t.handlers:
                    what = _catches_io(h)
                    if what is None:
                        continue
                    r = _always_raises(h.body)
                    rec = {"line": t.lineno, "handler": what, "file_operations_in_the_try": sorted(set(ops))[:5],
                           "handler_body": ast.unparse(ast.Module(h.body, []))[:80]}
                    if r is False:
                        swallowed.append(rec)
                    elif r is None:
                        unclear.append(rec)
            detail_sw = "a handler swallows the failure of a file operation: the caller is told the operation succeeded"
            for rec in swallowed:       # one obligation per swallowing handler, named by the operations it guards (stable under line moves)
                res.add(f"effects.io_errors_propagate[{q}: {', '.join(rec['file_operations_in_the_try'][:2])}]", REFUTED, rec, 0.0, "ast", detail_sw)
            res.add(f"effects.io_errors_propagate[{q}]", UNKNOWN if unclear else PROVED, {"handlers": unclear} if unclear else None, 0.0, "ast",
                    ("(apart from the handler(s) reported separately) " if swallowed else "") +
                    "no try/except (bare, Exception, BaseException, OSError / IOError, or a tuple with one) around a file operation - write / close / "
                    "flush / seek / truncate, open_with, mkdirs, remove_with, a `with` on a file, a callee that writes - whose handler does not "
                    "raise on every path: a failed write / flush-on-close is the caller's to see (C19: after a failure the dataset is the old or the new one)")
            # ---- files opened here, or the file handed in, are closed by `with` (close errors propagate) or a finally that lets close() raise
            opens = [n for n in nodes if isinstance(n, ast.Call) and isinstance(n.func, ast.Name) and n.func.id in ("open_with", "open", "default_open")]
            params = [x.arg for x in fn.args.args]
            handed = "f" if q in ("make_part_file",) and "f" in params else None
            if not opens and handed is None:
                continue
            withs = [n for n in nodes if isinstance(n, (ast.With, ast.AsyncWith))]
            ctx_exprs = [it.context_expr for wn in withs for it in wn.items]
            bad = []
            for c in opens:
                if any(c is e for e in ctx_exprs):
                    continue
                # name = open_with(..); with name as f:
                tgt = [st.targets[0].id for st in nodes if isinstance(st, ast.Assign) and st.value is c and isinstance(st.targets[0], ast.Name)]
                if tgt and any(isinstance(e, ast.Name) and e.id == tgt[0] for e in ctx_exprs):
                    continue
                bad.append(f"L{c.lineno}: {ast.unparse(c)[:50]} is not closed by a `with`")
            if handed is not None:
                in_with = any(isinstance(e, ast.Name) and e.id == handed for e in ctx_exprs)
                fin_close = False
                for t in nodes:
                    if isinstance(t, ast.Try) and t.finalbody:
                        for stx in t.finalbody:          # a plain `f.close()` statement directly in the finally block (not wrapped in a try)
                            if isinstance(stx, ast.Expr) and isinstance(stx.value, ast.Call) and ast.unparse(stx.value.func) == handed + ".close":
                                fin_close = True
                if not (in_with or fin_close):
                    bad.append(f"the file `{handed}` handed in is neither the subject of a `with` nor closed by a plain `{handed}.close()` in a finally block")
            res.add(f"effects.file_closed_by_with_or_raising_finally[{q}]", PROVED if not bad else REFUTED, None if not bad else {"handles": bad}, 0.0,
                    "ast", "every file opened (or, for make_part_file, handed in) is closed by a `with` block - or a finally whose close() may raise - "
                    "so that a failing close (the final flush) propagates")
    return res


# =============================================================================================================================
# 5. the ThriftObject heap model vs cencoding.pyx (text of the three methods the model rests on)
# =============================================================================================================================
def run_thrift_model(ctx):
    res = Results()
    from . import cy
    funcs, _, _ = cy.load()
    want = {"ThriftObject.copy": "return type(self)(self.name, self.data.copy())", "ThriftObject.__copy__": "return self.copy()"}
    for q, body in want.items():
        f = funcs.get(q)
        got = "; ".join(ast.unparse(s) for s in f.tree.body if not (isinstance(s, ast.Expr) and isinstance(s.value, ast.Constant))) if f else None
        res.add(f"thrift_object_model.{q.split('.')[1]}_is_a_shallow_copy_of_the_field_dict", PROVED if got == body else UNKNOWN,
                None if got == body else {"body": got}, 0.0, "ast", "copy(fmd) is a NEW object over a shallow copy of the field dict: assigning a "
                "field of the copy leaves the original's fields alone")
    f = funcs.get("ThriftObject.__setattr__")
    txt = ast.unparse(f.tree) if f else ""
    ok = "self.data[i] = value.data" in txt and "self.data[i] = [" in txt and "self.data[i] = value" in txt and txt.count("self.data[") == 3
    res.add("thrift_object_model.setattr_stores_into_the_field_dict_only", PROVED if ok else UNKNOWN, None, 0.0, "ast",
            "obj.field = v stores into obj's own dict (a list of structs as a NEW list of their dicts); nothing else is touched")
    f = funcs.get("ThriftObject.__getattr__")
    txt = ast.unparse(f.tree) if f else ""
    ok = "return [ThriftObject(ch, o) if isinstance(o, dict) else o for o in out]" in txt
    res.add("thrift_object_model.list_field_is_handed_out_as_a_new_list", PROVED if ok else UNKNOWN, None, 0.0, "ast",
            "reading fmd.row_groups builds a NEW Python list: appending to it does not change fmd until it is assigned back")
    return res


PARTS = ("model", "mpf", "wcm", "pfwcm", "multi", "poc", "effects", "wrg", "write")


def check(ctx, timeout, parts=None):
    parts = parts or PARTS
    w, _, _ = parse_module("fastparquet/writer.py")
    a, _, _ = parse_module("fastparquet/api.py")
    for mod, fs, names in (("writer", w, ("make_part_file", "write_common_metadata", "write_multi", "write_thrift", "write")),
                           ("api", a, ("ParquetFile._write_common_metadata", "ParquetFile.write_row_groups"))):
        for nm in names:
            ctx.function(f"{mod}.{nm}", fs[nm].sha, fs[nm].report)
    out = []

    def guarded(name, fn, *args):
        try:
            out.append(fn(*args))
        except Unsupported as ex:
            r = Results()
            r.add(f"{name}.out_of_reach", UNKNOWN, None, 0.0, "engine", str(ex))
            out.append(r)
    if "model" in parts:
        guarded("thrift_object_model", run_thrift_model, ctx)
    if "mpf" in parts:
        guarded("make_part_file[fmd given]", run_make_part_file, ctx, w, timeout, True)
        guarded("make_part_file[fmd=None]", run_make_part_file, ctx, w, timeout, False)
    if "wcm" in parts:
        for nrg in (False, True, None):
            guarded(f"write_common_metadata[no_row_groups={'default' if nrg is None else nrg}]", run_write_common_metadata, ctx, w, timeout, nrg)
    if "pfwcm" in parts:
        guarded("_write_common_metadata", run_pf_write_common_metadata, ctx, a, timeout)
    if "multi" in parts:
        for append in (True, False):
            for partition, scheme in ((False, "hive"), (True, "hive"), (True, "drill")):
                guarded(f"write_multi[append={append},partition_on={'no' if not partition else scheme}]", run_write_multi, ctx, w, timeout,
                        append, partition, scheme)
    if "poc" in parts:
        for wf in (True, False):
            guarded(f"partition_on_columns[{'hive' if wf else 'drill'}]", run_partition_on_columns, ctx, w, timeout, wf)
    if "effects" in parts:
        guarded("effects", run_effects, ctx, w, a)
    if "wrg" in parts:
        guarded("write_row_groups", run_write_row_groups, ctx, a, timeout)
    if "write" in parts:
        guarded("write.dispatch", run_write_dispatch, ctx, w, timeout)
    return out


ASSUMED = FILE_ASSUMED + [
    "make_row_group(f, ...) (contracts/c02_bookkeeping.py make_row_group.*): writes only at/after the current position of f, may raise "
    "after writing >= 0 bytes; returns None WITHOUT writing iff len(data) == 0, else a row group with num_rows == len(data) whose chunks "
    "carry no file_path",
    "ThriftObject (cencoding.pyx; text checked by thrift_object_model.*): an object is a dict of fields; copy() is a new object over a "
    "shallow copy of the dict; assigning a field stores into the object's own dict; a list-of-struct field is handed out as a new list",
    "obj.to_bytes() serialises the fields the object has at that moment (byte behaviour: C10 / C16); every footer is shorter than 2**32 bytes",
    "consolidate_categories(fmd) (contracts/c14_cats.py) only rewrites the value of the b'pandas' key-value entry; it is idempotent",
    "partition_on_columns(...) (contracts/c08_paths.py) returns the list of the new row groups it wrote, file paths set",
    "a file opened 'wb' is empty with position 0; opened in any other mode it keeps its previous content; io.BytesIO() is an empty "
    "in-memory file with the same write contract, getvalue() returns its whole content",
    "write_multi: the part loop's frames are arbitrary in number and length (RowsOfFrame(i) >= 0); find_max_part by contracts/c07_parts.py",
]
