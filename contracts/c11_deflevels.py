"""C11 / C02 - definition-level framing of a page without nulls: writer.make_definitions (Python) together with the native
encode_unsigned_varint / NumpyIO methods it calls (extracted from the .pyx), executed as ONE symbolic run.

  deflevels.block_is_spec[v1]   block == le32(len(run)) ++ run      run = ULEB128(n << 1) ++ 0x01   (one RLE run of n ones, width 1)
  deflevels.block_is_spec[v2]   block == run                         (v2 pages carry no length prefix: the length is in the header)
for every 0 <= n < 2**31; plus: the 10-byte scratch buffer is never full when a byte is written (write_byte would drop it silently).
"""
import z3

from vc.front_py import parse_module
from vc.symexec import Engine, Path, Custom, Opaque, Str, PyB, PyI, BytesV, View, NONE, Unsupported, Tup, LoopSpec, CI, Ptr, Ref
from vlib.common import PROVED, REFUTED, UNKNOWN
from . import cy
from .filemodel import Bts, concat, le32, eq_goal, h_struct_pack
from .util import Results, solve

K = z3.Int("k_skolem")


def view_to_bts(p, v):
    if isinstance(v, BytesV):
        return v.seq
    if isinstance(v, View):
        mem, off = p.mem[v.region], v.off
        return Bts(v.n, lambda i, mem=mem, off=off: z3.Select(mem, off + i))
    raise Unsupported("bytes of " + type(v).__name__)


def uleb_len(x):
    return z3.If(x < 128, 1, z3.If(x < 128 ** 2, 2, z3.If(x < 128 ** 3, 3, z3.If(x < 128 ** 4, 4, 5))))


def uleb_spec(x):
    L = uleb_len(x)

    def at(i):
        e = z3.BitVecVal(0, 8)
        xb = z3.Int2BV(x, 64)
        for u in reversed(range(5)):
            low7 = z3.Extract(7, 0, z3.LShR(xb, 7 * u)) & 0x7F
            byte = z3.If(u < L - 1, low7 | 0x80, low7)
            e = z3.If(i == u, byte, e)
        return e
    return Bts(L, at)


def check(ctx, timeout):
    res = Results()
    w, _, _ = parse_module("fastparquet/writer.py")
    cfuncs, fields, consts = cy.load()
    funcs = dict(cfuncs)
    funcs["make_definitions"] = w["make_definitions"]
    ctx.function("writer.make_definitions", w["make_definitions"].sha, w["make_definitions"].report)
    cy.register(ctx, ["encode_unsigned_varint", "NumpyIO.write_byte", "NumpyIO.tell", "NumpyIO.so_far"])
    from vc import backends
    for version in (1, 2):
        def h_numpyio(eng, p, args, kw, node):
            # the scratch buffer has the size the code ALLOCATES for it (np.empty(<n>, dtype=uint8)), not a size assumed here
            buf = args[0] if args else None
            size = getattr(getattr(buf, "h", None), "size", None)
            if size is None:
                raise Unsupported("NumpyIO over a buffer whose allocation size is not visible")
            sz = z3.simplify(size)
            if not z3.is_int_value(sz):
                raise Unsupported("NumpyIO over a buffer of symbolic size")
            k = sz.as_long()
            cap = CI(z3.BitVecVal(k, 32), 32, False, z3.IntVal(k), (k, k))
            zero = CI(z3.BitVecVal(0, 32), 32, False, z3.IntVal(0), (0, 0))
            p.ghost["scratch_size"] = k
            return [(p, cy.new_io(p, "temp", loc=zero, nbytes=cap))]

        class ScratchBuf:
            tracked = False

            def __init__(self, size):
                self.size = size

        def h_empty(eng, p, args, kw, node):
            return [(p, Custom(ScratchBuf(eng.as_int(args[0], p))))]

        def inline(name):
            def h(eng, p, args, kw, node):
                out = []
                for r in eng.run(name, p, args, kw):
                    v = r.ctl[1] if r.ctl[0] == "ret" else NONE
                    r.ctl = None
                    out.append((r, v))
                return out
            return h
        handlers = {"NumpyIO": h_numpyio, "np.empty": h_empty,
                    "cencoding.encode_unsigned_varint": inline("encode_unsigned_varint"), "struct.pack": h_struct_pack,
                    "bytes+": lambda e, p, a, b, n: BytesV(concat(view_to_bts(p, a), view_to_bts(p, b))),
                    "bytes": lambda e, p, a, k, n: [(p, BytesV(view_to_bts(p, a[0])))],
                    "len": None}
        handlers.pop("len")
        n = z3.Int("n_rows")

        class Data:
            tracked = False

            def len(self, eng, p):
                return PyI(n)
        eng = Engine(funcs=funcs, handlers=handlers, inline=("*",), loops={("encode_unsigned_varint", 0): LoopSpec("unroll", 10)},
                     opaque_calls=True)
        eng.class_fields = fields
        p = Path()
        p.pc += [n >= 0, n < 2 ** 31]
        try:
            outs = eng.run("make_definitions", p, [Custom(Data()), PyB(True), PyI(version, lit=True)])
        except Unsupported as ex:
            res.add(f"deflevels.block_is_spec[v{version}]", UNKNOWN, None, 0.0, "engine", "out of reach: " + str(ex))
            continue
        for ob in eng.oblig:
            st, be, secs, m = backends.discharge(ob, timeout)
            res.add(f"make_definitions[v{version}]." + ob.name.split(".", 1)[-1], st, {"n": backends.model_value(m, n)} if m is not None else None,
                    secs, be, ob.note or ob.kind)
        run = concat(uleb_spec(2 * n), Bts.const(b"\x01"))
        spec = concat(le32(run.n), run) if version == 1 else run
        n_ret = 0
        for q in outs:
            if q.ctl[0] != "ret":
                continue
            n_ret += 1
            block = q.ctl[1].items[0] if isinstance(q.ctl[1], Tup) else None
            if not isinstance(block, BytesV):
                res.add(f"deflevels.block_is_spec[v{version}]", UNKNOWN, None, 0.0, "engine", "returned block is not a byte string")
                continue
            # lemma first (pure linear arithmetic): the cursor after the run == length of the run; then used as a fact
            lemma = cy.loc(q, "temp") == run.n
            lem_ok = solve([*q.pc, z3.Not(lemma)], timeout)[0] == PROVED
            st, m, secs = solve([*q.pc, *([lemma] if lem_ok else []), z3.Not(eq_goal(block.seq, spec, K))], timeout)
            if st == UNKNOWN and lem_ok:
                # split the whole-string equality into the length and each of the (at most 10) byte positions
                parts = [solve([*q.pc, lemma, z3.Not(block.seq.n == spec.n)], timeout)[0]]
                for pos in range(10):
                    parts.append(solve([*q.pc, lemma, pos < spec.n, z3.Not(block.seq.at(z3.IntVal(pos)) == spec.at(z3.IntVal(pos)))], timeout)[0])
                st = PROVED if all(x == PROVED for x in parts) else (REFUTED if REFUTED in parts else UNKNOWN)
            mdl = None
            if m is not None:
                mdl = {"n_rows": backends.model_value(m, n), "block_len": backends.model_value(m, block.seq.n),
                       "spec_len": backends.model_value(m, spec.n), "differs_at": backends.model_value(m, K)}
            res.add(f"deflevels.block_is_spec[v{version}]", st, mdl, secs, "z3",
                    "no-null definition block == " + ("le32(len) ++ " if version == 1 else "") + "ULEB128(n << 1) ++ 0x01, for every n < 2**31")
            # the scratch buffer never fills: cursor after the run <= 10 and every byte was really written
            st, m, secs = solve([*q.pc, z3.Not(cy.loc(q, "temp") == run.n)], timeout)
            res.add(f"deflevels.scratch_capacity[v{version}]", st, {"n_rows": backends.model_value(m, n)} if m is not None else None, secs, "z3",
                    "every byte of the run fitted the scratch buffer the code allocates (%s bytes; NumpyIO.write_byte drops bytes silently when full)" % q.ghost.get("scratch_size"))
        if n_ret == 0:
            res.add(f"deflevels.block_is_spec[v{version}]", UNKNOWN, None, 0.0, "engine", "no returning path")
    return res
