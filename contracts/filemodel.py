"""Byte-file model (DESIGN 3.5): a Python binary file object is the ghost pair
       content : (length n : Int, byte function at : Int -> BitVec 8),  pos : Int
Byte strings are represented the same way (`Bts`): a length and an index function built from nested
if-then-else terms, so that every obligation is quantifier-free (whole-content equality is posed at a Skolem
index).  ASSUMED contracts of the file API (listed in every evidence file that uses them):
   write(b)     replaces content[pos : pos+len(b)], extends if needed, NEVER shortens; returns len(b); pos += len(b)
   seek(o, 0)   pos = o;  seek(o, 1): pos += o;  seek(o, 2): pos = len + o;  a negative result raises; returns pos
   read(n)      content[pos : pos+n] clamped to the end; read(): the rest;  pos advances by what was read
   truncate()   content = content[:pos]          tell() = pos
Postconditions talk about the WHOLE content, so trailing garbage is a failure.
"""
import z3

from vc.symexec import Custom, PyI, PyB, BytesV, Str, Opaque, NONE, NoneV, Unsupported, Opt, Tup

BV8 = z3.BitVecSort(8)

FILE_ASSUMED = [
    "file.write(b): bytes at [pos, pos+len(b)) replaced, file extended if needed, never shortened; returns len(b)",
    "file.seek(off, whence in {0,1,2}): raises for a negative resulting position; returns the new position",
    "file.read(n) / read(): bytes from pos, clamped at the end of file",
    "file.truncate(): file cut at the current position; file.tell(): current position",
    "struct.pack('<I', n): the 4 little-endian bytes of n for 0 <= n < 2**32 (raises otherwise)",
    "int.from_bytes(b, 'little') / struct.unpack('<I', b)[0]: little-endian value of b",
]


class Bts:
    """byte string: length n (z3 Int) and at(i) (z3 BitVec 8) for 0 <= i < n"""

    def __init__(self, n, at):
        self.n = n if z3.is_expr(n) else z3.IntVal(n)
        self.at = at

    @staticmethod
    def const(bs):
        def at(i, bs=bs):
            e = z3.BitVecVal(0, 8)
            for k in reversed(range(len(bs))):
                e = z3.If(i == k, z3.BitVecVal(bs[k], 8), e)
            return e
        return Bts(len(bs), at)

    @staticmethod
    def sym(name):
        f = z3.Function(name, z3.IntSort(), BV8)
        return Bts(z3.Int("len_" + name), lambda i: f(i))

    def concat(self, other):
        n1 = self.n
        return Bts(n1 + other.n, lambda i: z3.If(i < n1, self.at(i), other.at(i - n1)))

    def sub(self, start, length):
        return Bts(length, lambda i: self.at(start + i))


def concat(*parts):
    r = parts[0]
    for p in parts[1:]:
        r = r.concat(p)
    return r


def le32(n):
    """the 4 little-endian bytes of Int n (0 <= n < 2**32)"""
    bv = z3.Int2BV(n, 32)

    def at(i):
        return z3.If(i == 0, z3.Extract(7, 0, bv), z3.If(i == 1, z3.Extract(15, 8, bv),
                     z3.If(i == 2, z3.Extract(23, 16, bv), z3.Extract(31, 24, bv))))
    return Bts(4, at)


def eq_goal(a, b, k):
    """a == b as byte strings, posed at the Skolem index k (negate and add 0 <= k to refute)"""
    return z3.And(a.n == b.n, z3.Implies(z3.And(0 <= k, k < a.n), a.at(k) == b.at(k)))


def prefix_goal(a, b, upto, k):
    """a[:upto] == b[:upto]"""
    return z3.And(a.n >= upto, b.n >= upto, z3.Implies(z3.And(0 <= k, k < upto), a.at(k) == b.at(k)))


class FileH:
    """proof-script object behind a Python file object; state lives in path.ghost[key]"""
    tracked = True

    def __init__(self, key="file"):
        self.key = key

    def init(self, p, content, pos=0):
        p.ghost[self.key] = {"content": content, "pos": pos if z3.is_expr(pos) else z3.IntVal(pos), "writes": 0,
                             "ops": []}

    def st(self, p):
        return p.ghost[self.key]

    def attr(self, eng, p, name):
        return Opaque(("filemethod", name))

    def call_method(self, eng, p, name, args, kw, node):
        s = self.st(p)
        c, pos = s["content"], s["pos"]
        ln = c.n
        fn = eng.cur_func
        if name == "seek":
            off = eng.as_int(args[0])
            wh = args[1] if len(args) > 1 else kw.get("whence", PyI(0))
            w = z3.simplify(eng.as_int(wh))
            if not z3.is_int_value(w):
                raise Unsupported("symbolic whence")
            newpos = off if w.as_long() == 0 else (pos + off if w.as_long() == 1 else ln + off)
            eng.oblige(p, f"{fn}.seek_position_nonnegative@L{node.lineno}", "safety", newpos >= 0, node,
                       note="a negative seek raises (OSError/ValueError) in Python")
            p.pc.append(newpos >= 0)
            s["pos"] = z3.simplify(newpos)
            s["ops"].append(("seek", node.lineno))
            return [(p, PyI(s["pos"]))]
        if name == "tell":
            return [(p, PyI(pos))]
        if name == "read":
            avail = z3.If(ln - pos > 0, ln - pos, 0)
            if args and not isinstance(args[0], NoneV):
                n = eng.as_int(args[0])
                k = z3.If(n < 0, avail, z3.If(n < avail, n, avail))
            else:
                k = avail
            data = c.sub(pos, z3.simplify(k))
            s["pos"] = z3.simplify(pos + k)
            s["ops"].append(("read", node.lineno))
            return [(p, BytesV(data))]
        if name == "write":
            b = args[0]
            if not isinstance(b, BytesV):
                raise Unsupported("file.write of " + type(b).__name__)
            b = b.seq
            lb = b.n
            eng.oblige(p, f"{fn}.write_not_past_end@L{node.lineno}", "safety", pos <= ln, node,
                       note="writing beyond the end would zero-fill a gap")
            old_at, wpos = c.at, pos
            newn = z3.If(wpos + lb >= ln, wpos + lb, ln)
            s["content"] = Bts(z3.simplify(newn),
                               lambda i: z3.If(z3.And(i >= wpos, i < wpos + lb), b.at(i - wpos), old_at(i)))
            s["pos"] = z3.simplify(pos + lb)
            s["writes"] += 1
            s["ops"].append(("write", node.lineno))
            return [(p, PyI(lb))]
        if name == "truncate":
            if args:
                raise Unsupported("truncate(size)")
            s["content"] = Bts(pos, c.at)
            s["ops"].append(("truncate", node.lineno))
            return [(p, PyI(pos))]
        if name in ("close", "flush", "__exit__"):
            return [(p, NONE)]
        if name == "__enter__":
            return [(p, Custom(self))]
        raise Unsupported("file." + name)

    def truth(self, eng, p):
        return z3.BoolVal(True)


# ---- library models over byte strings -----------------------------------------------------------
def _fmt(v):
    if isinstance(v, Str):
        return v.s
    return None


def h_struct_pack(eng, p, args, kw, node):
    f = _fmt(args[0])
    if f not in ("<I", "<i"):
        raise Unsupported(f"struct.pack format {f!r}")
    n = eng.as_int(args[1])
    lo, hi = (0, 2 ** 32) if f == "<I" else (-2 ** 31, 2 ** 31)
    eng.oblige(p, f"{eng.cur_func}.struct_pack_in_range@L{node.lineno}", "safety", z3.And(n >= lo, n < hi), node,
               note="struct.pack raises struct.error outside the range")
    return [(p, BytesV(le32(n)))]


def le_value(b, nbytes=4):
    return z3.Sum(*[z3.If(k < b.n, z3.BV2Int(b.at(z3.IntVal(k)), is_signed=False) * (256 ** k), 0) for k in range(nbytes)])


def h_from_bytes(eng, p, args, kw, node):
    b = args[0]
    if not isinstance(b, BytesV):
        raise Unsupported("int.from_bytes of " + type(b).__name__)
    order = args[1].s if len(args) > 1 and isinstance(args[1], Str) else None
    if order != "little":
        raise Unsupported("int.from_bytes byteorder")
    eng.oblige(p, f"{eng.cur_func}.from_bytes_at_most_4@L{node.lineno}", "safety", b.seq.n <= 4, node)
    return [(p, PyI(le_value(b.seq)))]


def h_struct_unpack(eng, p, args, kw, node):
    f = _fmt(args[0])
    b = args[1]
    if f not in ("<I", "<i") or not isinstance(b, BytesV):
        raise Unsupported("struct.unpack")
    eng.oblige(p, f"{eng.cur_func}.struct_unpack_needs_4_bytes@L{node.lineno}", "safety", b.seq.n == 4, node,
               note="struct.unpack raises struct.error on a short buffer")
    p.pc.append(b.seq.n == 4)
    v = le_value(b.seq)
    if f == "<i":
        v = z3.If(v >= 2 ** 31, v - 2 ** 32, v)
    return [(p, Tup([PyI(v)]))]


def install_byte_constants(eng):
    """byte literals become byte strings; the struct format literals b'<I' become format strings"""
    orig = eng.e_Constant

    def e_const(e, p):
        if isinstance(e.value, bytes):
            if e.value in (b"<I", b"<i"):
                return [(p, Str(e.value.decode()))]
            return [(p, BytesV(Bts.const(e.value)))]
        return orig(e, p)
    eng.e_Constant = e_const
