"""C09 - dataset edits: api.ParquetFile.remove_row_groups (+ api.row_groups_map), writer.overwrite,
api.ParquetFile._sort_part_names (+ api.part_ids, api.partitions), executed symbolically from their real sources.

Row groups are abstract objects j in [0, N) carrying  NR(j) = num_rows,  FILE(j) = text of columns[0].file_path
(for the rename plan: FILE(j) = DIR(j) + '/part.' + NUM(j) + '.parquet', DIR(j) == 0 meaning "no directory").
Every call that touches the dataset (list mutation, fmd attribute store, remove_with, fs.rename, _sort_part_names,
_write_common_metadata, write_row_groups, remove_row_groups) is appended to a ghost effect trace.

remove_row_groups(rgs)      rgs = duplicate-free list of K members of fmd.row_groups: position k holds row group SEL(k),
                            POS(j) = position of row group j in rgs or -1.
  remove.num_rows_decreases_by_removed       fmd.num_rows' == fmd.num_rows - sum_{k<K} NR(SEL(k))      (.on_entry / .step = loop invariant)
  remove.row_groups_is_old_minus_chosen      fmd.row_groups' == [old[j] | POS(j) < 0] in the old order   (whole list, Skolem j)
  remove.list_remove_finds_element           list.remove never raises ValueError
  remove.no_mutation_of_iterated_list        the list that is mutated is not the list that is iterated (aliasing branch / deepcopy)
  remove.files_removed_are_files_of_chosen   remove_with gets [basepath/file for file in files of the CHOSEN row groups] ...
  remove.files_removed_cover_chosen          ... all of them; remove.remove_with_called_once
  remove.partial_file_raises_first           ANY dataset: a file holding chosen AND kept row groups makes the call raise before any effect
  remove.no_kept_file_deleted[foreign or flat | one row group per file | any layout]   no file handed to remove_with holds a kept row
                                             group; [any layout] = no precondition (was refuted before fix 7ff1610: the check was skipped
                                             for fastparquet-created hive/drill datasets)
  remove.simple_scheme_raises / raise_before_any_effect / metadata_written_iff_write_fmd / sorted_iff_sort_pnames /
  sort_defers_metadata / handle_refreshed_after_update / empty_selection_changes_nothing
row_groups_map.*            per file f: len(result[f]) == number of members with FILE == f; keys == files of the members
                            (loop invariant counts_per_file; used as a cut at the two call sites of remove_row_groups)
overwrite.*
  overwrite.partition_text_key_order         the new data's partition texts are the '/'-joined texts of ALL values of each row of
                                             data.loc[:, defined_partitions], the selector BEING the ordered list defined_partitions =
                                             list(pf.cats) (columns by name in the dataset's partition order; not a mask, not the frame's
                                             own order), all rows ({'/'.join(path_string(v) for v in key) for key in ....itertuples(index=False)};
                                             the pre-1c32364 form .astype(str).agg('/'.join, axis=1) has the same key order)
  overwrite.removes_exactly_matching_partitions   rg selected  <=>  partitions(rg, True) in {partition text of a new row}
  overwrite.selection_ranges_over_all_existing    the filter ranges over all row groups of the dataset as opened
  overwrite.write_before_remove / metadata_written_last / writes_the_new_data
  overwrite.simple_scheme_raises / no_partitions_raises / raise_before_any_effect
  overwrite.partition_text_conventions_agree[T]   backend `enumeration (executed)`: for every value v of the partition value-type table T
                                             (bool, numpy/nullable bool, ints, float64/float32 integral and fractional, str, date objects,
                                             datetime64 naive/tz-aware, categories of those, two columns) the REAL pure prefix of
                                             partition_on_columns' group loop (groupby key -> path_string -> join_path) and the REAL filter
                                             predicate of overwrite (partitions(path, True) in <text of the new data>) are executed: the row
                                             group filed under <col>=<text of v> is selected exactly when the new data holds v.  Complete
                                             for the type table, bounded in the value dimension.  all rows PROVED since fix 1c32364 (before it: Timestamp
                                             keys - isoformat vs astype(str) - and float32 values with inexact decimals disagreed)
partitions.*                None iff the path has no '/'; only_values=False: the directory of the path; True: '/'.join(re.split('/|=', p)[1::2])
part_ids.*                  keys == part numbers of the referenced files; D[n] == (f, path_f), f the FIRST row group with number n
rename.* (_sort_part_names) ghost directory map, see run_sort:
  rename.pass1_targets_fresh / pass1_sources_live / pass2_sources_are_pass1_targets / pass2_targets_free   [any numbering] and
                                             [part numbers distinct]; pass2_targets_free[any numbering] is REFUTED = known finding
                                             C09-P-sort-part-names-number-collision (two referenced files in different directories share a number)
  rename.metadata_follows[...]               EVERY row group whose file is renamed carries the file's final name on all its columns, every
                                             other row group's path is unchanged; [any files] = files may hold several row groups (was
                                             refuted before fix 75dfd7f: only the first row group of a renamed file was relabelled)
  rename.file_stays_in_its_directory / names_are_part_files / paths_under_basepath / metadata_path_is_relative /
  metadata_written_iff_write_fmd / empty_dataset_untouched
"""
import ast
import itertools

import z3

from vc import backends
from vc.front_py import parse_module
from vc.symexec import (Engine, Path, Custom, Opaque, Str, PyB, PyI, NONE, NoneV, Unsupported, Tup, Opt, AbstractComp)
from vlib.common import PROVED, REFUTED, UNKNOWN
from .util import Results, solve

I, B = z3.IntSort(), z3.BoolSort()
NR = z3.Function("NumRowsOfRowGroup", I, I)
FILE = z3.Function("FileOfRowGroup", I, I)              # identity of the text rg.columns[0].file_path
SEL = z3.Function("ChosenAtPosition", I, I)             # rgs[k] is row group SEL(k)
POS = z3.Function("PositionInChosen", I, I)             # inverse of SEL, -1 when not chosen
SUMNR = z3.Function("SumNumRowsOfChosenPrefix", I, I)   # SUMNR(i) = sum_{k<i} NR(SEL(k))
CNT_CH = z3.Function("ChosenRowGroupsInFile", I, I)     # number of chosen row groups whose file is f
CNT_ALL = z3.Function("RowGroupsInFile", I, I)          # number of row groups of the dataset whose file is f
SCHEMES = {"simple": 0, "flat": 1, "hive": 2, "drill": 3, "empty": 4, "other": 5}

FID_COLLIDE = "C09-P-sort-part-names-number-collision"
# repaired in /repo (records `fixed-C09-remove-partial-file` 7ff1610, `fixed-C09-sort-part-names-multi-rg` 75dfd7f): the obligations
# remove.no_kept_file_deleted[any layout] and rename.metadata_follows[any files] are PROVED now; reverting a fix is a canary


# ---- engine extensions ------------------------------------------------------------------------------------------
class LambdaV:
    """a lambda kept with its AST and the environment it closes over (the engine's default is an opaque value)"""
    tracked = False

    def __init__(self, node, env):
        self.node, self.env = node, env

    def apply(self, eng, p, args):
        saved = p.env
        p.env = dict(self.env)
        for a, v in zip(self.node.args.args, args):
            p.env[a.arg] = v
        try:
            r = eng.ev(self.node.body, p)
        finally:
            p.env = saved
        if len(r) != 1:
            raise Unsupported("forking lambda body")
        return r[0][1]


class FStr:
    """f-string: list of parts (Str literals / values)"""
    tracked = False

    def __init__(self, parts):
        self.parts = parts


class SliceAll:
    tracked = False


class StrMethod:
    tracked = False

    def __init__(self, s, name):
        self.s, self.name = s, name


class Eng(Engine):
    def e_Lambda(self, e, p):
        return [(p, Custom(LambdaV(e, dict(p.env))))]

    def e_JoinedStr(self, e, p):
        parts = []
        for v in e.values:
            if isinstance(v, ast.Constant):
                parts.append(Str(v.value))
            else:
                parts.append(self.ev1(v.value, p))
        return [(p, Custom(FStr(parts)))]

    def e_Slice(self, e, p):
        if e.lower is None and e.upper is None and e.step is None:
            return [(p, Custom(SliceAll()))]
        raise Unsupported("bare slice with bounds")

    def getattr(self, o, attr, p, node):
        if isinstance(o, Str):
            return Custom(StrMethod(o.s, attr))
        return super().getattr(o, attr, p, node)

    def e_Call(self, e, p):
        # a local variable that holds a function given by the proof script (remove_with(...), open_with(...))
        fn = e.func
        if isinstance(fn, ast.Name) and fn.id in p.env and ("var:" + fn.id) in self.handlers:
            out = []
            for q, (args, kw) in self.ev_args(e, p):
                out += self.handlers["var:" + fn.id](self, q, [q.env[fn.id]] + args, kw, e)
            return out
        return super().e_Call(e, p)

    def e_DictComp(self, e, p):
        if "dictcomp" in self.handlers:
            r = self.handlers["dictcomp"](self, p, e)
            if r is not None:
                return r
        return super().e_DictComp(e, p)


def effects(p):
    return p.ghost.setdefault("effects", [])


def discharge_engine(eng, res, prefix, timeout, rename=None, model_fn=None):
    for ob in eng.oblig:
        st, be, secs, m = backends.discharge(ob, timeout)
        nm = ob.name
        if rename:
            nm = rename(nm)
        elif not nm.startswith(prefix):
            nm = prefix + nm.split(".", 1)[-1]
        res.add(nm, st, (model_fn(m) if model_fn else {"z3_model": str(m)[:400]}) if m is not None else None, secs, be, ob.note or ob.kind)
    eng.oblig = []


def mval(m, t):
    try:
        return backends.model_value(m, t)
    except Exception:
        return str(m.eval(t, model_completion=True))


# =================================================================================================================
#  shared abstract row-group objects
# =================================================================================================================
class PathV:
    """the text rg.columns[0].file_path of row group j"""
    tracked = False

    def __init__(self, j):
        self.j = j

    def isinstance(self, eng, p, tn):
        return z3.BoolVal("str" in tn)


class ColV:
    tracked = False

    def __init__(self, j, c=None):
        self.j, self.c = j, c

    def attr(self, eng, p, name):
        if name == "file_path":
            return Custom(PathV(self.j))
        raise Unsupported("column." + name)

    def setattr(self, eng, p, name, v):
        if name != "file_path":
            raise Unsupported("store to column." + name)
        effects(p).append(("set_file_path", self.j, self.c, v))


class ColsV:
    """rg.columns: an abstract non-empty list of column chunks (all of one row group share the file path)"""
    tracked = False

    def __init__(self, j):
        self.j = j

    def getitem(self, eng, p, i, node):
        return Custom(ColV(self.j, eng.as_int(i)))

    def for_loop(self, eng, p, st):
        # body for ONE arbitrary column; only attribute stores on the column are expected (recorded as 'every column' effects)
        n0 = len(effects(p))
        env0 = dict(p.env)
        outs = []
        for q in eng.assign(st.target, Custom(ColV(self.j, "every")), p):
            for r in eng.block(st.body, [q]):
                if r.ctl not in (None, "continue"):
                    raise Unsupported("column loop leaves early")
                r.ctl = None
                for k, v in r.env.items():
                    if k not in _names(st.target) and env0.get(k) is not v:
                        raise Unsupported("column loop assigns " + k)
                for ef in effects(r)[n0:]:
                    if ef[0] != "set_file_path" or ef[2] != "every":
                        raise Unsupported("column loop has another effect: " + ef[0])
                outs.append(r)
        return outs


def _names(t):
    return {n.id for n in ast.walk(t) if isinstance(n, ast.Name)}


class RGV:
    tracked = False

    def __init__(self, j):
        self.j = j

    def attr(self, eng, p, name):
        if name == "columns":
            return Custom(ColsV(self.j))
        if name == "num_rows":
            return PyI(NR(self.j))
        raise Unsupported("row_group." + name)

    def eq(self, eng, p, other):
        if isinstance(other, Custom) and isinstance(other.h, RGV):
            return self.j == other.h.j          # ASSUMED: different row groups of a dataset never compare equal
        return z3.BoolVal(False)

    def isinstance(self, eng, p, tn):
        return z3.BoolVal("ThriftObject" in tn and "list" not in tn)


# =================================================================================================================
#  api.row_groups_map
# =================================================================================================================
MEM = z3.Function("MemberAtPosition", I, I)                  # generic argument list: position k holds row group MEM(k)
CNTP = z3.Function("MembersOfFileInPrefix", I, I, I)         # CNTP(i, f) = #{k < i : FILE(MEM(k)) == f}


class GenList:
    """argument of row_groups_map: n members, position k holds row group MEM(k); the loop is run on the invariant
         for every file f:  len(files_rgs[f]) == CNTP(i, f)   and   (f is a key  <=>  CNTP(i, f) > 0)"""
    tracked = False

    def __init__(self, n, fS):
        self.n, self.fS = n, fS

    def getitem(self, eng, p, i, node):
        k = eng.as_int(i)
        eng.oblige(p, "row_groups_map.index_in_range", "safety", z3.And(0 <= k, k < self.n), node)
        return Custom(RGV(MEM(k)))

    def len(self, eng, p):
        return PyI(self.n)

    def for_loop(self, eng, p, st):
        dd = p.ghost.get("dd")
        if dd is None:
            raise Unsupported("row_groups_map: loop before the dict exists")
        fS = self.fS

        def inv(q, i):
            return z3.And(z3.Select(q.ghost["dd:len"], fS) == CNTP(i, fS), z3.Select(q.ghost["dd:key"], fS) == (CNTP(i, fS) > 0))
        p.pc.append(CNTP(0, fS) == 0)
        eng.oblige(p, "row_groups_map.counts_per_file.on_entry", "inv", inv(p, z3.IntVal(0)), st,
                   note="before the loop every list is empty and there is no key")
        n_eff = len(effects(p))
        # arbitrary iteration i: havoc everything the body can change (the dict), assume the invariant (instantiated at the
        # Skolem file of the goal and at the file touched in this iteration)
        body = p.fork()
        i = eng.fresh_int("i_map")
        body.pc += [0 <= i, i < self.n]
        body.ghost["dd:len"] = z3.Array(f"len_of_list!{next(eng.counter)}", I, I)
        body.ghost["dd:key"] = z3.Array(f"is_key!{next(eng.counter)}", I, B)
        fi = FILE(MEM(i))
        for f in (fS, fi):
            body.pc += [z3.Select(body.ghost["dd:len"], f) == CNTP(i, f), z3.Select(body.ghost["dd:key"], f) == (CNTP(i, f) > 0),
                        CNTP(i + 1, f) == CNTP(i, f) + z3.If(FILE(MEM(i)) == f, 1, 0), CNTP(i, f) >= 0]
        env0 = dict(body.env)
        outs = []
        for q in eng.assign(st.target, Custom(RGV(MEM(i))), body):
            for r in eng.block(st.body, [q]):
                if r.ctl not in (None, "continue"):
                    outs.append(r)
                    continue
                if len(effects(r)) != n_eff:
                    raise Unsupported("row_groups_map: loop body has effects")
                eng.oblige(r, "row_groups_map.counts_per_file.preserved", "inv", inv(r, i + 1), st,
                           note="after appending member i under its own file every per-file count is that of the prefix i+1")
        # exit: invariant at i == n
        ex = p.fork()
        ex.ghost["dd:len"] = z3.Array(f"len_of_list!{next(eng.counter)}", I, I)
        ex.ghost["dd:key"] = z3.Array(f"is_key!{next(eng.counter)}", I, B)
        ex.pc.append(inv(ex, self.n))
        for k in _names(st.target):
            ex.env[k] = Opaque(("after_loop", k))
        for nd in ast.walk(ast.Module(body=st.body, type_ignores=[])):
            if isinstance(nd, ast.Name) and isinstance(nd.ctx, ast.Store):
                ex.env[nd.id] = Opaque(("after_loop", nd.id))
        return outs + [ex]


class DDict:
    """collections.defaultdict(lambda: []) keyed by file-path text: ghost arrays  file -> len(list), file -> is a key"""
    tracked = False

    def getitem(self, eng, p, i, node):
        if not (isinstance(i, Custom) and isinstance(i.h, PathV)):
            raise Unsupported("defaultdict key is not a file path")
        f = FILE(i.h.j)
        p.ghost["dd:key"] = z3.Store(p.ghost["dd:key"], f, True)      # __missing__ inserts the key
        return Custom(DDEntry(f))


class DDEntry:
    tracked = False

    def __init__(self, f):
        self.f = f

    def call_method(self, eng, p, name, args, kw, node):
        if name != "append":
            raise Unsupported("list." + name)
        rg = args[0]
        ok = isinstance(rg, Custom) and isinstance(rg.h, RGV)
        eng.oblige(p, "row_groups_map.member_filed_under_own_path", "post", FILE(rg.h.j) == self.f if ok else z3.BoolVal(False), node,
                   note="the row group appended to files_rgs[file] has columns[0].file_path == file")
        p.ghost["dd:len"] = z3.Store(p.ghost["dd:len"], self.f, z3.Select(p.ghost["dd:len"], self.f) + 1)
        return [(p, NONE)]


def run_row_groups_map(ctx, funcs, timeout):
    res = Results()
    n, fS = z3.Int("n_members"), z3.Int("file_skolem")

    def h_defaultdict(eng, p, args, kw, node):
        lam = args[0] if args else None
        if not (isinstance(lam, Custom) and isinstance(lam.h, LambdaV) and isinstance(lam.h.node.body, ast.List) and not lam.h.node.body.elts):
            raise Unsupported("defaultdict factory is not `lambda: []`")
        p.ghost["dd"] = True
        p.ghost["dd:len"] = z3.K(I, z3.IntVal(0))
        p.ghost["dd:key"] = z3.K(I, z3.BoolVal(False))
        return [(p, Custom(DDict()))]
    eng = Eng(funcs=funcs, handlers={"defaultdict": h_defaultdict}, opaque_calls=True)
    p = Path()
    p.pc.append(n >= 0)
    outs = eng.run("row_groups_map", p, [Custom(GenList(n, fS))])
    discharge_engine(eng, res, "row_groups_map.", timeout)
    rets = [q for q in outs if q.ctl[0] == "ret"]
    for q in rets:
        v = q.ctl[1]
        if not (isinstance(v, Custom) and isinstance(v.h, DDict)):
            res.add("row_groups_map.returns_the_map", REFUTED, {"returned": type(v).__name__}, 0.0, "trace", "the dict built by the loop is returned")
            continue
        res.add("row_groups_map.returns_the_map", PROVED, None, 0.0, "trace", "the dict built by the loop is returned")
        cs = list(q.pc) + list(q.axioms)
        st, m, secs = solve(cs + [z3.Not(z3.Select(q.ghost["dd:len"], fS) == CNTP(n, fS))], timeout)
        res.add("row_groups_map.len_is_members_of_file", st, {"z3_model": str(m)[:300]} if m is not None else None, secs, "z3",
                "for EVERY file f: len(result[f]) == number of members whose columns[0].file_path is f")
        st, m, secs = solve(cs + [z3.Not(z3.Select(q.ghost["dd:key"], fS) == (CNTP(n, fS) > 0))], timeout)
        res.add("row_groups_map.keys_are_files_of_members", st, {"z3_model": str(m)[:300]} if m is not None else None, secs, "z3",
                "f is a key of the result exactly when some member has file f")
    if not rets:
        ctx.engine_error("row_groups_map: no returning path")
    ctx.vacuity["covers"] += len(rets)
    return res


# =================================================================================================================
#  api.ParquetFile.remove_row_groups
# =================================================================================================================
class RM:
    """symbols of one remove_row_groups run"""
    N, K, NR0 = z3.Int("n_row_groups"), z3.Int("n_chosen"), z3.Int("num_rows_before")
    jS, jW, kW = z3.Int("j_skolem"), z3.Int("j_kept_witness"), z3.Int("k_chosen_witness")
    IS_FP, IS_LIST, ALIAS, SAME = z3.Bool("created_by_has_fastparquet"), z3.Bool("rgs_is_a_list"), z3.Bool("rgs_is_fmd_row_groups_object"), z3.Bool("rgs_equals_fmd_row_groups")
    SCHEME = z3.Int("file_scheme")
    WRITE_FMD, SORT_PNAMES = z3.Bool("write_fmd"), z3.Bool("sort_pnames")

    @staticmethod
    def sel_facts(k):
        return [0 <= SEL(k), SEL(k) < RM.N, POS(SEL(k)) == k, NR(SEL(k)) >= 0]

    @staticmethod
    def pos_facts(j):
        return [POS(j) >= -1, POS(j) < RM.K, z3.Implies(POS(j) >= 0, SEL(POS(j)) == j)]

    @staticmethod
    def pre():
        c = [RM.N >= 0, RM.K >= 0, RM.K <= RM.N, 0 <= RM.SCHEME, RM.SCHEME <= 5, SUMNR(0) == 0,
             z3.Implies(RM.ALIAS, RM.IS_LIST), z3.Implies(RM.ALIAS, RM.SAME),
             z3.Implies(RM.K > 0, z3.And(0 <= RM.kW, RM.kW < RM.K))]
        c += RM.pos_facts(RM.jS) + RM.pos_facts(RM.jW)
        c += [z3.Implies(RM.K > 0, z3.And(*RM.sel_facts(RM.kW)))]
        # rgs == fmd.row_groups (element-wise, same length): universally quantified, instantiated at the witnesses
        c += [z3.Implies(RM.SAME, z3.And(RM.K == RM.N, POS(RM.jS) == RM.jS, POS(RM.jW) == RM.jW, z3.Implies(RM.K > 0, SEL(RM.kW) == RM.kW)))]
        # counting lemmas (pure mathematics about a duplicate-free sub-list of a list), instantiated at (kW, jW)
        f = FILE(SEL(RM.kW))
        c += [z3.Implies(RM.K > 0, z3.And(CNT_CH(f) >= 1, CNT_CH(f) <= CNT_ALL(f),
                                          z3.Implies(z3.And(CNT_CH(f) >= CNT_ALL(f), 0 <= RM.jW, RM.jW < RM.N),
                                                     z3.Implies(FILE(RM.jW) == f, POS(RM.jW) >= 0))))]
        return c


class SchemeV:
    tracked = False

    def __init__(self, z):
        self.z = z

    def eq(self, eng, p, other):
        if isinstance(other, Str):
            return self.z == SCHEMES.get(other.s, 5) if other.s in SCHEMES else z3.BoolVal(False)
        raise Unsupported("file_scheme compared with a non-literal")


class CreatedBy:
    tracked = False

    def contains(self, eng, p, item):
        if isinstance(item, Opaque) and item.tag == ("bytes", b"fastparquet"):
            return RM.IS_FP
        return eng.fresh("created_by_contains", B)


class FileKey:
    """a key of row_groups_map(...): the file-path text of member row group j"""
    tracked = False

    def __init__(self, j, which):
        self.j, self.which = j, which


class MapEntry:
    tracked = False

    def __init__(self, which, f):
        self.which, self.f = which, f

    def len(self, eng, p):
        if self.which not in ("chosen", "all"):
            raise Unsupported("per-file count of a mutated list")
        return PyI((CNT_CH if self.which == "chosen" else CNT_ALL)(self.f))


class RgMap:
    """result of row_groups_map(L) (contract proved in run_row_groups_map): len(M[f]) = members of L with file f; keys = their files"""
    tracked = False

    def __init__(self, which):
        self.which = which

    def member(self, eng, p):
        if self.which == "chosen":
            return SEL(RM.kW)            # the arbitrary key is the file of the witness member (universal facts only)
        j = eng.fresh_int("j_any")
        p.pc += [0 <= j, j < RM.N] + RM.pos_facts(j)
        if isinstance(self.which, tuple):       # map of a list that was already mutated: members still in it
            p.pc.append(z3.Not(z3.Select(p.ghost["rem:" + self.which[1]], j)))
        return j

    def arbitrary(self, eng, p):
        return Custom(FileKey(self.member(eng, p), self.which))

    def getitem(self, eng, p, i, node):
        if isinstance(i, Custom) and isinstance(i.h, (FileKey, PathV)):
            return Custom(MapEntry(self.which, FILE(i.h.j)))
        raise Unsupported("row_groups_map result indexed by a non-file")

    def truth(self, eng, p):
        return (RM.K if self.which == "chosen" else RM.N) > 0

    def for_loop(self, eng, p, st):
        """`for file in <map>`: body for the arbitrary key; it may only raise (the loop carries no state)"""
        n_eff, env0 = len(effects(p)), dict(p.env)
        outs = []
        for q in eng.assign(st.target, self.arbitrary(eng, p), p.fork()):
            for r in eng.block(st.body, [q]):
                if r.ctl in (None, "continue"):
                    r.ctl = None
                    if len(effects(r)) != n_eff or any(env0.get(k) is not v for k, v in r.env.items() if k not in _names(st.target)):
                        raise Unsupported("guard loop changes state")
                    for k in _names(st.target):
                        r.env[k] = Opaque(("after_loop", k))
                    outs.append(r)          # the universally quantified 'guard did not fire', instantiated at the witness key
                elif r.ctl == "break":
                    raise Unsupported("break in guard loop")
                else:
                    outs.append(r)
        return outs


class RList:
    """a list of row groups derived from the old fmd.row_groups: the old members in the old order minus Rem (ghost array
    `rem:<lid>`).  ASSUMED list.remove(x): removes the first element EQUAL to x, keeps the order of the others, ValueError if none."""
    tracked = False

    def __init__(self, lid):
        self.lid = lid

    def rem(self, p):
        return p.ghost["rem:" + self.lid]

    def pristine(self, p):
        return self.rem(p).eq(z3.K(I, z3.BoolVal(False)))

    def truth(self, eng, p):
        if self.pristine(p):
            return RM.N > 0
        return eng.fresh("list_nonempty", B)

    def len(self, eng, p):
        if self.pristine(p):
            return PyI(RM.N)
        raise Unsupported("len of a mutated list")

    def isinstance(self, eng, p, tn):
        return z3.BoolVal("list" in tn)

    def eq(self, eng, p, other):
        if isinstance(other, Custom) and isinstance(other.h, ChosenList) and self.pristine(p):
            return RM.SAME
        raise Unsupported("list comparison")

    def call_method(self, eng, p, name, args, kw, node):
        if name != "remove" or len(args) != 1:
            raise Unsupported("row group list." + name)
        rg = args[0]
        if not (isinstance(rg, Custom) and isinstance(rg.h, RGV)):
            raise Unsupported("list.remove of a non row group")
        j = rg.h.j
        eng.oblige(p, "remove.list_remove_finds_element", "safety", z3.And(0 <= j, j < RM.N, z3.Not(z3.Select(self.rem(p), j))), node,
                   note="list.remove(rg) raises ValueError unless rg is (still) in the list")
        if p.ghost.get("iterating_chosen"):
            eng.oblige(p, "remove.no_mutation_of_iterated_list", "safety", z3.Not(RM.ALIAS) if self.lid == "L0" else z3.BoolVal(True), node,
                       note="the list being mutated must not be the object that `for rg in rgs` iterates (else elements are skipped)")
        p.ghost["rem:" + self.lid] = z3.Store(self.rem(p), j, True)
        effects(p).append(("list_remove", self.lid, j))
        return [(p, NONE)]


class ChosenList:
    """`rgs`: K pairwise different members of fmd.row_groups, position k holds row group SEL(k)"""
    tracked = False

    def len(self, eng, p):
        return PyI(RM.K)

    def truth(self, eng, p):
        return RM.K > 0

    def isinstance(self, eng, p, tn):
        return RM.IS_LIST if tn == "list" else z3.BoolVal(False)

    def eq(self, eng, p, other):
        if isinstance(other, Custom) and isinstance(other.h, RList) and other.h.pristine(p):
            return RM.SAME
        raise Unsupported("list comparison")

    def arbitrary(self, eng, p):
        return Custom(RGV(SEL(RM.kW)))

    def for_loop(self, eng, p, st):
        LOOP_EFFECTS = ("list_remove", "set_num_rows")

        def run_body(q, i):
            q.ghost["iterating_chosen"] = True
            outs = []
            for r in eng.assign(st.target, Custom(RGV(SEL(i))), q):
                outs += eng.block(st.body, [r])
            for r in outs:
                r.ghost["iterating_chosen"] = False
            return outs

        def state_keys(g):
            return [k for k in g if k.startswith("rem:") or k == "fmd.num_rows"]

        def changed(a, b):
            return not (a is b or (z3.is_expr(a) and z3.is_expr(b) and a.eq(b)))
        # 1. which state does the body change? (scratch run, obligations discarded)
        i = eng.fresh_int("i_remove")
        n_ob, n_eff = len(eng.oblig), len(effects(p))
        pr = p.fork()
        pr.pc += [0 <= i, i < RM.K] + RM.sel_facts(i)
        mod = set()
        for r in run_body(pr, i):
            if r.ctl not in (None, "continue"):
                raise Unsupported("the removal loop can leave early")
            for k in state_keys(r.ghost):
                if k not in p.ghost or changed(r.ghost[k], p.ghost[k]):
                    mod.add(k)
            if changed(r.ghost.get("fmd.rgs"), p.ghost.get("fmd.rgs")):
                raise Unsupported("the removal loop rebinds fmd.row_groups")
            for ef in effects(r)[n_eff:]:
                if ef[0] not in LOOP_EFFECTS:
                    raise Unsupported("the removal loop has an effect outside its invariant: " + ef[0])
            for k, v in r.env.items():
                if k not in _names(st.target) and pr.env.get(k) is not v and k in p.env:
                    raise Unsupported("the removal loop assigns local " + k)
        del eng.oblig[n_ob:]
        mod = sorted(mod)

        def inv_terms(q, i, xs):
            out = []
            for k in mod:
                if k == "fmd.num_rows":
                    out.append(("remove.num_rows_decreases_by_removed", q.ghost[k] == RM.NR0 - SUMNR(i)))
                else:
                    out.append(("remove.row_groups_is_old_minus_chosen",
                                z3.And(*[z3.Select(q.ghost[k], x) == z3.And(0 <= POS(x), POS(x) < i) for x in xs])))
            return out

        def havoc(q):
            for k in mod:
                q.ghost[k] = eng.fresh_int("num_rows_at_i") if k == "fmd.num_rows" else z3.Array(f"removed_at_i!{next(eng.counter)}", I, B)
        xE = eng.fresh_int("x_entry")
        pe = p.fork()
        pe.pc += [0 <= xE, xE < RM.N] + RM.pos_facts(xE)
        for nm, t in inv_terms(pe, z3.IntVal(0), [xE]):
            eng.oblige(pe, nm + ".on_entry", "inv", t, st, note="loop invariant holds before the first iteration")
        # 2. the arbitrary iteration
        body = p.fork()
        xP = eng.fresh_int("x_step")
        body.pc += [0 <= i, i < RM.K] + RM.sel_facts(i) + [0 <= xP, xP < RM.N] + RM.pos_facts(xP) + RM.pos_facts(SEL(i))
        body.pc += [SUMNR(i + 1) == SUMNR(i) + NR(SEL(i))]
        havoc(body)
        body.pc += [t for _, t in inv_terms(body, i, [xP, SEL(i)])]
        outs = []
        for r in run_body(body, i):
            for nm, t in inv_terms(r, i + 1, [xP]):
                eng.oblige(r, nm + ".step", "inv", t, st, note="loop invariant re-established after removing rgs[i] (whole list: at a Skolem member)")
        # 3. exit with the invariant at i == K
        ex = p.fork()
        havoc(ex)
        ex.pc += [t for _, t in inv_terms(ex, RM.K, [RM.jS, RM.jW])]
        if mod:
            effects(ex).append(("loop", tuple(mod)))
        for k in _names(st.target):
            ex.env[k] = Opaque(("after_loop", k))
        return outs + [ex]


class FMD:
    tracked = False

    def attr(self, eng, p, name):
        if name == "row_groups":
            return p.ghost["fmd.rgs"]
        if name == "num_rows":
            return PyI(p.ghost["fmd.num_rows"])
        raise Unsupported("fmd." + name)

    def setattr(self, eng, p, name, v):
        if name == "num_rows":
            p.ghost["fmd.num_rows"] = eng.as_int(v)
            effects(p).append(("set_num_rows",))
        elif name == "row_groups":
            p.ghost["fmd.rgs"] = v
            effects(p).append(("set_row_groups",))
        else:
            raise Unsupported("store to fmd." + name)


class PF:
    tracked = False

    def __init__(self, fmd):
        self.fmd = fmd

    def attr(self, eng, p, name):
        if name == "fmd":
            return Custom(self.fmd)
        if name == "file_scheme":
            return Custom(SchemeV(RM.SCHEME))
        if name == "created_by":
            return Custom(CreatedBy())
        if name in ("fs", "basepath", "fn"):
            return Opaque(name)
        if name == "row_groups":           # the handle's own list (bound by _set_attrs; not touched by this function)
            p.ghost.setdefault("rem:S0", z3.K(I, z3.BoolVal(False)))
            return Custom(RList("S0"))
        raise Unsupported("self." + name)

    def call_method(self, eng, p, name, args, kw, node):
        if name in ("_set_attrs", "_sort_part_names", "_write_common_metadata"):
            effects(p).append((name, tuple(args)))
            return [(p, NONE)]
        raise Unsupported("self." + name + "()")


def run_remove(ctx, funcs, timeout):
    res = Results()

    def h_map(eng, p, args, kw, node):
        v = args[0]
        if isinstance(v, Custom) and isinstance(v.h, ChosenList):
            return [(p, Custom(RgMap("chosen")))]
        if isinstance(v, Custom) and isinstance(v.h, RList):
            return [(p, Custom(RgMap("all" if v.h.pristine(p) else ("rest", v.h.lid))))]
        raise Unsupported("row_groups_map of " + type(getattr(v, "h", v)).__name__)

    def h_deepcopy(eng, p, args, kw, node):
        v = args[0]
        if isinstance(v, Custom) and isinstance(v.h, RList):
            lid = f"copy{next(eng.counter)}"
            p.ghost["rem:" + lid] = v.h.rem(p)
            return [(p, Custom(RList(lid)))]
        raise Unsupported("deepcopy")

    def h_remove_with(eng, p, args, kw, node):
        effects(p).append(("remove_with", args[1] if len(args) > 1 else None, list(p.pc)))
        return [(p, NONE)]

    def h_hasattr(eng, p, args, kw, node):
        return [(p, PyB(eng.fresh("hasattr", B)))]
    eng = Eng(funcs=funcs, handlers={"row_groups_map": h_map, "deepcopy": h_deepcopy, "var:remove_with": h_remove_with, "hasattr": h_hasattr},
              opaque_calls=True)
    p = Path()
    p.pc += RM.pre()
    p.ghost["fmd.rgs"] = Custom(RList("L0"))
    p.ghost["rem:L0"] = z3.K(I, z3.BoolVal(False))
    p.ghost["fmd.num_rows"] = RM.NR0
    st, _, _ = solve(list(p.pc) + [RM.K > 0, RM.K < RM.N], timeout)
    if st == REFUTED:
        ctx.vacuity["requires_sat"] += 1
    else:
        ctx.engine_error("remove_row_groups: precondition unsatisfiable")
    pf = PF(FMD())
    outs = eng.run("ParquetFile.remove_row_groups", p, [Custom(pf), Custom(ChosenList())],
                   {"sort_pnames": PyB(RM.SORT_PNAMES), "write_fmd": PyB(RM.WRITE_FMD), "open_with": Opaque("func:open_with"),
                    "remove_with": Opt(z3.Bool("remove_with_is_none"), Opaque("func:remove_with"))})
    discharge_engine(eng, res, "remove.", timeout, rename=lambda n: n if n.startswith("remove.") else "remove_row_groups." + n.split(".", 1)[-1])

    def pose(name, q, hyps, goal, detail, model_terms=()):
        st, m, secs = solve(list(q.pc) + list(q.axioms) + list(hyps) + [z3.Not(goal)], timeout)
        mdl = None
        if m is not None:
            mdl = {str(t): mval(m, t) for t in (RM.N, RM.K, RM.jW, RM.kW, SEL(RM.kW), FILE(RM.jW), FILE(SEL(RM.kW)), RM.IS_FP, RM.SCHEME) + tuple(model_terms)}
        res.add(name, st, mdl, secs, "z3", detail)
        return st
    rets = [q for q in outs if q.ctl[0] == "ret"]
    raises = [q for q in outs if q.ctl[0] == "raise"]
    GUARDED = z3.Or(z3.Not(RM.IS_FP), RM.SCHEME == SCHEMES["flat"])
    KEPT = z3.And(0 <= RM.jW, RM.jW < RM.N, POS(RM.jW) < 0)           # jW is an arbitrary KEPT row group (hypothesis of the goals that mention it, not a precondition)
    one_per_file = z3.Implies(FILE(RM.jW) == FILE(SEL(RM.kW)), RM.jW == SEL(RM.kW))
    for q in raises:
        ok = not effects(q)
        res.add("remove.raise_before_any_effect", PROVED if ok else REFUTED, None if ok else {"effects": str([e[0] for e in effects(q)])}, 0.0, "trace",
                "a call that raises has not changed the row-group list, num_rows, or removed / renamed / written any file")
    must_fail = 0
    for q in rets:
        ef = effects(q)
        kinds = [e[0] for e in ef]
        pose("remove.simple_scheme_raises", q, [], z3.Not(z3.And(RM.K > 0, RM.SCHEME == SCHEMES["simple"])),
             "no call with a non-empty selection on a 'simple' dataset returns normally")
        pose("remove.num_rows_decreases_by_removed", q, [], q.ghost["fmd.num_rows"] == RM.NR0 - SUMNR(RM.K),
             "fmd.num_rows afterwards == before - sum of num_rows of the chosen row groups", (RM.NR0, q.ghost["fmd.num_rows"], SUMNR(RM.K)))
        if solve(list(q.pc) + [z3.Not(q.ghost["fmd.num_rows"] == RM.NR0)], timeout)[0] == REFUTED:
            must_fail += 1
        v = q.ghost["fmd.rgs"]
        if isinstance(v, Custom) and isinstance(v.h, RList):
            pose("remove.row_groups_is_old_minus_chosen", q, [0 <= RM.jS, RM.jS < RM.N], z3.Select(v.h.rem(q), RM.jS) == (POS(RM.jS) >= 0),
                 "fmd.row_groups afterwards is the old list without exactly the chosen row groups, order kept (posed at a Skolem member)",
                 (RM.jS, POS(RM.jS)))
        else:
            res.add("remove.row_groups_is_old_minus_chosen", REFUTED, {"fmd.row_groups": type(getattr(v, "h", v)).__name__}, 0.0, "trace",
                    "fmd.row_groups is not a list derived from the old one")
        # metadata / renumbering only when asked, after the list was updated
        for flag, eff, nm in ((RM.WRITE_FMD, "_write_common_metadata", "remove.metadata_written_iff_write_fmd"),
                              (RM.SORT_PNAMES, "_sort_part_names", "remove.sorted_iff_sort_pnames")):
            n = kinds.count(eff)
            pose(nm, q, [], flag == z3.BoolVal(n == 1) if n <= 1 else z3.BoolVal(False),
                 f"{eff} is called once when the flag is set and not at all otherwise")
            if n and any(k in ("set_row_groups", "remove_with", "loop") for k in kinds[kinds.index(eff):]):
                res.add(nm.split("_iff")[0] + "_after_update", REFUTED, {"effects": str(kinds)}, 0.0, "trace", f"{eff} runs before the list is updated")
        if "_sort_part_names" in kinds:
            a = ef[kinds.index("_sort_part_names")][1]
            ok = len(a) >= 1 and isinstance(a[0], PyB) and z3.is_false(z3.simplify(a[0].z))
            res.add("remove.sort_defers_metadata", PROVED if ok else REFUTED, None, 0.0, "trace",
                    "_sort_part_names is called with write_fmd=False (the summary is written once, by this function)")
        nonempty = solve(list(q.pc) + [RM.K > 0], timeout)[0] == REFUTED
        if not nonempty:
            ok = not [k for k in kinds if k not in ("_sort_part_names", "_write_common_metadata")]
            res.add("remove.empty_selection_changes_nothing", PROVED if ok else REFUTED, {"effects": str(kinds)} if not ok else None, 0.0, "trace",
                    "with nothing chosen neither the list nor any data file is touched")
            continue
        pose("remove.partial_file_raises_first", q, [KEPT], FILE(RM.jW) != FILE(SEL(RM.kW)),
             "ANY dataset: if the call gets as far as changing anything, no file holds both a chosen and a kept row group "
             "(a file holding both makes the call raise before any effect)")
        n_rw = kinds.count("remove_with")
        res.add("remove.remove_with_called_once", PROVED if n_rw == 1 else REFUTED, {"effects": str(kinds)} if n_rw != 1 else None, 0.0, "trace",
                "remove_with is called exactly once on a non-empty selection")
        if "set_row_groups" in kinds and "_set_attrs" in kinds:
            ok = kinds.index("set_row_groups") < len(kinds) - 1 - kinds[::-1].index("_set_attrs")
            res.add("remove.handle_refreshed_after_update", PROVED if ok else REFUTED, None, 0.0, "trace", "_set_attrs runs after fmd.row_groups was replaced")
        else:
            res.add("remove.handle_refreshed_after_update", REFUTED, {"effects": str(kinds)}, 0.0, "trace", "fmd.row_groups is replaced and _set_attrs is called")
        for e in ef:
            if e[0] != "remove_with":
                continue
            v = e[1]
            h = v.h if isinstance(v, Custom) else None
            shape = (isinstance(h, AbstractComp) and z3.is_true(z3.simplify(h.guard)) and isinstance(h.coll, Custom) and isinstance(h.coll.h, RgMap)
                     and isinstance(h.elt, Custom) and isinstance(h.elt.h, FStr) and len(h.elt.h.parts) == 3
                     and isinstance(h.elt.h.parts[0], Opaque) and h.elt.h.parts[0].tag == "basepath"
                     and isinstance(h.elt.h.parts[1], Str) and h.elt.h.parts[1].s == "/"
                     and isinstance(h.elt.h.parts[2], Custom) and isinstance(h.elt.h.parts[2].h, FileKey))
            if not shape:
                res.add("remove.files_removed_are_files_of_chosen", REFUTED, {"argument": type(h).__name__ if h else type(v).__name__}, 0.0, "trace",
                        "remove_with gets [basepath/file for EVERY file of the map of the chosen row groups] (unfiltered comprehension)")
                continue
            fk = h.elt.h.parts[2].h
            covers = h.coll.h.which in ("chosen", "all")
            res.add("remove.files_removed_cover_chosen", PROVED if covers else REFUTED, None, 0.0, "trace",
                    "every file of a chosen row group is in the list handed to remove_with")
            pose("remove.files_removed_are_files_of_chosen", q, [], POS(fk.j) >= 0,
                 "every path handed to remove_with is basepath/<file of a CHOSEN row group>", (fk.j, POS(fk.j)))
            f = FILE(fk.j)
            pose("remove.no_kept_file_deleted[foreign or flat]", q, [GUARDED, KEPT], FILE(RM.jW) != f,
                 "no file handed to remove_with holds a kept row group (guarded datasets)")
            pose("remove.no_kept_file_deleted[one row group per file]", q, [one_per_file, KEPT], FILE(RM.jW) != f,
                 "no file handed to remove_with holds a kept row group (every data file holds one row group)")
            pose("remove.no_kept_file_deleted[any layout]", q, [KEPT], FILE(RM.jW) != f,
                 "no file handed to remove_with holds a kept row group - for ANY dataset layout")
    if must_fail:
        ctx.vacuity["must_fail_sat"] += 1
    else:
        ctx.engine_error("remove_row_groups vacuity: 'num_rows unchanged' is not refutable on any path")
    if not rets or not raises:
        ctx.engine_error("remove_row_groups: expected returning and raising paths")
    ctx.vacuity["covers"] += len(rets)
    return res


# =================================================================================================================
#  writer.overwrite
# =================================================================================================================
TEXTV = z3.Function("PartitionValuesTextOfRowGroup", I, I)        # partitions(rg, True): the VALUES of rg's directory, '/'-joined,
#                                                                   in directory nesting order == the dataset's partition order
TEXTKV = z3.Function("PartitionDirTextOfRowGroup", I, I)          # partitions(rg): 'k1=v1/k2=v2'
INNEW = z3.Function("IsValuesTextOfSomeNewRow_InPartitionOrder", I, B)   # text in {'/'.join(str(row[c]) for c in defined_partitions)}


class OW:
    N, NPART, SCHEME, jA = z3.Int("n_row_groups"), z3.Int("n_partition_columns"), z3.Int("file_scheme"), z3.Int("j_arbitrary")


class PartText:
    tracked = False

    def __init__(self, j, only_values):
        self.j, self.only_values = j, only_values


class CatsV:
    """pf.cats / list(pf.cats): the dataset's partition columns, in partition order"""
    tracked = False

    def truth(self, eng, p):
        return OW.NPART > 0

    def len(self, eng, p):
        return PyI(OW.NPART)


class FrameCols:
    tracked = False

    def call_method(self, eng, p, name, args, kw, node):
        return [(p, Opaque(("columns." + name, next(eng.counter))))]

    def attr(self, eng, p, name):
        return Opaque(("columns." + name,))


class FrameV:
    tracked = False

    def __init__(self, origin="data"):
        self.origin = origin

    def attr(self, eng, p, name):
        if name == "loc":
            return Custom(LocV())
        if name == "columns":
            return Custom(FrameCols())
        raise Unsupported("data." + name)

    def getitem(self, eng, p, i, node):
        return Custom(SubFrame("frame[...] (not .loc[:, names])", i))

    def isinstance(self, eng, p, tn):
        return z3.BoolVal("DataFrame" in tn)


class LocV:
    tracked = False

    def getitem(self, eng, p, i, node):
        if isinstance(i, Tup) and len(i.items) == 2:
            rows, cols = i.items
            if isinstance(rows, Custom) and isinstance(rows.h, SliceAll):
                if isinstance(cols, Custom) and isinstance(cols.h, CatsV):
                    return Custom(SubFrame("by_name_in_partition_order", cols))
                return Custom(SubFrame("all rows, columns selected by " + _describe(cols), cols))
        return Custom(SubFrame("loc[" + _describe(i) + "]", i))


def _describe(v):
    if isinstance(v, Custom):
        return type(v.h).__name__
    if isinstance(v, Opaque):
        return str(v.tag)[:60]
    return type(v).__name__


class SubFrame:
    tracked = False

    def __init__(self, kind, sel, as_str=False):
        self.kind, self.sel, self.as_str = kind, sel, as_str

    def call_method(self, eng, p, name, args, kw, node):
        if name == "astype" and len(args) == 1 and isinstance(args[0], Opaque) and args[0].tag == "global:str":
            return [(p, Custom(SubFrame(self.kind, self.sel, True)))]
        if name == "agg" and len(args) == 1 and isinstance(args[0], Custom) and isinstance(args[0].h, StrMethod):
            ax = kw.get("axis")
            ok = (args[0].h.s == "/" and args[0].h.name == "join" and isinstance(ax, PyI) and z3.is_int_value(z3.simplify(ax.z))
                  and z3.simplify(ax.z).as_long() == 1 and self.as_str)
            return [(p, Custom(RowTexts(self.kind if ok else self.kind + " / not astype(str).agg('/'.join, axis=1)")))]
        if name == "drop_duplicates" and not args and not kw:
            return [(p, Custom(SubFrame(self.kind, self.sel, self.as_str)))]          # the distinct rows, same columns in the same order
        if name == "itertuples" and not args:
            ix = kw.get("index")
            ok = isinstance(ix, PyB) and z3.is_false(z3.simplify(ix.z)) and not self.as_str
            return [(p, Custom(RowTuples(self.kind if ok else self.kind + " / itertuples that also yields the index")))]
        raise Unsupported("frame." + name)


class RowTuples:
    """frame.itertuples(index=False): one tuple per row, the values in the frame's column order"""
    tracked = False

    def __init__(self, kind):
        self.kind = kind

    def arbitrary(self, eng, p):
        return Custom(RowKey(self.kind))


class RowKey:
    tracked = False

    def __init__(self, kind):
        self.kind = kind

    def arbitrary(self, eng, p):
        return Custom(CellV(self.kind))


class CellV:
    tracked = False

    def __init__(self, kind):
        self.kind = kind


class CellText:
    """text of one partition value; `how` names the function that rendered it"""
    tracked = False

    def __init__(self, kind, how):
        self.kind, self.how = kind, how

    def call_method(self, eng, p, name, args, kw, node):
        return [(p, Custom(CellText(self.kind, self.how + "." + name)))]


class RowTexts:
    tracked = False

    def __init__(self, kind):
        self.kind = kind


class TextSet:
    tracked = False

    def __init__(self, kind):
        self.kind = kind

    def contains(self, eng, p, item):
        if not (isinstance(item, Custom) and isinstance(item.h, PartText)):
            raise Unsupported("membership of a non partition text")
        t = TEXTV(item.h.j) if item.h.only_values else TEXTKV(item.h.j)
        if self.kind == "by_name_in_partition_order":
            return INNEW(t)
        f = z3.Function("IsTextOfSomeNewRow[" + self.kind + "]", I, B)      # texts built in another key order: unrelated set
        return f(t)


class FilterV:
    tracked = False

    def __init__(self, lam, coll):
        self.lam, self.coll = lam, coll


class ORgs:
    """pf.row_groups of the handle opened by overwrite (bound at open; write_row_groups rebinds fmd.row_groups, never mutates this list)"""
    tracked = False

    def len(self, eng, p):
        return PyI(OW.N)

    def truth(self, eng, p):
        return OW.N > 0

    def slice(self, eng, p, lo, hi, node):
        return Custom(PartOfRgs())

    def getitem(self, eng, p, i, node):
        return Custom(RGV(eng.as_int(i)))


class PartOfRgs:
    """a slice of pf.row_groups: not the whole list"""
    tracked = False


class OPF:
    tracked = False

    def __init__(self):
        self.cats, self.rgs = CatsV(), ORgs()

    def attr(self, eng, p, name):
        if name == "file_scheme":
            return Custom(SchemeV(OW.SCHEME))
        if name == "cats":
            return Custom(self.cats)
        if name == "row_groups":
            return Custom(self.rgs)
        if name == "fn":
            return Opaque("fn")
        raise Unsupported("pf." + name)

    def call_method(self, eng, p, name, args, kw, node):
        if name == "_get_index":
            return [(p, Opaque(("index", next(eng.counter))))]
        if name in ("write_row_groups", "remove_row_groups"):
            effects(p).append((name, list(args), dict(kw)))
            return [(p, NONE)]
        raise Unsupported("pf." + name + "()")


def run_overwrite(ctx, funcs, timeout):
    res = Results()

    def h_pf(eng, p, args, kw, node):
        if effects(p):
            raise Unsupported("dataset opened after an effect")
        p.ghost["pf"] = OPF()
        return [(p, Custom(p.ghost["pf"]))]

    def h_partitions(eng, p, args, kw, node):
        rg = args[0]
        ov = args[1] if len(args) > 1 else kw.get("only_values", PyB(False))
        if not (isinstance(rg, Custom) and isinstance(rg.h, RGV)):
            return [(p, Opaque(("partitions", next(eng.counter))))]
        if not (isinstance(ov, PyB) and (z3.is_true(z3.simplify(ov.z)) or z3.is_false(z3.simplify(ov.z)))):
            raise Unsupported("partitions(only_values=<symbolic>)")
        return [(p, Custom(PartText(rg.h.j, z3.is_true(z3.simplify(ov.z)))))]

    def h_unique(eng, p, args, kw, node):
        v = args[0]
        if isinstance(v, Custom) and isinstance(v.h, RowTexts):
            return [(p, Custom(TextSet(v.h.kind)))]
        raise Unsupported("pd.unique of " + _describe(v))

    def h_filter(eng, p, args, kw, node):
        if isinstance(args[0], Custom) and isinstance(args[0].h, LambdaV):
            return [(p, Custom(FilterV(args[0].h, args[1])))]
        raise Unsupported("filter with a non-lambda")

    def h_path_string(eng, p, args, kw, node):
        v = args[0] if args else None
        if isinstance(v, Custom) and isinstance(v.h, CellV):
            return [(p, Custom(CellText(v.h.kind, "path_string")))]
        return [(p, Opaque(("path_string", next(eng.counter))))]

    def h_join(eng, p, args, kw, node):
        sep, x = args[0], args[1] if len(args) > 1 else None
        h = x.h if isinstance(x, Custom) else None
        if isinstance(sep, Str) and isinstance(h, AbstractComp) and isinstance(h.coll, Custom) and isinstance(h.coll.h, RowKey):
            kind = h.coll.h.kind
            if not z3.is_true(z3.simplify(h.guard)):
                kind += " / some values of the row skipped"
            if sep.s != "/":
                kind += " / joined by " + repr(sep.s)
            if not (isinstance(h.elt, Custom) and isinstance(h.elt.h, CellText)):
                kind += " / the joined items are not texts of the row's values (" + _describe(h.elt) + ")"
            return [(p, Custom(RowTexts(kind)))]
        raise Unsupported("str.join of " + _describe(x))

    def h_comp(eng, p, e):
        # {<text of the row> for key in <frame>.itertuples(index=False, ...)}: the set of the rows' texts
        if not isinstance(e, (ast.SetComp, ast.ListComp)) or len(e.generators) != 1:
            return None
        g = e.generators[0]
        r = eng.ev(g.iter, p)
        if len(r) != 1 or not (isinstance(r[0][1], Custom) and isinstance(r[0][1].h, RowTuples)):
            return None
        q = r[0][0]
        saved = dict(q.env)
        for q2 in eng.assign(g.target, r[0][1].h.arbitrary(eng, q), q):
            v = eng.ev1(e.elt, q2)
        q.env = saved
        kind = v.h.kind if isinstance(v, Custom) and isinstance(v.h, RowTexts) else "set of " + _describe(v)
        if g.ifs:
            kind += " / rows filtered"
        return [(q, Custom(TextSet(kind)))]

    def h_reset(eng, p, args, kw, node):
        if isinstance(args[0], Custom) and isinstance(args[0].h, FrameV):
            return [(p, Custom(FrameV("reset_row_idx(data)")))]
        raise Unsupported("reset_row_idx")
    eng = Eng(funcs=funcs, handlers={"ParquetFile": h_pf, "partitions": h_partitions, "pd.unique": h_unique, "filter": h_filter,
                                     "reset_row_idx": h_reset, "path_string": h_path_string, ".join": h_join, "listcomp": h_comp, "reversed": lambda e, p, a, k, n: [(p, Opaque(("reversed", next(e.counter))))]},
              opaque_calls=True)
    p = Path()
    p.pc += [OW.N >= 0, OW.NPART >= 0, 0 <= OW.SCHEME, OW.SCHEME <= 5]
    outs = eng.run("overwrite", p, [Opaque("dirpath"), Custom(FrameV())],
                   {"open_with": Opaque("func:open_with"), "mkdirs": NONE, "remove_with": NONE})
    discharge_engine(eng, res, "overwrite.", timeout)
    rets = [q for q in outs if q.ctl[0] == "ret"]
    raises = [q for q in outs if q.ctl[0] == "raise"]
    for q in raises:
        ok = not effects(q)
        res.add("overwrite.raise_before_any_effect", PROVED if ok else REFUTED, None if ok else {"effects": str([e[0] for e in effects(q)])}, 0.0, "trace",
                "a rejected overwrite (simple scheme / no partition column) has neither written nor removed anything")

    def pose(name, q, goal, detail):
        st, m, secs = solve(list(q.pc) + list(q.axioms) + [z3.Not(goal)], timeout)
        res.add(name, st, {"z3_model": str(m)[:400]} if m is not None else None, secs, "z3", detail)
    must_fail = 0
    for q in rets:
        ef = effects(q)
        kinds = [e[0] for e in ef]
        pose("overwrite.simple_scheme_raises", q, OW.SCHEME != SCHEMES["simple"], "overwrite of a 'simple' dataset never returns normally")
        pose("overwrite.no_partitions_raises", q, OW.NPART > 0, "overwrite of a dataset without partition columns never returns normally")
        ok = kinds == ["write_row_groups", "remove_row_groups"]
        res.add("overwrite.write_before_remove", PROVED if ok else REFUTED, None if ok else {"effects": str(kinds)}, 0.0, "trace",
                "the new row groups are written (write_row_groups) BEFORE the old ones are removed (remove_row_groups); each happens once")
        if not ok:
            continue
        wa, wk = ef[0][1], ef[0][2]
        ra, rk = ef[1][1], ef[1][2]
        d = wa[0] if wa else wk.get("data")
        res.add("overwrite.writes_the_new_data", PROVED if isinstance(d, Custom) and isinstance(d.h, FrameV) else REFUTED, None, 0.0, "trace",
                "what is written is the caller's frame (possibly with its row index reset)")

        def flag(kw, name, want):
            v = kw.get(name)
            return isinstance(v, PyB) and (z3.is_true if want else z3.is_false)(z3.simplify(v.z))
        res.add("overwrite.metadata_written_last", PROVED if flag(wk, "write_fmd", False) and flag(rk, "write_fmd", True) else REFUTED, None, 0.0, "trace",
                "write_row_groups(write_fmd=False), remove_row_groups(write_fmd=True): the summary is written once, after both steps")
        sel = ra[0] if ra else rk.get("rgs")
        fv = sel.h if isinstance(sel, Custom) and isinstance(sel.h, FilterV) else None
        whole = fv is not None and isinstance(fv.coll, Custom) and fv.coll.h is q.ghost["pf"].rgs
        res.add("overwrite.selection_ranges_over_all_existing", PROVED if whole else REFUTED, None if whole else {"rgs": _describe(sel)}, 0.0, "trace",
                "the row groups handed to remove_row_groups are a filter over ALL row groups of the dataset as opened (before the write)")
        if not whole:
            continue
        r = q.fork()
        r.pc += [0 <= OW.jA, OW.jA < OW.N]
        try:
            z = eng.truth(fv.lam.apply(eng, r, [Custom(RGV(OW.jA))]), r)
        except Unsupported as ex:
            res.add("overwrite.removes_exactly_matching_partitions", UNKNOWN, None, 0.0, "engine", str(ex))
            continue
        # key order: the new data's partition text must be built from the partition columns selected BY NAME in the dataset's order
        ts = [v for v in fv.lam.env.values() if isinstance(v, Custom) and isinstance(v.h, TextSet)]
        ko = bool(ts) and all(t.h.kind == "by_name_in_partition_order" for t in ts)
        res.add("overwrite.partition_text_key_order", PROVED if ko else REFUTED, None if ko else {"text_built_from": [t.h.kind for t in ts]}, 0.0, "trace",
                "the new data's partition texts are built row by row from data.loc[:, defined_partitions] - the column selector BEING the ordered "
                "list defined_partitions = list(pf.cats) (columns BY NAME in the dataset's partition order, all rows) - as the '/'-joined texts of "
                "ALL the row's values in that order (which text a value gets is the subject of overwrite.partition_text_conventions_agree[...])")
        st, m, secs = solve(list(r.pc) + list(r.axioms) + [z3.Not(z == INNEW(TEXTV(OW.jA)))], timeout)
        res.add("overwrite.removes_exactly_matching_partitions", st,
                {"row_group": mval(m, OW.jA), "selected": mval(m, z), "its_values_text_is_in_new_data": mval(m, INNEW(TEXTV(OW.jA)))} if m is not None else None,
                secs, "z3", "an existing row group is selected for removal exactly when its partition-values text partitions(rg, True) equals "
                "the partition text (same key order) of some row of the new data")
        if solve(list(r.pc) + [z3.Not(z)], timeout)[0] == REFUTED and solve(list(r.pc) + [z], timeout)[0] == REFUTED:
            must_fail += 1
    if rets and not must_fail:
        ctx.engine_error("overwrite vacuity: the selection predicate is constant")
    if must_fail:
        ctx.vacuity["must_fail_sat"] += 1
    if not rets or not raises:
        ctx.engine_error("overwrite: expected returning and raising paths")
    ctx.vacuity["covers"] += len(rets)
    return res


# =================================================================================================================
#  api.partitions / api.part_ids / api.ParquetFile._sort_part_names
# =================================================================================================================
DIR = z3.Function("DirectoryOfRowGroupFile", I, I)      # identity of the directory text of FILE(j); 0 = no directory (no '/')
NUM = z3.Function("PartNumberOfRowGroupFile", I, I)     # FILE(j) == DIR(j) + '/part.<NUM(j)>.parquet'
ORD = z3.Function("IterationOrderOfDictKeyAtPosition", I, I)
FINAL, TMP = 0, 1


class DirV:
    tracked = False

    def __init__(self, j):
        self.j = j


class SplitV:
    """path.rsplit('/', 1) of a path that contains '/': [directory text, file name]"""
    tracked = False

    def __init__(self, j):
        self.j = j

    def getitem(self, eng, p, i, node):
        k = z3.simplify(eng.as_int(i))
        if z3.is_int_value(k) and k.as_long() == 0:
            return Custom(DirV(self.j))
        return Opaque(("rsplit[...]", next(eng.counter)))


class ReSplitV:
    tracked = False

    def __init__(self, j, pattern, step=None):
        self.j, self.pattern, self.step = j, pattern, step


class ValuesText:
    tracked = False

    def __init__(self, j, how):
        self.j, self.how = j, how


class SPathV(PathV):
    """a referenced path as a str: `'/' in path`, path.rsplit('/', 1)"""

    def contains(self, eng, p, item):
        if isinstance(item, Str) and item.s == "/":
            return DIR(self.j) != 0
        raise Unsupported("substring test on a path")

    def call_method(self, eng, p, name, args, kw, node):
        if name == "rsplit" and len(args) == 2 and isinstance(args[0], Str) and args[0].s == "/" and isinstance(args[1], PyI) \
                and z3.is_int_value(z3.simplify(args[1].z)) and z3.simplify(args[1].z).as_long() == 1:
            eng.oblige(p, "partitions.rsplit_on_path_with_directory", "safety", DIR(self.j) != 0, node,
                       note="rsplit('/', 1)[0] is the directory only when the path contains '/'")
            return [(p, Custom(SplitV(self.j)))]
        raise Unsupported("path." + name)


class SColV(ColV):
    def attr(self, eng, p, name):
        if name == "file_path":
            return Custom(SPathV(self.j))
        raise Unsupported("column." + name)


class SColsV(ColsV):
    def getitem(self, eng, p, i, node):
        return Custom(SColV(self.j, eng.as_int(i)))


class SRGV(RGV):
    def attr(self, eng, p, name):
        if name == "columns":
            return Custom(SColsV(self.j))
        return super().attr(eng, p, name)


class Eng2(Eng):
    def slice(self, o, sl, p, node):
        if isinstance(o, Custom) and isinstance(o.h, ReSplitV):
            lo = self.ev1(sl.lower, p) if sl.lower is not None else None
            st = self.ev1(sl.step, p) if sl.step is not None else None

            def c(v):
                s = z3.simplify(self.as_int(v)) if v is not None else None
                return s.as_long() if s is not None and z3.is_int_value(s) else None
            return [(p, Custom(ReSplitV(o.h.j, o.h.pattern, (c(lo), sl.upper is None, c(st)))))]
        return super().slice(o, sl, p, node)


def h_re_split(eng, p, args, kw, node):
    if len(args) == 2 and isinstance(args[0], Str) and isinstance(args[1], Custom) and isinstance(args[1].h, SPathV):
        return [(p, Custom(ReSplitV(args[1].h.j, args[0].s)))]
    raise Unsupported("re.split")


def h_join(eng, p, args, kw, node):
    sep, x = args[0], args[1]
    if isinstance(sep, Str) and isinstance(x, Custom) and isinstance(x.h, ReSplitV):
        return [(p, Custom(ValuesText(x.h.j, (sep.s, x.h.pattern, x.h.step))))]
    raise Unsupported("str.join")


def run_partitions(ctx, funcs, timeout):
    """partitions(path | row_group, only_values): None without a directory; the directory text; the '/'-joined values"""
    res = Results()
    j = z3.Int("j_row_group")
    n_ret = 0
    for as_rg in (False, True):
        for ov in (False, True):
            tag = f"[{'row group' if as_rg else 'path'},only_values={ov}]"
            eng = Eng2(funcs=funcs, handlers={"re.split": h_re_split, ".join": h_join}, opaque_calls=True)
            p = Path()
            p.pc += [DIR(j) >= 0]
            arg = Custom(SRGV(j)) if as_rg else Custom(SPathV(j))
            outs = eng.run("partitions", p, [arg, PyB(ov)])
            discharge_engine(eng, res, "partitions.", timeout, rename=lambda n: n if n.startswith("partitions.") and "@" not in n else "partitions" + tag + "." + n.split(".", 1)[-1])
            for q in outs:
                if q.ctl[0] != "ret":
                    res.add("partitions.no_exception" + tag, REFUTED, None, 0.0, "trace", "partitions never raises on a referenced path")
                    continue
                n_ret += 1
                v = q.ctl[1]
                cs = list(q.pc) + list(q.axioms)
                isnone = isinstance(v, NoneV)
                st, m, secs = solve(cs + [z3.Not((DIR(j) == 0) == z3.BoolVal(isnone))], timeout)
                res.add("partitions.none_iff_no_directory" + tag, st, {"z3_model": str(m)[:200]} if m is not None else None, secs, "z3",
                        "the result is None exactly for a path without '/'")
                if isnone:
                    continue
                if not ov:
                    ok = isinstance(v, Custom) and isinstance(v.h, DirV) and z3.simplify(v.h.j).eq(j)
                    res.add("partitions.directory_of_the_path" + tag, PROVED if ok else REFUTED, None if ok else {"result": _describe(v)}, 0.0, "trace",
                            "only_values=False: the result is path.rsplit('/', 1)[0], the directory part of THIS row group's columns[0].file_path")
                else:
                    ok = isinstance(v, Custom) and isinstance(v.h, ValuesText) and z3.simplify(v.h.j).eq(j) and v.h.how == ("/", "/|=", (1, True, 2))
                    res.add("partitions.values_in_path_order" + tag, PROVED if ok else REFUTED, None if ok else {"result": _describe(v), "how": str(getattr(getattr(v, "h", None), "how", None))}, 0.0, "trace",
                            "only_values=True: the result is '/'.join(re.split('/|=', path)[1::2]): the values v1..vn of 'k1=v1/../kn=vn/file' in nesting order")
    ctx.vacuity["covers"] += n_ret
    return res


# ---- positional abstract lists (comprehension / reversed / enumerate / dict comprehension evaluated on demand at a symbolic position)
class SRgs:
    """fmd.row_groups for the rename plan: N row groups, position k holds row group k"""
    tracked = False

    def __init__(self, n):
        self.n = n

    def len(self, eng, p):
        return PyI(self.n)

    def truth(self, eng, p):
        return self.n > 0

    def at(self, eng, p, k):
        return Custom(SRGV(k))

    def getitem(self, eng, p, i, node):
        k = eng.as_int(i)
        eng.oblige(p, "_sort_part_names.row_group_index_in_range", "safety", z3.And(0 <= k, k < self.n), node)
        return Custom(SRGV(k))


class LazyComp:
    """[elt for x in L] over a positional list L, no filter: same length, element k computed on demand from L[k]"""
    tracked = False

    def __init__(self, node, env, coll):
        self.node, self.env, self.coll = node, env, coll

    def len(self, eng, p):
        return self.coll.h.len(eng, p)

    def truth(self, eng, p):
        return self.coll.h.truth(eng, p)

    def ev_at(self, eng, p, k, exprs):
        saved = p.env
        p.env = dict(self.env)
        try:
            qs = eng.assign(self.node.generators[0].target, self.coll.h.at(eng, p, k), p)
            if len(qs) != 1 or qs[0] is not p:
                raise Unsupported("forking comprehension target")
            return [eng.ev1(e, p) for e in exprs]
        finally:
            p.env = saved

    def at(self, eng, p, k):
        return self.ev_at(eng, p, k, [self.node.elt])[0]


class RevList:
    tracked = False

    def __init__(self, coll):
        self.coll = coll

    def len(self, eng, p):
        return self.coll.h.len(eng, p)

    def truth(self, eng, p):
        return self.coll.h.truth(eng, p)

    def at(self, eng, p, k):
        return self.coll.h.at(eng, p, self.coll.h.len(eng, p).z - 1 - k)


class EnumList(RevList):
    def at(self, eng, p, k):
        return Tup([PyI(k), self.coll.h.at(eng, p, k)])


class KeyV(PyI):
    """a key (an int) of a comprehension-built dict, remembered with the iteration position that produced it"""

    def __init__(self, d, pos, z):
        PyI.__init__(self, z)
        self.d, self.pos = d, pos


class CompDict(LazyComp):
    """{key: value for x in L} over a positional list.  ASSUMED (Python): for equal keys the item iterated LAST wins; so the dict
    is described by its 'winner' positions  w  (no later position has the same key), D[key_at(w)] == val_at(w)"""

    def key_at(self, eng, p, k):
        return eng.as_int(self.ev_at(eng, p, k, [self.node.key])[0])

    def val_at(self, eng, p, k):
        return self.ev_at(eng, p, k, [self.node.value])[0]

    def call_method(self, eng, p, name, args, kw, node):
        if name == "items" and not args:
            return [(p, Custom(DictItems(self)))]
        raise Unsupported("dict." + name)

    def item_at(self, eng, p, k):
        return Tup([KeyV(self, k, self.key_at(eng, p, k)), self.val_at(eng, p, k)])

    def getitem(self, eng, p, i, node):
        if isinstance(i, KeyV) and i.d is self:
            return self.val_at(eng, p, i.pos)
        raise Unsupported("dict lookup with a key that does not come from the dict")


class DictItems:
    tracked = False

    def __init__(self, d):
        self.d = d


class FiltDict:
    """dict(filter(lam, D.items())): the items of D (winner positions) on which lam is true; iteration order = ORD on positions"""
    tracked = False

    def __init__(self, d, lam):
        self.d, self.lam = d, lam

    def guard(self, eng, p, k):
        return eng.truth(self.lam.apply(eng, p, [self.d.item_at(eng, p, k)]), p)

    def getitem(self, eng, p, i, node):
        if isinstance(i, KeyV) and i.d is self.d:
            return self.d.val_at(eng, p, i.pos)
        raise Unsupported("dict lookup with a key that does not come from the dict")

    def truth(self, eng, p):
        return eng.fresh("filtered_dict_nonempty", B)

    def for_loop(self, eng, p, st):
        """one pass over the rename plan: the body is executed for two arbitrary keys (positions iA, iB); what it does is recorded
        per pass and per instance in p.ghost['passes'] (the obligations relate an arbitrary rename to another arbitrary one)"""
        passes = p.ghost.setdefault("passes", [])
        rec = {}
        for X, iX in (("A", SP.iA), ("B", SP.iB)):
            n_eff = len(effects(p))
            g = z3.And(0 <= iX, iX < SP.N, self.guard(eng, p, iX))
            p.pc.append(g)
            env0 = dict(p.env)
            qs = eng.assign(st.target, KeyV(self.d, iX, self.d.key_at(eng, p, iX)), p)
            outs = eng.block(st.body, qs)
            if len(outs) != 1 or outs[0] is not p or p.ctl not in (None, "continue"):
                raise Unsupported("rename loop body forks or leaves early")
            p.ctl = None
            rec[X] = {"guard": g, "effects": effects(p)[n_eff:], "dict": self}
            del effects(p)[n_eff:]
            p.pc = [c for c in p.pc if c is not g]
            for k in list(p.env):
                if k not in env0 or p.env[k] is not env0[k]:
                    p.env[k] = Opaque(("after_loop", k, len(passes), X))
        passes.append(rec)
        effects(p).append(("rename_pass", len(passes)))
        return [p]


class NameV:
    """a file name: [basepath/] <dir> / part.<num>.parquet[.tmp]"""
    tracked = False

    def __init__(self, based, d, num, kind, origin=None):
        self.based, self.d, self.num, self.kind, self.origin = based, d, num, kind, origin


def to_name(eng, v):
    """NameV of a path-valued expression (PathV, f-string, join_path result) or None"""
    if isinstance(v, Custom) and isinstance(v.h, NameV):
        return v.h
    if isinstance(v, Custom) and isinstance(v.h, PathV):
        return NameV(False, DIR(v.h.j), NUM(v.h.j), z3.IntVal(FINAL), origin=v.h.j)
    if isinstance(v, Custom) and isinstance(v.h, FStr):
        ps = v.h.parts
        if len(ps) == 3 and isinstance(ps[0], Opaque) and ps[0].tag == "basepath" and isinstance(ps[1], Str) and ps[1].s == "/":
            r = to_name(eng, ps[2])
            if r is not None and not r.based and r.d is not None:
                return NameV(True, r.d, r.num, r.kind, r.origin)
            return None
        if len(ps) == 3 and isinstance(ps[0], Str) and ps[0].s == "part." and isinstance(ps[2], Str) and ps[2].s in (".parquet", ".parquet.tmp") \
                and isinstance(ps[1], (PyI, PyB)):
            return NameV(False, None, eng.as_int(ps[1]), z3.IntVal(TMP if ps[2].s.endswith(".tmp") else FINAL))
    return None


def h_join_path(eng, p, args, kw, node):
    """ASSUMED util.join_path: '/'.join of the non-empty components (None / '' dropped)"""
    based, d, name = False, z3.IntVal(0), None
    for k, a in enumerate(args):
        if isinstance(a, Opaque) and a.tag == "basepath" and k == 0:
            based = True
        elif isinstance(a, NoneV):
            pass
        elif isinstance(a, Opt) and isinstance(a.val, Custom) and isinstance(a.val.h, DirV) and name is None:
            d = z3.If(a.isnone, 0, DIR(a.val.h.j))
        elif isinstance(a, Custom) and isinstance(a.h, DirV) and name is None:
            d = DIR(a.h.j)
        else:
            r = to_name(eng, a)
            if r is None or r.based or name is not None or k != len(args) - 1:
                return [(p, Opaque(("join_path", next(eng.counter))))]
            name = r
            if r.d is not None:
                d = r.d
    if name is None:
        return [(p, Opaque(("join_path", next(eng.counter))))]
    return [(p, Custom(NameV(based, z3.simplify(d), name.num, name.kind, name.origin)))]


class SP:
    N = z3.Int("n_row_groups")
    iA, iB, j0 = z3.Int("pos_A"), z3.Int("pos_B"), z3.Int("j_witness")
    WRITE_FMD = z3.Bool("write_fmd")


class NumStr:
    tracked = False

    def __init__(self, j):
        self.j = j

    def to_int(self, eng, p):
        return PyI(NUM(self.j))


class MatchV:
    tracked = False

    def __init__(self, j):
        self.j = j

    def getitem(self, eng, p, i, node):
        if isinstance(i, Str) and i.s == "i":
            return Custom(NumStr(self.j))
        raise Unsupported("match[...]")


def sort_handlers():
    def h_listcomp(eng, p, e):
        if len(e.generators) != 1 or e.generators[0].ifs:
            return None
        r = eng.ev(e.generators[0].iter, p)
        if len(r) == 1 and isinstance(r[0][1], Custom) and hasattr(r[0][1].h, "at"):
            return [(r[0][0], Custom(LazyComp(e, dict(p.env), r[0][1])))]
        return None

    def h_dictcomp(eng, p, e):
        if len(e.generators) != 1 or e.generators[0].ifs:
            return None
        r = eng.ev(e.generators[0].iter, p)
        if len(r) == 1 and isinstance(r[0][1], Custom) and hasattr(r[0][1].h, "at"):
            return [(r[0][0], Custom(CompDict(e, dict(p.env), r[0][1])))]
        return None

    def h_reversed(eng, p, args, kw, node):
        if isinstance(args[0], Custom) and hasattr(args[0].h, "at"):
            return [(p, Custom(RevList(args[0])))]
        raise Unsupported("reversed")

    def h_enumerate(eng, p, args, kw, node):
        if isinstance(args[0], Custom) and hasattr(args[0].h, "at") and len(args) == 1 and not kw:
            return [(p, Custom(EnumList(args[0])))]
        raise Unsupported("enumerate")

    def h_match(eng, p, args, kw, node):
        path = args[1] if len(args) > 1 else args[0]
        if isinstance(path, Custom) and isinstance(path.h, PathV):
            return [(p, Custom(MatchV(path.h.j)))]
        raise Unsupported("PART_ID.match of a non-path")

    def h_filter(eng, p, args, kw, node):
        if isinstance(args[0], Custom) and isinstance(args[0].h, LambdaV) and isinstance(args[1], Custom) and isinstance(args[1].h, DictItems):
            return [(p, Custom(FilterV(args[0].h, args[1])))]
        raise Unsupported("filter")

    def h_dict(eng, p, args, kw, node):
        if len(args) == 1 and isinstance(args[0], Custom) and isinstance(args[0].h, FilterV):
            return [(p, Custom(FiltDict(args[0].h.coll.h.d, args[0].h.lam)))]
        raise Unsupported("dict()")

    def h_partitions(eng, p, args, kw, node):
        # contract of api.partitions (posed on its real source in run_partitions): None without a directory, else the directory text
        v = args[0]
        if len(args) == 1 and not kw and isinstance(v, Custom) and isinstance(v.h, PathV):
            return [(p, Opt(DIR(v.h.j) == 0, Custom(DirV(v.h.j))))]
        raise Unsupported("partitions(...) in the rename plan")
    def h_map(eng, p, args, kw, node):
        v = args[0]
        if len(args) == 1 and isinstance(v, Custom) and isinstance(v.h, SRgs):
            return [(p, Custom(SortMap(v.h.n)))]
        raise Unsupported("row_groups_map(...) in the rename plan")
    return {"row_groups_map": h_map, "listcomp": h_listcomp, "dictcomp": h_dictcomp, "reversed": h_reversed, "enumerate": h_enumerate, "PART_ID.match": h_match,
            ".match": h_match, "filter": h_filter, "dict": h_dict, "partitions": h_partitions, "join_path": h_join_path}


def run_part_ids(ctx, funcs, timeout):
    res = Results()
    eng = Eng(funcs=funcs, handlers=sort_handlers(), opaque_calls=True)
    p = Path()
    kA, j0, N = z3.Int("pos_arbitrary"), SP.j0, SP.N
    p.pc += [N >= 0]
    outs = eng.run("part_ids", p, [Custom(SRgs(N))])
    discharge_engine(eng, res, "part_ids.", timeout)
    rets = [q for q in outs if q.ctl[0] == "ret"]
    for q in rets:
        d = q.ctl[1]
        if not (isinstance(d, Custom) and isinstance(d.h, CompDict)):
            res.add("part_ids.out_of_reach", UNKNOWN, None, 0.0, "engine", "result is not a dict comprehension over the row groups: " + _describe(d))
            continue
        d = d.h
        r = q.fork()
        r.pc += [0 <= j0, j0 < N, 0 <= kA, kA < N]
        n = eng.as_int(d.len(eng, r))
        key_j0, key_A = d.key_at(eng, r, N - 1 - j0), d.key_at(eng, r, kA)
        v = d.val_at(eng, r, kA)
        cs = list(r.pc) + list(r.axioms)

        def pose(name, goal, detail, hyps=()):
            st, m, secs = solve(cs + list(hyps) + [z3.Not(goal)], timeout)
            res.add(name, st, {"z3_model": str(m)[:300]} if m is not None else None, secs, "z3", detail)
        pose("part_ids.one_item_per_row_group", n == N, "the comprehension ranges over all row groups")
        pose("part_ids.every_part_number_is_a_key", key_j0 == NUM(j0), "for EVERY row group j: its part number int(PART_ID.match(path_j)['i']) is a key")
        pose("part_ids.every_key_is_a_part_number", key_A == NUM(N - 1 - kA), "the key produced at iteration k is the part number of row group N-1-k (reversed order)")
        shape = isinstance(v, Tup) and len(v.items) == 2 and isinstance(v.items[0], PyI) and isinstance(v.items[1], Custom) and isinstance(v.items[1].h, PathV)
        if not shape:
            res.add("part_ids.value_is_first_row_group_with_that_number", REFUTED, {"value": _describe(v)}, 0.0, "trace", "values are (row-group index, path)")
            continue
        f, jp = v.items[0].z, v.items[1].h.j
        winner = z3.Implies(key_j0 == key_A, N - 1 - j0 <= kA)        # kA is the LAST position with its key (instantiated at j0's position)
        pose("part_ids.value_is_first_row_group_with_that_number",
             z3.And(f == jp, 0 <= f, f < N, NUM(f) == key_A, z3.Implies(NUM(j0) == key_A, f <= j0)),
             "D[n] == (f, path_f) where f is the SMALLEST row-group index whose file has part number n (last iterated item wins, order reversed)",
             [winner])
    if not rets:
        ctx.engine_error("part_ids: no returning path")
    ctx.vacuity["covers"] += len(rets)
    return res


def same_file(a, b):
    return z3.And(DIR(a) == DIR(b), NUM(a) == NUM(b))         # FILE(a) == FILE(b): a path is <DIR>/part.<NUM>.parquet


class SortMap:
    """row_groups_map(fmd.row_groups) in the rename plan (contract posed on its real source as row_groups_map.*):
    M[path] is the list of ALL row groups of the dataset whose columns[0].file_path is that path"""
    tracked = False

    def __init__(self, n):
        self.n = n

    def getitem(self, eng, p, i, node):
        if isinstance(i, Custom) and isinstance(i.h, PathV):
            return Custom(FileMembers(self.n, i.h.j))
        raise Unsupported("row_groups_map result indexed by a non-path")


class FileMembers:
    """the row groups whose file is the file of row group jf: the loop body is run for ONE arbitrary member m (fresh; nothing but the
    loop variables may be assigned, so there is no state to carry); a file_path store is recorded as 'for EVERY member m'"""
    tracked = False

    def __init__(self, n, jf):
        self.n, self.jf = n, jf

    def for_loop(self, eng, p, st):
        m = eng.fresh_int("m_member")
        mine = [z3.And(0 <= m, m < self.n, same_file(m, self.jf))]
        p.pc += mine
        n_eff, env0 = len(effects(p)), dict(p.env)
        stored = {nd.id for nd in ast.walk(ast.Module(body=st.body, type_ignores=[])) if isinstance(nd, ast.Name) and isinstance(nd.ctx, ast.Store)}
        qs = eng.assign(st.target, Custom(SRGV(m)), p)
        outs = eng.block(st.body, qs)
        if len(outs) != 1 or outs[0] is not p or p.ctl not in (None, "continue"):
            raise Unsupported("loop over the row groups of a file forks or leaves early")
        p.ctl = None
        for k, v in p.env.items():
            if k not in _names(st.target) | stored and env0.get(k) is not v:
                raise Unsupported("loop over the row groups of a file assigns " + k)
        new = effects(p)[n_eff:]
        del effects(p)[n_eff:]
        for ef in new:
            if ef[0] != "set_file_path" or ef[2] != "every" or not z3.simplify(ef[1]).eq(m):
                raise Unsupported("loop over the row groups of a file has another effect: " + ef[0])
            effects(p).append(("set_file_path_members", self.jf, m, ef[3]))
        p.pc = [c for c in p.pc if not any(c is x for x in mine)]
        for k in _names(st.target) | stored:
            p.env[k] = Opaque(("after_loop", k, next(eng.counter)))
        return [p]


class FSV:
    tracked = False

    def call_method(self, eng, p, name, args, kw, node):
        if name == "rename" and len(args) == 2:
            effects(p).append(("rename", args[0], args[1]))
            return [(p, NONE)]
        raise Unsupported("fs." + name)


class SFMD:
    tracked = False

    def __init__(self, rgs):
        self.rgs = rgs

    def attr(self, eng, p, name):
        if name == "row_groups":
            return Custom(self.rgs)
        raise Unsupported("fmd." + name)

    def setattr(self, eng, p, name, v):
        raise Unsupported("store to fmd." + name + " in the rename plan")


class SPF:
    tracked = False

    def __init__(self, n):
        self.fmd = SFMD(SRgs(n))

    def attr(self, eng, p, name):
        if name == "fmd":
            return Custom(self.fmd)
        if name == "fs":
            return Custom(FSV())
        if name == "basepath":
            return Opaque("basepath")
        raise Unsupported("self." + name)

    def call_method(self, eng, p, name, args, kw, node):
        if name == "_write_common_metadata":
            effects(p).append((name, tuple(args)))
            return [(p, NONE)]
        raise Unsupported("self." + name + "()")


def run_sort(ctx, funcs, timeout):
    """_sort_part_names with part_ids inlined, on the effect trace.  Ghost directory map: before the call the live part files are exactly
    the referenced ones, <DIR(j)>/part.<NUM(j)>.parquet; a rename moves a live file to a name that must be free.  A name is live just
    before a rename R iff (it is an original name and no earlier rename had it as source) or (an earlier rename R' had it as target and
    no rename between R' and R had it as source).  Each obligation is about an ARBITRARY rename (instance A of its pass); the other
    renames it is related to are instance B (existential hypotheses Skolemised to B, universal ones instantiated at A and B)."""
    res = Results()
    N, iA, iB, j0 = SP.N, SP.iA, SP.iB, SP.j0
    eng = Eng(funcs=funcs, handlers=sort_handlers(), inline=("part_ids",), opaque_calls=True)
    p = Path()
    p.pc += [N >= 0]
    outs = eng.run("ParquetFile._sort_part_names", p, [Custom(SPF(N))], {"write_fmd": PyB(SP.WRITE_FMD), "open_with": Opaque("func:open_with")})
    eng_obl, eng.oblig = eng.oblig, []
    rets = [q for q in outs if q.ctl[0] == "ret"]
    if len(rets) != len(outs):
        res.add("_sort_part_names.no_exception", REFUTED, None, 0.0, "trace", "no raising path on a dataset whose paths all match part.<n>.parquet")
    n_plans = 0
    for q in rets:
        kinds = [e[0] for e in effects(q)]
        passes = q.ghost.get("passes", [])
        n_w = kinds.count("_write_common_metadata")
        st, m, secs = solve(list(q.pc) + [z3.Not(z3.Implies(z3.BoolVal(bool(passes)), SP.WRITE_FMD == z3.BoolVal(n_w == 1)))] if n_w <= 1 else [], timeout)
        res.add("rename.metadata_written_iff_write_fmd", st, None, secs, "z3", "the summary is rewritten once, after the renames, exactly when write_fmd")
        if n_w and kinds[-1] != "_write_common_metadata":
            res.add("rename.metadata_written_last", REFUTED, {"effects": str(kinds)}, 0.0, "trace", "the summary is written after the last rename")
        if not passes:
            ok = not kinds
            res.add("rename.empty_dataset_untouched", PROVED if ok else REFUTED, None, 0.0, "trace", "no row groups: nothing is renamed or written")
            continue
        n_plans += 1
        check_plan(ctx, eng, q, passes, res, timeout)
    # safety obligations the engine emitted inside the loop bodies (index in range ...), under the plan's preconditions
    eng.oblig = eng_obl
    discharge_engine(eng, res, "_sort_part_names.", timeout, rename=lambda n: n if n.startswith(("_sort_part_names.", "rename.")) else "_sort_part_names." + n.split(".", 1)[-1])
    if not n_plans:
        ctx.engine_error("_sort_part_names: no path with a rename plan")
    ctx.vacuity["covers"] += len(rets)
    return res


def check_plan(ctx, eng, q, passes, res, timeout):
    N, iA, iB, j0 = SP.N, SP.iA, SP.iB, SP.j0
    r = q.fork()
    P = len(passes)
    d = passes[0]["A"]["dict"].d                   # the dict built by part_ids
    if any(ps[X]["dict"].d is not d or ps[X]["dict"] is not passes[0]["A"]["dict"] for ps in passes for X in "AB"):
        raise Unsupported("the passes iterate different dicts")
    pos0 = N - 1 - j0                               # iteration position of the witness row group (comprehension over reversed(...))
    r.pc += [0 <= j0, j0 < N, N > 0]
    key = {"A": d.key_at(eng, r, iA), "B": d.key_at(eng, r, iB), "0": d.key_at(eng, r, pos0)}
    posv = {"A": iA, "B": iB, "0": pos0}
    # row-group index terms that occur: the witness, the row groups at the instance positions, the first components of the dict values
    first = {}
    for X in "AB":
        v = d.val_at(eng, r, posv[X])
        first[X] = v.items[0].z if isinstance(v, Tup) and v.items and isinstance(v.items[0], PyI) else None
    terms = [j0, N - 1 - iA, N - 1 - iB] + [t for t in first.values() if t is not None]
    rec = []          # per pass: {X: (guard, src NameV, dst NameV, updates [(rg term, NameV)])}
    shape_ok = True
    for ps in passes:
        ent = {}
        for X in "AB":
            ren = [e for e in ps[X]["effects"] if e[0] == "rename"]
            upd = [e for e in ps[X]["effects"] if e[0] in ("set_file_path", "set_file_path_members")]
            other = [e for e in ps[X]["effects"] if e[0] not in ("rename", "set_file_path", "set_file_path_members")]
            if len(ren) != 1 or other:
                raise Unsupported("a pass of the plan does not issue exactly one rename per key")
            s_, t_ = to_name(eng, ren[0][1]), to_name(eng, ren[0][2])
            # an update = (hits(j) : does it store to row group j, value NameV (may mention the member variable), all columns?, member var)
            us = []
            for e in upd:
                if e[0] == "set_file_path":
                    us.append(((lambda j, r_=e[1]: r_ == j), to_name(eng, e[3]), e[2] == "every", None))
                    terms.append(e[1])
                else:
                    us.append(((lambda j, jf=e[1]: z3.And(0 <= jf, jf < N, same_file(j, jf))), to_name(eng, e[3]), True, e[2]))
                    terms.append(e[1])
            if s_ is None or t_ is None or any(u[1] is None for u in us):
                shape_ok = False
            ent[X] = (ps[X]["guard"], s_, t_, us)
        rec.append(ent)
    if not shape_ok:
        res.add("rename.names_are_part_files", REFUTED, None, 0.0, "trace", "every renamed path is [basepath/]<directory of the file>/part.<n>.parquet[.tmp]")
        return
    res.add("rename.names_are_part_files", PROVED, None, 0.0, "trace", "every renamed path is [basepath/]<directory of the file>/part.<n>.parquet[.tmp]")
    based = all(ent[X][1].based and ent[X][2].based for ent in rec for X in "AB")
    res.add("rename.paths_under_basepath", PROVED if based else REFUTED, None, 0.0, "trace", "source and target of every fs.rename are below basepath")
    rel = all(not u[1].based and u[2] for ent in rec for X in "AB" for u in ent[X][3])
    res.add("rename.metadata_path_is_relative", PROVED if rel else REFUTED, None, 0.0, "trace",
            "file_path is set on EVERY column of the row group, to a path relative to the dataset root")

    def eqn(a, b):
        return z3.And(a.d == b.d, a.num == b.num, a.kind == b.kind)

    def orig(t):
        return NameV(False, DIR(t), NUM(t), z3.IntVal(FINAL))

    def winner(X):       # position X is the LAST one with its key: universally quantified, instantiated at the positions in play
        return z3.And(*[z3.Implies(z3.And(0 <= posv[Y], posv[Y] < N, key[Y] == key[X]), posv[Y] <= posv[X]) for Y in ("A", "B", "0") if Y != X])

    def G(pi, X):         # key X is in the plan of pass pi: a winner position that satisfies the filter
        return z3.And(rec[pi][X][0], winner(X))

    def earlier(a, b):    # (pass, instance) a strictly before b
        (pa, Xa), (pb, Xb) = a, b
        if pa != pb:
            return z3.BoolVal(pa < pb)
        if Xa == Xb:
            return z3.BoolVal(False)
        return ORD(posv[Xa]) < ORD(posv[Xb])
    base = [z3.Implies(ORD(iA) == ORD(iB), iA == iB)]
    for t in terms:
        base += [z3.Implies(z3.And(0 <= t, t < N), z3.And(NUM(t) >= 0, DIR(t) >= 0))]
    distinct = [z3.Implies(z3.And(0 <= a, a < N, 0 <= b, b < N, NUM(a) == NUM(b)), DIR(a) == DIR(b)) for a, b in itertools.combinations(terms, 2)]
    single = [z3.Implies(z3.And(0 <= a, a < N, 0 <= b, b < N, NUM(a) == NUM(b), DIR(a) == DIR(b)), a == b) for a, b in itertools.combinations(terms, 2)]
    cs0 = list(r.pc) + list(r.axioms) + base
    insts = [(pi, X) for pi in range(P) for X in "AB"]

    def not_source_between(w, lo, hi):
        """no rename strictly between times lo and hi (lo may be None = from the start) has source w: instances A, B of every pass"""
        out = []
        for (pi, X) in insts:
            c = [G(pi, X), earlier((pi, X), hi)]
            if lo is not None:
                c.append(earlier(lo, (pi, X)))
            out.append(z3.Implies(z3.And(*c), z3.Not(eqn(rec[pi][X][1], w))))
        return out

    def live_cases(w, at):
        """hypothesis sets under which name w is live just before the rename `at` = (pass, 'A')"""
        cases = []
        # (a) an original file never moved so far; B is taken to be the winner position of that file's part number
        cases.append(("a referenced file that was not moved", [eqn(orig(j0), w), key["B"] == key["0"], 0 <= iB, iB < N, winner("B")] + not_source_between(w, None, at)))
        # (b) moved there by an earlier rename (Skolem: instance B of pass pb) and not moved away since
        for pb in range(at[0] + 1):
            cases.append((f"the target of an earlier rename of pass {pb + 1}", [G(pb, "B"), earlier((pb, "B"), at), eqn(rec[pb]["B"][2], w)] + not_source_between(w, (pb, "B"), at)))
        return cases

    def decide(queries):
        """all queries unsat -> PROVED; one sat -> REFUTED with its model"""
        tot, worst, model = 0.0, PROVED, None
        for what, cs in queries:
            st, m, secs = solve(cs, timeout)
            tot += secs
            if st == REFUTED:
                mdl = {"reason": what, "n_row_groups": mval(m, N), "witness_row_group": mval(m, j0)}
                for t in terms[:5]:
                    mdl[f"row_group {mval(m, t)}"] = f"dir {mval(m, DIR(t))} / part.{mval(m, NUM(t))}.parquet"
                for X in "AB":
                    mdl[f"instance {X}"] = f"position {mval(m, posv[X])} key {mval(m, key[X])}"
                return REFUTED, mdl, tot
            if st == UNKNOWN:
                worst = UNKNOWN
        return worst, model, tot
    VARIANTS = [("[any numbering]", []), ("[part numbers distinct]", distinct)]
    names = {0: ("rename.pass1_sources_live", "rename.pass1_targets_fresh"), 1: ("rename.pass2_sources_are_pass1_targets", "rename.pass2_targets_free")}
    for pi in range(P):
        at = (pi, "A")
        n_src, n_tgt = names.get(pi, (f"rename.pass{pi + 1}_sources_live", f"rename.pass{pi + 1}_targets_free"))
        S, T = rec[pi]["A"][1], rec[pi]["A"][2]
        for vname, vh in VARIANTS:
            hy = cs0 + vh + [G(pi, "A")]
            # target: live under none of the cases
            st, mdl, secs = decide([(what, hy + c) for what, c in live_cases(T, at)])
            res.add(n_tgt + vname, st, mdl, secs, "z3",
                    ("temporary names are pairwise distinct and hit no live file" if pi == 0 else
                     "when tmp -> dir/part.<rgid>.parquet is issued no live file has that name") + " (arbitrary rename of the pass vs. every live name)")
            # source: it is a live file.  witness = the target of the same key's rename in the previous pass, else an original file
            done = False
            tot = 0.0
            for pb in range(pi - 1, -1, -1):
                st1, _, s1 = solve(hy + [z3.Not(z3.And(G(pb, "A"), eqn(rec[pb]["A"][2], S)))], timeout)
                tot += s1
                if st1 == PROVED:
                    qs = [(f"moved away again by pass {pc + 1}", hy + [G(pc, "B"), earlier((pb, "A"), (pc, "B")), earlier((pc, "B"), at), eqn(rec[pc]["B"][1], S)])
                          for pc in range(pb, pi + 1)]
                    st, mdl, secs = decide(qs)
                    res.add(n_src + vname, st, mdl, secs + tot, "z3", f"the file renamed in pass {pi + 1} is the one pass {pb + 1} created for the same key, still there")
                    done = True
                    break
            if done:
                continue
            cand = [t for t in terms if solve(hy + [z3.Not(z3.And(0 <= t, t < N, eqn(orig(t), S)))], timeout)[0] == PROVED]
            if not cand:
                st, m, secs = solve(hy + [z3.Not(eqn(orig(j0), S))], timeout)
                res.add(n_src + vname, REFUTED if st == REFUTED else UNKNOWN, {"source": "neither a referenced file nor the target of an earlier rename"}, secs, "z3",
                        "the source of the rename exists")
                continue
            qs = [(f"already moved by pass {pc + 1}", hy + [G(pc, "B"), earlier((pc, "B"), at), eqn(rec[pc]["B"][1], S)]) for pc in range(pi + 1)]
            st, mdl, secs = decide(qs)
            res.add(n_src + vname, st, mdl, secs, "z3", "the source of the rename is a referenced file that no earlier rename has moved")
    # ---- metadata follows the files: for EVERY row group j0, its file_path afterwards names the place its file ended up
    # B := the winner position of j0's part number (exists: j0's own position has that key)
    last = rec[P - 1]
    bind = [key["B"] == key["0"], 0 <= iB, iB < N, winner("B")]
    moved = z3.And(G(0, "B"), eqn(rec[0]["B"][1], orig(j0)))
    chain = z3.And(*[eqn(rec[pi + 1]["B"][1], rec[pi]["B"][2]) for pi in range(P - 1)]) if P > 1 else z3.BoolVal(True)
    final = last["B"][2]
    def val_at(u, j):         # the stored value for row group j (the member variable of a 'for every member' store replaced by j)
        if u[3] is None:
            return u[1]
        sub = lambda t: z3.substitute(t, (u[3], j)) if z3.is_expr(t) else t
        return NameV(u[1].based, sub(u[1].d), sub(u[1].num), sub(u[1].kind))
    upd_B = [u for pi in range(P) for u in rec[pi]["B"][3]]
    hits = z3.Or(*[z3.And(u[0](j0), eqn(val_at(u, j0), final)) for u in upd_B]) if upd_B else z3.BoolVal(False)
    consistent = []
    for pi in range(P):
        for X in "AB":
            for u in rec[pi][X][3]:
                consistent.append(z3.Implies(z3.And(G(pi, X), u[0](j0)), z3.If(moved, eqn(val_at(u, j0), final), eqn(val_at(u, j0), orig(j0)))))
    goal = z3.And(z3.Implies(moved, z3.And(chain, hits)), *consistent)
    for vname, vh in (("[any numbering]", single), ("[any files]", distinct), ("[part numbers distinct, one row group per file]", distinct + single)):
        st, m, secs = solve(cs0 + vh + bind + [z3.Not(goal)], timeout)
        mdl = None
        if m is not None:
            mdl = {"n_row_groups": mval(m, N), "witness_row_group": mval(m, j0), "its_file_is_moved": mval(m, moved)}
            for t in terms[:5]:
                mdl[f"row_group {mval(m, t)}"] = f"dir {mval(m, DIR(t))} / part.{mval(m, NUM(t))}.parquet"
        res.add("rename.metadata_follows" + vname, st, mdl, secs, "z3",
                "for EVERY row group j: if j's file is moved by the plan (whichever of the file's row groups j is), all of j's columns get the "
                "file's final name as file_path; any store that reaches a row group whose file is NOT moved writes its old path (= unchanged)")
    st, m, secs = solve(cs0 + distinct + single + bind + [moved, z3.Not(z3.And(final.d == DIR(j0), final.kind == FINAL))], timeout)
    res.add("rename.file_stays_in_its_directory", st, {"z3_model": str(m)[:300]} if m is not None else None, secs, "z3",
            "a moved file ends as part.<n>.parquet in the directory it was in (the partition of its row groups does not change)")
    # vacuity: the plan can be non-empty and a wrong claim is refutable
    if solve(cs0 + distinct + single + [G(0, "A")], timeout)[0] == REFUTED:
        ctx.vacuity["requires_sat"] += 1
    else:
        ctx.engine_error("_sort_part_names: the rename plan is never non-empty under the precondition")
    if solve(cs0 + distinct + single + [G(0, "A"), z3.Not(eqn(rec[0]["A"][2], rec[0]["A"][1]))], timeout)[0] == REFUTED:
        ctx.vacuity["must_fail_sat"] += 1


# =================================================================================================================
#  the two text conventions overwrite relies on:  directory text written  vs.  text compared by overwrite
# =================================================================================================================
# (Timestamp keys and float32 keys with inexact decimals disagreed until fix 1c32364: records fixed-C09-overwrite-timestamp-partition-text,
#  fixed-C09-overwrite-float32-partition-text; every row of the table must be PROVED now)


def _free_names(node, bound=()):
    bound = set(bound)
    for n in ast.walk(node):
        if isinstance(n, ast.Lambda):
            bound |= {a.arg for a in n.args.args}
        if isinstance(n, ast.comprehension):
            bound |= _names(n.target)
    return [n.id for n in ast.walk(node) if isinstance(n, ast.Name) and isinstance(n.ctx, ast.Load) and n.id not in bound]


def _producer(pfunc, ns):
    """writer.partition_on_columns with its I/O cut off: the REAL statements that compute, per group of the frame, the group key and
    the relative file name (everything before the first call statement / with-block of the group loop); returns
    f(data, columns) -> [(key, relative file name, row labels of the group)]"""
    import copy
    fn = copy.deepcopy(pfunc.tree)
    loops = [k for k, st in enumerate(fn.body) if isinstance(st, ast.For)]
    if not loops:
        raise Unsupported("partition_on_columns: no group loop")
    k = loops[-1]
    loop = fn.body[k]
    rel = [n.value.id for n in ast.walk(loop) if isinstance(n, ast.Assign) and isinstance(n.value, ast.Name)
           and any(isinstance(t, ast.Attribute) and t.attr == "file_path" for t in n.targets)]
    if not rel:
        raise Unsupported("partition_on_columns: no `chunk.file_path = <name>` in the group loop")
    kept = []
    for st in loop.body:
        if isinstance(st, ast.With) or (isinstance(st, ast.Expr) and isinstance(st.value, ast.Call)):
            break
        kept.append(st)
    if not any(rel[0] in _names(t) for st in kept for n in ast.walk(st) if isinstance(n, ast.Assign) for t in n.targets):
        raise Unsupported("partition_on_columns: the relative file name is not computed before the first I/O call")
    if len(loop.target.elts if isinstance(loop.target, ast.Tuple) else []) != 2:
        raise Unsupported("partition_on_columns: group loop target is not (key, group)")
    key_n, grp_n = [e.id for e in loop.target.elts]
    rec = ast.parse(f"__out.append(({key_n}, {rel[0]}, list({grp_n}.index)))").body[0]
    loop.body = kept + [rec]
    loop.orelse = []
    fn.body = [ast.parse("__out = []").body[0]] + [st for st in fn.body[:k] if not (isinstance(st, ast.Expr) and isinstance(st.value, ast.Constant))] \
        + [loop, ast.parse("def f():\n return __out").body[0].body[0]]
    fn.name = "__dirs"
    fn.decorator_list = []
    mod = ast.Module(body=[fn], type_ignores=[])
    ast.fix_missing_locations(mod)
    exec(compile(mod, "<partition_on_columns: pure prefix of the group loop>", "exec"), ns)
    params = [a.arg for a in fn.args.args]

    def call(data, columns):
        given = {"data": data, "columns": list(columns), "root_path": "", "partname": "part.0.parquet", "with_field": True}
        return ns["__dirs"](*[given.get(a) for a in params])
    return call


def _selector(ofunc, ns):
    """the REAL filter predicate of writer.overwrite and the REAL expressions its free names are assigned from; returns
    f(new_data, partition_columns) -> predicate(relative file name)"""
    tree = ofunc.tree
    lams = [n.args[0] for n in ast.walk(tree) if isinstance(n, ast.Call) and isinstance(n.func, ast.Name) and n.func.id == "filter"
            and n.args and isinstance(n.args[0], ast.Lambda)]
    if len(lams) != 1:
        raise Unsupported("overwrite: expected one filter(lambda ...)")
    lam = lams[0]
    assigns = {}
    for n in ast.walk(tree):
        if isinstance(n, ast.Assign) and len(n.targets) == 1 and isinstance(n.targets[0], ast.Name):
            assigns.setdefault(n.targets[0].id, []).append(n.value)

    class _Handle:          # what overwrite reads from the opened dataset to name the partition columns
        def __init__(self, cols):
            self.cats = {c: [] for c in cols}
            self.row_groups, self.file_scheme, self.fn = [], "hive", "_metadata"

    import builtins

    def make(new_data, cols):
        env = dict(ns, data=new_data, pf=_Handle(cols))

        def resolve(name, depth=0):
            if name in env or hasattr(builtins, name):
                return
            if depth > 6 or name not in assigns:
                raise Unsupported("overwrite: cannot evaluate the free name " + name + " of the selection predicate")
            rhs = assigns[name][0]          # the first (pre-write) binding, as in the straight-line code before the filter is built
            for fnm in _free_names(rhs):
                resolve(fnm, depth + 1)
            env[name] = eval(compile(ast.fix_missing_locations(ast.Expression(body=rhs)), "<overwrite: " + name + ">", "eval"), env)
        free = _free_names(lam.body, [a.arg for a in lam.args.args])
        for fnm in free:
            resolve(fnm)
        pred = eval(compile(ast.fix_missing_locations(ast.Expression(body=lam)), "<overwrite: selection predicate>", "eval"), env)
        pred.compared_with = {k: env[k] for k in free if k in assigns}
        return pred
    return make


def _value_table():
    import datetime
    import numpy as np
    import pandas as pd
    ts = lambda xs, **kw: pd.Series(pd.to_datetime(xs, format="mixed", **kw))
    T = [
        ("bool", lambda: pd.Series([True, False])),
        ("bool (object column of Python bool)", lambda: pd.Series([True, False], dtype=object)),
        ("boolean (nullable)", lambda: pd.Series([True, False], dtype="boolean")),
        ("int64", lambda: pd.Series([0, 1, -2, 10 ** 12, 2 ** 63 - 1])),
        ("int8 / uint8 / int32", lambda: [pd.Series([1, -5], dtype="int8"), pd.Series([1, 200], dtype="uint8"), pd.Series([7, -70000], dtype="int32")]),
        ("Int64 (nullable)", lambda: pd.Series([1, 2, -3], dtype="Int64")),
        ("float64 integral", lambda: pd.Series([0.0, 1.0, -2.0, 1e16, 1e20])),
        ("float64 fractional", lambda: pd.Series([0.5, -1.25, 0.1, 1 / 3, 1e-7])),
        ("float32 (short decimals)", lambda: pd.Series([0.5, 2.5, -1.25, 3.0], dtype="float32")),
        ("float32 (inexact decimals)", lambda: pd.Series([0.1, 1 / 3], dtype="float32")),
        ("str", lambda: pd.Series(["a", "x y", "007", "Ünï", "1.0", "True", "true"])),
        ("string dtype", lambda: pd.Series(["a", "B"], dtype="string")),
        ("date objects", lambda: pd.Series([datetime.date(2020, 1, 1), datetime.date(2021, 6, 1)])),
        ("datetime64 (midnight)", lambda: ts(["2020-01-01", "2021-06-01"])),
        ("datetime64 (with time)", lambda: ts(["2020-01-01 12:00:00", "2021-06-01 01:02:03"])),
        ("datetime64 (sub-second)", lambda: ts(["2020-01-01 12:00:00.000123", "2021-06-01"])),
        ("datetime64 (tz-aware)", lambda: ts(["2020-01-01 12:00:00", "2021-06-01"], utc=True)),
        ("category of str", lambda: pd.Series(["a", "b"], dtype="category")),
        ("category of int", lambda: pd.Series([1, 2], dtype="category")),
        ("category of bool", lambda: pd.Series([True, False], dtype="category")),
        ("category of float", lambda: pd.Series([0.5, 1.0], dtype="category")),
        ("category of datetime64", lambda: pd.Series(pd.Categorical(pd.to_datetime(["2020-01-01", "2021-06-01"])))),
    ]
    two = [("two columns (int64, bool)", lambda: (pd.Series([1, 1, 2]), pd.Series([True, False, True]))),
           ("two columns (str, float64)", lambda: (pd.Series(["a", "a", "b"]), pd.Series([0.5, 1.0, 0.5])))]
    return T, two


def run_partition_text(ctx, wfuncs, afuncs, ufuncs, timeout):
    """overwrite.partition_text_conventions_agree[T]: for every value v of the type table, written and overwritten by the REAL code:
         the row group that partition_on_columns files under  <col>=<path_string(v)>/  is selected by overwrite's predicate
         (partitions(path, True) in <partition text of the new data>) when the new data holds v, and is NOT selected when it holds only other values.
    Both sides are taken from the current source on every run: the pure prefix of partition_on_columns' group loop (groupby key ->
    path_string -> join_path -> relative file name) and overwrite's filter lambda with the expressions its free names are bound to."""
    import warnings
    import numpy as np
    import pandas as pd
    import os as _os
    import re as _re
    res = Results()
    ns = {"pd": pd, "np": np, "re": _re, "os": _os}
    for f in ("path_string", "join_path"):
        exec(ufuncs[f].text, ns)
    exec(afuncs["partitions"].text, ns)
    produce = _producer(wfuncs["partition_on_columns"], ns)
    select = _selector(wfuncs["overwrite"], ns)
    T, two = _value_table()
    n_eval = 0

    def one(name, cols_series):
        nonlocal n_eval
        import time
        t0 = time.time()
        bad, n = None, 0
        try:
            with warnings.catch_warnings():
                warnings.simplefilter("ignore")
                cols = [f"p{k}" for k in range(len(cols_series))]
                d = {c: pd.concat([s_, s_], ignore_index=True) for c, s_ in zip(cols, cols_series)}      # every value in two rows
                data = pd.DataFrame(d)
                data["x"] = range(len(data))
                groups = produce(data, cols)
                if len(groups) < 2:
                    raise Unsupported("fewer than two groups")
                for key, rel, labels in groups:
                    same = data.loc[labels]
                    other = data.drop(index=labels)
                    txt = ns["partitions"](rel, True)
                    for new, want in ((same, True), (other, False)):
                        got = bool(select(new, cols)(rel))
                        n += 1
                        if got != want and bad is None:
                            probe = select(same, cols)
                            bad = {"partition_value": repr(key), "file_written_as": rel, "text_parsed_from_directory": txt,
                                   "new_data_holds_the_same_value": want, "selected_for_removal": got,
                                   "overwrite_compares_with": {k: [str(t) for t in list(v)[:3]] for k, v in probe.compared_with.items()}}
        except Unsupported:
            raise
        except Exception as ex:
            res.add(f"overwrite.partition_text_conventions_agree[{name}]", UNKNOWN, None, time.time() - t0, "enumeration (executed)",
                    f"could not be executed: {type(ex).__name__}: {ex}"[:200])
            return
        n_eval += n
        res.add(f"overwrite.partition_text_conventions_agree[{name}]", REFUTED if bad else PROVED, bad, time.time() - t0, "enumeration (executed)",
                f"{n} evaluations of the real writer / overwrite code: a row group filed under <col>=<text of v> is selected for removal exactly when "
                "the new data holds v (the text written into the directory name, as parsed back, equals the text overwrite computes for v)")
    for name, mk in T:
        v = mk()
        for k, s_ in enumerate(v if isinstance(v, list) else [v]):
            one(name if not isinstance(v, list) else name, [s_])
    for name, mk in two:
        one(name, list(mk()))
    if not n_eval:
        ctx.engine_error("partition text conventions: zero evaluations")
    ctx.vacuity["covers"] += n_eval
    return res


PART_FUNC = {"ptext": "overwrite.partition_text_conventions_agree", "map": "row_groups_map", "remove": "remove_row_groups", "overwrite": "overwrite", "partitions": "partitions",
             "part_ids": "part_ids", "sort": "_sort_part_names"}


def check(ctx, timeout, only=None):
    a, _, _ = parse_module("fastparquet/api.py")
    w, _, _ = parse_module("fastparquet/writer.py")
    u, _, _ = parse_module("fastparquet/util.py")
    funcs = dict(a)
    for n in ("path_string", "join_path"):
        ctx.function(f"util.{n}", u[n].sha, u[n].report)
    ctx.function("writer.partition_on_columns", w["partition_on_columns"].sha, w["partition_on_columns"].report)
    for mod, fs, names in (("api", a, ("row_groups_map", "ParquetFile.remove_row_groups", "ParquetFile._sort_part_names", "part_ids", "partitions")),
                           ("writer", w, ("overwrite",))):
        for n in names:
            ctx.function(f"{mod}.{n}", fs[n].sha, fs[n].report)
    out = []
    parts = [("map", lambda: run_row_groups_map(ctx, funcs, timeout)), ("remove", lambda: run_remove(ctx, funcs, timeout)),
             ("overwrite", lambda: run_overwrite(ctx, dict(w), timeout)), ("partitions", lambda: run_partitions(ctx, funcs, timeout)),
             ("part_ids", lambda: run_part_ids(ctx, funcs, timeout)), ("sort", lambda: run_sort(ctx, funcs, timeout)),
             ("ptext", lambda: run_partition_text(ctx, w, a, u, timeout))]
    for name, fn in parts:
        if only and name not in only:
            continue
        try:
            out.append(fn())
        except Exception as ex:          # a shape the proof script / engine cannot lower: undecided, never a violation
            r = Results()
            r.add(PART_FUNC[name] + ".out_of_reach", UNKNOWN, None, 0.0, "engine", f"{type(ex).__name__}: {ex}"[:300])
            out.append(r)
    return out


ASSUMED = [
    "different row groups of one dataset never compare equal (they differ in file path or offsets), so list.remove(rg) removes rg itself; "
    "list.remove(x) removes the first element equal to x, keeps the order of the others, raises ValueError when there is none",
    "remove_row_groups is called with a duplicate-free selection of members of fmd.row_groups; reading fmd.row_groups may return the SAME "
    "list object every time (worst case for aliasing; the real ThriftObject builds a fresh list per access)",
    "counting lemmas (mathematics): for a duplicate-free sub-list S of a list L and every file f, #S(f) <= #L(f), with equality exactly "
    "when every member of L with file f is in S; a per-file count is positive exactly when some member has that file",
    "row_groups_map's contract (posed on its real source as row_groups_map.*) is used at its two call sites in remove_row_groups",
    "overwrite: ParquetFile(dirpath).cats lists the partition columns in the dataset's partition order (= directory nesting order of the "
    "hive paths); pf.row_groups is the list bound when the dataset was opened and write_row_groups rebinds fmd.row_groups without "
    "mutating it (the lazy filter is consumed only inside remove_row_groups)",
    "pandas: frame.loc[:, names] selects all rows and the columns BY NAME IN THE ORDER of `names`; .drop_duplicates() keeps the distinct rows; "
    ".itertuples(index=False) yields per row the tuple of its values in column order; .astype(str).agg('/'.join, axis=1) is, per row, the "
    "'/'-joined str() of the values in column order; pd.unique keeps exactly the distinct texts; filter(f, xs) yields the members of xs on "
    "which f is true",
    "partitions(rg, True) of a hive path 'k1=v1/../kn=vn/file' (keys and values free of '/' and '=') is 'v1/../vn' "
    "(re.split('/|=', path)[1::2] are the values in nesting order); str.rsplit('/', 1)[0] of 'd/name' is d",
    "partition text conventions: partition values are free of '/' and '=' (a str value containing them, or a timedelta, makes the hive "
    "layout itself unreadable - KeyError when the dataset is reopened - so overwrite is never reached); the new data's partition "
    "columns have the dtype they were written with; NaN / None partition values are dropped by groupby and are outside this table",
    "every referenced path of a dataset handed to _sort_part_names is '<dir>/part.<n>.parquet' (PART_ID.match(path)['i'] is the decimal "
    "n; a path that does not match makes part_ids raise before any rename); 'part.<n>.parquet' is injective in n and never equals a "
    "'.tmp' name; a file name is (directory, base name); util.join_path joins its non-empty components with '/'",
    "row_groups_map's contract is also the cut at its call site in _sort_part_names: files_rgs[path] lists ALL row groups whose "
    "columns[0].file_path is that path (two referenced paths are the same text iff directory and part number agree)",
    "a dict comprehension keeps, for equal keys, the value of the LAST iterated item; dict(filter(f, d.items())) has the items of d on which "
    "f is true; both passes iterate that dict in the same order; a non-empty finite set of positions has a greatest element",
    "fs.rename(src, dst) moves the live file src to dst (silently replacing a live dst: hence 'target free'); before the call directory and "
    "summary agree: the live part files are exactly the referenced ones and there is no '*.parquet.tmp'",
    "rename-plan obligations instantiate universally quantified hypotheses (all other renames / all positions) at two arbitrary instances; "
    "this keeps PROVED sound; a REFUTED is triaged natively (tools/c09edits_native.py: the collision counter-model is confirmed; the two repaired defects are asserted gone)",
]
