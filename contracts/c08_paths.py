"""C08 - directory-partitioned write / read: write-side path construction and read-side path parsing under contract.
Every function is taken from /repo's current source on every run (vc.front_py.parse_module) and executed symbolically.

Texts are z3 String terms built from uninterpreted text functions (STR(v) = str(v), ISO(v) = v.isoformat(), NAME(i) = i-th partition
column, LEVEL(j, i) = i-th directory level of the relative path of row group j ...).  str.replace / rstrip / split are NOT given to
the solver's string theory (unstable: `clean(c) => c.replace('\\\\','/').rstrip('/') == c` was `unknown` after 10 s with the regex
formulation); they are uninterpreted functions with stated algebraic facts (ASSUMED, instantiated per application) - every query is
quantifier-free and takes milliseconds.

  util.join_path                         join_path.* : '/'.join over EXACTLY the truthy components, each normalised by
                                         str(.).replace('\\\\','/').rstrip('/'); clean components verbatim; a leading '/' survives; a
                                         component with a backslash is altered (root cause of the known finding C08-backslash-...)
  writer.partition_on_columns            partition_on_columns[hive|drill].* : ONE ARBITRARY group of the group-by loop (everything the
                                         body assigns is havoc'd): directory = levels name_i=text(val_i) (hive) / text(val_i) (drill) in
                                         partition-column order, one file per non-empty group opened 'wb' at root/dir/partname after
                                         mkdirs(root/dir), exactly the group's rows minus the partition columns go into it, the row group
                                         is appended once with file_path = dir/partname on every chunk == where the reader will look
  util.path_string / val_from_meta /     value-kind lemmas  val_*.roundtrip[kind]: val_from_meta(path_string(v), metadata of v's column) == v (value AND
  val_to_num / _val_to_num               kind, no exception) for int / float / bool / timestamp / text (str and object dtype); refuted-known for tz-aware
                                         timestamps and categoricals of non-text.  WITHOUT metadata: generic_retyping_roundtrip[no metadata, kind],
                                         text_stays_text[no metadata, text that no parser accepts | any text (refuted-known)], never_raises,
                                         text_result_is_the_text_itself; for ANY directory text: text_metadata_returns_the_text[...] /
                                         never_a_text_for_non_text_metadata[...] (the cuts the read side uses)
  util._strip_path_tail                  strip_path_tail.* : one directory text per path = the text before the last '/'
  api.paths_to_cats + _path_to_cats      paths_to_cats[<scenario>].* : ONE arbitrary path and ONE arbitrary level of the (flattened) nested loops, every
                                         loop-carried object (cats, string_types, seen) havoc'd under invariants that are proved on entry / preserved:
                                           scheme_detected_is_the_layout_written, paths_and_parts_aligned, level_gives_its_key_and_value_text,
                                           value_added_is_the_parse_of_this_level_under_its_key, a_level_only_adds_to_the_state,
                                           every_directory_value_has_its_category (what core.read_row_group will look up IS in cats[key]),
                                           keys_are_the_partition_names_in_directory_order, result_is_every_key_with_its_values,
                                           invariant.{key_order, seen_values_are_recorded, seen_keys_are_present, string_types_only_*}.{on_entry,preserved}
                                         scenarios: hive+metadata, hive without metadata (homogeneous levels), drill (homogeneous), drill with levels mixing
                                         re-typable and plain text (refuted-known), hive / drill with '=' inside a value text (refuted-known: layout misread)
  core.read_row_group (partition block)  (every family runs in its own try/except: a construct that is not modelled makes THAT family `<family>.out_of_reach`)
                                         read_row_group[<scenario>].* : ONE arbitrary row group, ONE arbitrary partition column: partition_level_found,
                                         value_is_parsed_from_own_path_level_of_that_column (FIRST matching level == the column's level; no other row
                                         group's path), category_found, assigned_to_the_column_itself, whole_slice_of_the_column_assigned_once
  api.ParquetFile.partition_meta,        partition_meta keyed by field_name; AST obligations: every paths_to_cats / read_row_group call site gets the
  __init__, _read_partitions, to_pandas, partition metadata (two refuted-known: single file + root, direct read_row_group_file), make_metadata's
  read_row_group_file; writer.write      partition_columns block has a record per partition column, write() passes partition_on
  util.get_file_scheme                   get_file_scheme.* : 'hive' when every level is name=text (non-empty both), only if every level has an interior '=',
                                         NOT only if the keys agree between paths (refuted-known); 'drill' / 'flat' / 'empty' cases
  util.analyse_paths, ParquetFile.__init__ (root), basepath / row_group_filename: contracts/c14_paths.py (props/_analyse.py)
Native replays of every refutation and of the ASSUMED metadata table: tools/c08native.py.  Findings: contracts/findings.jsonl (C08-P-*).
"""
import ast
import itertools
import time

import z3

from vc import backends
from vc.front_py import parse_module
from vc.symexec import (Engine, Path, Custom, Opaque, Str, PyB, PyI, NONE, NoneV, Unsupported, Tup, Opt, AbstractComp)
from vlib.common import PROVED, REFUTED, UNKNOWN
from .util import Results, solve

I, B, S = z3.IntSort(), z3.BoolSort(), z3.StringSort()
VAL = z3.DeclareSort("PyValue")                      # a partition key value / a parsed value (compared with ==)

FID_BACKSLASH = "C08-backslash-in-partition-value"                      # bounded finding, re-derived here
FID_DRILL_MIXED = "C08-drill-level-mixing-retypable-and-plain-text"     # bounded finding, re-derived here
FID_EQUALS = "C08-P-equals-sign-in-partition-text"
FID_DRILL_AS_HIVE = "C08-P-drill-levels-with-equals-read-as-hive"
FID_DOTDOT = "C08-P-drill-dot-segments-escape-root"
FID_NO_META = "C08-P-partition-metadata-not-passed"
FID_SCHEME = "C08-P-get-file-scheme-does-not-compare-keys"


def sv(s):
    return z3.StringVal(s)


BS, SL, EQ = sv("\\"), sv("/"), sv("=")

# ---- uninterpreted text functions + their ASSUMED algebraic facts ---------------------------------------------------------------
REPL = z3.Function("replace_backslash_by_slash", S, S)       # s.replace('\\', '/')
RSTRIP = z3.Function("rstrip_slash", S, S)                   # s.rstrip('/')
LSTRIP = z3.Function("lstrip_slash", S, S)
STRIP = z3.Function("strip_slash", S, S)
LOWER = z3.Function("lower", S, S)
STR = z3.Function("str_of_value", VAL, S)                    # str(v) == '%s' % v
ISO = z3.Function("isoformat_of_value", VAL, S)              # v.isoformat()
TEXTVAL = z3.Function("value_of_text_key", S, VAL)           # the Python str object with this text, as a key value
KIND = z3.Function("kind_of_value", VAL, I)
NAMES_VALUE = z3.Function("text_names_value", S, VAL, B)     # ORACLE: parsing the text by the kind of v gives v
DEC = z3.Function("decimal_text_of_int", I, S)               # '%i' % n / f'{n}'  (ASSUMED injective)
K_INT, K_FLOAT, K_BOOL, K_TS, K_TEXT, K_CAT = range(6)
KINDS = {K_INT: "int", K_FLOAT: "float", K_BOOL: "bool", K_TS: "timestamp", K_TEXT: "text"}


def repl_facts(s):
    r = REPL(s)
    return [z3.Length(r) == z3.Length(s), z3.Not(z3.Contains(r, BS)), z3.Implies(z3.Not(z3.Contains(s, BS)), r == s),
            z3.Implies(z3.Contains(s, BS), z3.Contains(r, SL)), z3.Implies(z3.PrefixOf(SL, s), z3.PrefixOf(SL, r)),
            z3.Contains(r, EQ) == z3.Contains(s, EQ), z3.Implies(z3.Contains(s, SL), z3.Contains(r, SL)),
            z3.Implies(z3.And(z3.Not(z3.Contains(s, SL)), z3.Not(z3.Contains(s, BS))), z3.Not(z3.Contains(r, SL)))]


def rstrip_facts(s):
    r = RSTRIP(s)
    return [z3.PrefixOf(r, s), z3.Not(z3.SuffixOf(SL, r)), z3.Implies(z3.Not(z3.SuffixOf(SL, s)), r == s),
            z3.Implies(z3.Not(z3.Contains(s, BS)), z3.Not(z3.Contains(r, BS))),
            z3.Implies(z3.Not(z3.Contains(s, SL)), z3.Not(z3.Contains(r, SL))),
            z3.Implies(z3.And(z3.PrefixOf(SL, s), z3.Length(r) > 0), z3.PrefixOf(SL, r)),
            z3.Implies(z3.Contains(s, EQ), z3.And(z3.Contains(r, EQ), z3.Length(r) > 0))]


def lstrip_facts(s):
    r = LSTRIP(s)
    return [z3.SuffixOf(r, s), z3.Not(z3.PrefixOf(SL, r)), z3.Implies(z3.Not(z3.PrefixOf(SL, s)), r == s),
            z3.Implies(z3.PrefixOf(SL, s), z3.Length(r) < z3.Length(s))]


def strip_facts(s):
    r = STRIP(s)
    return [z3.Contains(s, r), z3.Not(z3.PrefixOf(SL, r)), z3.Not(z3.SuffixOf(SL, r)),
            z3.Implies(z3.And(z3.Not(z3.PrefixOf(SL, s)), z3.Not(z3.SuffixOf(SL, s))), r == s),
            z3.Implies(z3.PrefixOf(SL, s), z3.Length(r) < z3.Length(s))]


def clean(c):
    """a path component that join_path must leave alone: no backslash, no trailing '/'"""
    return z3.And(z3.Not(z3.Contains(c, BS)), z3.Not(z3.SuffixOf(SL, c)))


def segment(c):
    """a legal single directory / file name: non-empty, no '/', not '.' / '..'"""
    return z3.And(z3.Length(c) > 0, z3.Not(z3.Contains(c, SL)), c != sv("."), c != sv(".."))


# ---- values of the proof scripts --------------------------------------------------------------------------------------------------
class TextV:
    """a Python str whose content is the z3 String term z"""
    tracked = False

    def __init__(self, z):
        self.z = z

    def truth(self, eng, p):
        return z3.Length(self.z) > 0

    def is_none(self, eng, p):
        return z3.BoolVal(False)

    def len(self, eng, p):
        return PyI(z3.Length(self.z))

    def eq(self, eng, p, other):
        z = text_of(other)
        if z is not None:
            return self.z == z
        if isinstance(other, Opt):
            return z3.And(z3.Not(other.isnone), self.eq(eng, p, other.val))
        return z3.BoolVal(False)            # a str never equals True / 1 / None / a non-str object

    def contains(self, eng, p, item):
        z = text_of(item)
        if z is None:
            raise Unsupported("`in` on a str with a non-str left operand")
        return z3.Contains(self.z, z)

    def isinstance(self, eng, p, tn):
        return z3.BoolVal(tn in ("str", "(str, bytes)", "(bytes, str)"))

    def slice(self, eng, p, lo, hi, node):
        n = z3.Length(self.z)

        def idx(v, dflt):
            if v is None:
                return dflt
            k = eng.as_int(v)
            ks = z3.simplify(k)
            if z3.is_int_value(ks) and ks.as_long() < 0:
                return z3.If(n + ks < 0, 0, n + ks)
            return z3.If(k > n, n, k)
        a, b = idx(lo, z3.IntVal(0)), idx(hi, n)
        return Custom(TextV(z3.SubString(self.z, a, z3.If(b > a, b - a, 0))))

    def getitem(self, eng, p, i, node):
        k = eng.as_int(i)
        ks, n = z3.simplify(k), z3.Length(self.z)
        if z3.is_int_value(ks) and ks.as_long() < 0:
            k = n + ks
        eng.oblige(p, f"{eng.cur_func}.str_index_in_range@L{getattr(node, 'lineno', 0)}", "safety", z3.And(0 <= k, k < n), node)
        return Custom(TextV(z3.SubString(self.z, k, 1)))

    def binop(self, eng, p, op, b, node):
        z = text_of(b)
        if isinstance(op, ast.Add) and z is not None:
            return Custom(TextV(z3.Concat(self.z, z)))
        raise Unsupported("str " + type(op).__name__)

    def call_method(self, eng, p, name, args, kw, node):
        a = [text_of(x) for x in args]
        lit = [x.s if isinstance(x, Str) else None for x in args]
        if name == "replace" and lit == ["\\", "/"]:
            p.axioms += repl_facts(self.z)
            return [(p, Custom(TextV(REPL(self.z))))]
        if name in ("rstrip", "lstrip", "strip") and lit == ["/"]:
            fn, facts = {"rstrip": (RSTRIP, rstrip_facts), "lstrip": (LSTRIP, lstrip_facts), "strip": (STRIP, strip_facts)}[name]
            p.axioms += facts(self.z)
            return [(p, Custom(TextV(fn(self.z))))]
        if name == "lower" and not args:
            return [(p, Custom(TextV(LOWER(self.z))))]
        if name == "split" and len(args) == 1 and lit[0] is not None and len(lit[0]) == 1:
            return [(p, Custom(SplitV(self.z, lit[0])))]
        if name == "split" and len(args) == 2 and a[0] is not None and _const(eng, args[1]) == 1:
            p.axioms += split1_facts(self.z, a[0])
            if "on_split1" in p.ghost and not p.ghost.get("on_split1_done"):
                p.pc += p.ghost["on_split1"]()            # scenario hypotheses about where a level sits inside the path text
                p.ghost["on_split1_done"] = True
            return [(p, Custom(Split1V(self.z, a[0])))]
        if name == "rsplit" and len(args) == 2 and lit[0] == "/" and _const(eng, args[1]) == 1:
            return [(p, Custom(RSplit1V(self.z)))]
        if name == "join" and len(args) == 1:
            return [(p, join_value(eng, p, self.z, args[0]))]
        if name == "startswith" and a and a[0] is not None:
            return [(p, PyB(z3.PrefixOf(a[0], self.z)))]
        if name == "endswith" and a and a[0] is not None:
            return [(p, PyB(z3.SuffixOf(a[0], self.z)))]
        if name in ("split", "rsplit", "partition", "rpartition", "splitlines"):
            raise Unsupported(f"str.{name} with these arguments")
        fn = z3.Function(f"str.{name}({','.join(repr(x) for x in lit)})", S, S)
        return [(p, Custom(TextV(fn(self.z))))]          # an unknown str -> str method: uninterpreted, no facts


def text_of(v):
    if isinstance(v, Str):
        return sv(v.s)
    if isinstance(v, Custom) and isinstance(v.h, TextV):
        return v.h.z
    return None


def _const(eng, v):
    try:
        s = z3.simplify(eng.as_int(v))
    except Unsupported:
        return None
    return s.as_long() if z3.is_int_value(s) else None


# '/'-pieces and '='-pieces of a text (ASSUMED str.split contract, instantiated per use)
NPIECES = {"/": z3.Function("number_of_slash_pieces", S, I), "=": z3.Function("number_of_equals_pieces", S, I)}
PIECE = {"/": z3.Function("slash_piece", S, I, S), "=": z3.Function("equals_piece", S, I, S)}


def split_facts(z, sep):
    n, c = NPIECES[sep](z), sv(sep)
    return [n >= 1, (n == 1) == z3.Not(z3.Contains(z, c)), z3.Implies(n == 1, PIECE[sep](z, 0) == z),
            z3.Not(z3.Contains(PIECE[sep](z, 0), c)), z3.PrefixOf(PIECE[sep](z, 0), z)]


def split2_facts(z, sep, a, b):
    """z == a + sep + b with no separator in a: the first piece is a, the others are the pieces of b"""
    c = sv(sep)
    return [z3.Implies(z3.And(z == z3.Concat(a, c, b), z3.Not(z3.Contains(a, c))),
                       z3.And(PIECE[sep](z, 0) == a, NPIECES[sep](z) == 1 + NPIECES[sep](b), REST_AFTER_FIRST[sep](z) == b,
                              z3.Implies(z3.Not(z3.Contains(b, c)), PIECE[sep](z, 1) == b)))] + split_facts(b, sep)


REST_AFTER_FIRST = {"/": z3.Function("text_after_first_slash", S, S), "=": z3.Function("text_after_first_equals", S, S)}
WORD_SUFFIX = z3.Function("longest_suffix_of_word_characters", S, S)       # maximal suffix matching [a-zA-Z_0-9]*
IS_WORD = z3.Function("is_nonempty_and_only_word_characters", S, B)        # matches [a-zA-Z_0-9]+ entirely


def word_facts(k):
    """ASSUMED regex class [a-zA-Z_0-9]: the longest word-character suffix of k is k itself exactly when k is a non-empty word"""
    w = WORD_SUFFIX(k)
    return [z3.SuffixOf(w, k), IS_WORD(k) == z3.And(w == k, z3.Length(k) > 0), z3.Not(z3.Contains(w, EQ)), z3.Not(z3.Contains(w, SL)),
            z3.Implies(z3.Length(w) > 0, IS_WORD(w))]


class RegexKV:
    """util.ex_from_sep('/') == re.compile('([a-zA-Z_0-9]+)=([^/]+)')"""
    tracked = False

    def call_method(self, eng, p, name, args, kw, node):
        if name != "findall" or len(args) != 1 or text_of(args[0]) is None:
            raise Unsupported("regex." + name)
        # ASSUMED re.findall with two groups on a '/'-separated text: scanning left to right, one (key, value) pair per level k=v (k without
        # '='): key = the longest suffix of k made of word characters (it must be non-empty for the level to match at this '='), value =
        # everything after that '=' up to the next '/' (non-empty).  (A level whose k ends with a non-word character may still match at a
        # later '=' inside v: not modelled.)
        seq = SplitV(text_of(args[0]), "/")
        lvl = text_of(seq.arbitrary(eng, p))
        k, v = PIECE["="](lvl, 0), REST_AFTER_FIRST["="](lvl)
        p.axioms += split_facts(lvl, "=") + word_facts(k)
        guard = z3.And(z3.Contains(lvl, EQ), z3.Length(WORD_SUFFIX(k)) > 0, z3.Length(v) > 0)
        comp = WComp(Tup([Custom(TextV(WORD_SUFFIX(k))), Custom(TextV(v))]), guard, Custom(seq))
        return [(p, Custom(comp))]


class SplitV:
    """s.split(sep): a list of NPIECES(s) >= 1 texts"""
    tracked = False

    def __init__(self, z, sep, lo=0, drop_last=0):
        self.z, self.sep, self.lo, self.drop_last = z, sep, lo, drop_last

    def n(self):
        return NPIECES[self.sep](self.z) - self.lo - self.drop_last

    def len(self, eng, p):
        p.axioms += split_facts(self.z, self.sep)
        return PyI(self.n())

    def truth(self, eng, p):
        p.axioms += split_facts(self.z, self.sep)
        return self.n() > 0

    def at(self, eng, p, k):
        p.axioms += split_facts(self.z, self.sep)
        return Custom(TextV(PIECE[self.sep](self.z, z3.simplify(k + self.lo))))

    def getitem(self, eng, p, i, node):
        k = eng.as_int(i)
        ks = z3.simplify(k)
        if z3.is_int_value(ks) and ks.as_long() < 0:
            k = self.n() + ks
        p.axioms += split_facts(self.z, self.sep)
        eng.oblige(p, f"{eng.cur_func}.split_index_in_range@L{getattr(node, 'lineno', 0)}", "safety", z3.And(0 <= k, k < self.n()), node)
        return self.at(eng, p, k)

    def slice(self, eng, p, lo, hi, node):
        a = _const(eng, lo) if lo is not None else 0
        b = _const(eng, hi) if hi is not None else 0
        if a is None or b is None or a < 0 or b > 0:
            raise Unsupported("slice of a split result")
        return Custom(SplitV(self.z, self.sep, self.lo + a, self.drop_last - b))

    def unpack2(self, eng, p):
        """`key, val = <this>`: exactly two pieces, else ValueError"""
        p.axioms += split_facts(self.z, self.sep)
        ok, bad = p.fork(self.n() == 2), p.fork(self.n() != 2)
        out = []
        if eng.feasible(ok):
            out.append((ok, [self.at(eng, ok, z3.IntVal(0)), self.at(eng, ok, z3.IntVal(1))]))
        if eng.feasible(bad):
            bad.ctl = ("raise", "ValueError")
            bad.trace.append(("raise", 0))
            out.append((bad, None))
        return out

    def index_set(self, eng, p):
        i = p.ghost.get("witness:" + self.sep)
        if i is None:
            i = eng.fresh_int("piece_i")
        p.pc += [0 <= i, i < self.n()]
        return i

    def arbitrary(self, eng, p):
        return self.at(eng, p, self.index_set(eng, p))

    def enumerate(self, eng, p):
        return Custom(EnumV(self))

    def nonempty(self, eng, p):
        return self.truth(eng, p)


BEFORE1 = z3.Function("text_before_first_occurrence", S, S, S)
AFTER1 = z3.Function("text_after_first_occurrence", S, S, S)


def split1_facts(z, sep):
    """ASSUMED str.split(sep, 1) for a non-empty sep: [z] when sep does not occur, else [text before the FIRST occurrence, text after it]"""
    b, a = BEFORE1(z, sep), AFTER1(z, sep)
    # FIRST occurrence: sep does not occur in (before + sep without its last character).  (The IndexOf formulation left z3 `unknown`.)
    return [z3.Implies(z3.Contains(z, sep), z3.And(z == z3.Concat(b, sep, a), z3.Length(sep) > 0,
                                                   z3.Not(z3.Contains(z3.Concat(b, z3.SubString(sep, 0, z3.Length(sep) - 1)), sep))))]


class Split1V:
    """s.split(sep, 1)"""
    tracked = False

    def __init__(self, z, sep):
        self.z, self.sep = z, sep

    def len(self, eng, p):
        return PyI(z3.If(z3.Contains(self.z, self.sep), 2, 1))

    def getitem(self, eng, p, i, node):
        k = _const(eng, i)
        has = z3.Contains(self.z, self.sep)
        if k in (0, -2):
            if k == -2:
                eng.oblige(p, f"{eng.cur_func}.split_index_in_range@L{getattr(node, 'lineno', 0)}", "safety", has, node)
            return Custom(TextV(z3.If(has, BEFORE1(self.z, self.sep), self.z)))
        if k == 1:
            eng.oblige(p, f"{eng.cur_func}.split_index_in_range@L{getattr(node, 'lineno', 0)}", "safety", has, node,
                       note="s.split(sep, 1)[1]: IndexError unless sep occurs in s")
            p.pc.append(has)
            return Custom(TextV(AFTER1(self.z, self.sep)))
        if k == -1:
            return Custom(TextV(z3.If(has, AFTER1(self.z, self.sep), self.z)))
        raise Unsupported("index into s.split(sep, 1)")


class EnumV:
    tracked = False

    def __init__(self, seq):
        self.seq = seq

    def arbitrary(self, eng, p):
        i = self.seq.index_set(eng, p)
        return Tup([PyI(i), self.seq.at(eng, p, i)])

    def nonempty(self, eng, p):
        return self.seq.truth(eng, p)

    def len(self, eng, p):
        return self.seq.len(eng, p)


class RSplit1V:
    """s.rsplit('/', 1) of a text that contains '/': [everything before the last '/', the last piece]"""
    tracked = False

    def __init__(self, z):
        self.z = z

    def getitem(self, eng, p, i, node):
        k = _const(eng, i)
        eng.oblige(p, f"{eng.cur_func}.rsplit_on_text_with_separator", "safety", z3.Contains(self.z, SL), node,
                   note="rsplit('/', 1)[0] is the directory only when the path contains '/'")
        if k == 0:
            p.axioms += dirname_facts(self.z)
            return Custom(TextV(DIRNAME(self.z)))
        if k in (1, -1):
            p.axioms += split_facts(self.z, "/")
            return Custom(TextV(PIECE["/"](self.z, NPIECES["/"](self.z) - 1)))
        raise Unsupported("rsplit index")


DIRNAME = z3.Function("text_before_last_slash", S, S)


def dirname_facts(z):
    """ASSUMED str.rsplit('/', 1)[0] for a text with a '/': the '/'-pieces of the result are all but the last piece of the text"""
    d = DIRNAME(z)
    return [z3.Implies(z3.Contains(z, SL), z3.And(NPIECES["/"](d) == NPIECES["/"](z) - 1, z3.PrefixOf(d, z), z3.Length(d) < z3.Length(z)))] \
        + split_facts(z, "/") + split_facts(d, "/")


def dirname_piece_fact(z, k):
    return z3.Implies(z3.And(z3.Contains(z, SL), 0 <= k, k < NPIECES["/"](z) - 1), PIECE["/"](DIRNAME(z), k) == PIECE["/"](z, k))


class JoinedV(TextV):
    """sep.join(<comprehension over an abstract collection>): its content is an uninterpreted text; what is known about it is
    the comprehension (kept for the trace obligations)"""

    def __init__(self, z, sep, comp):
        TextV.__init__(self, z)
        self.sep, self.comp = sep, comp


JOINED = z3.Function("joined_text", I, S)


def join_value(eng, p, sepz, arg):
    if isinstance(arg, Tup):
        zs = [text_of(x) for x in arg.items]
        if any(x is None for x in zs):
            raise Unsupported("join of non-texts")
        out = []
        for k, x in enumerate(zs):
            out += ([sepz] if k else []) + [x]
        return Custom(TextV(z3.Concat(*out) if len(out) > 1 else (out[0] if out else sv(""))))
    if isinstance(arg, Custom) and isinstance(arg.h, (AbstractComp, SplitV)):
        return Custom(JoinedV(JOINED(next(eng.counter)), sepz, arg))
    raise Unsupported("join of " + type(getattr(arg, "h", arg)).__name__)


class StarArgs:
    """f(*xs) with xs an abstract collection"""
    tracked = False

    def __init__(self, v):
        self.v = v


class DictLit:
    tracked = False

    def __init__(self, d):
        self.d = d

    def truth(self, eng, p):
        return z3.BoolVal(bool(self.d))

    def getitem(self, eng, p, i, node):
        if isinstance(i, Str) and i.s in self.d:
            return self.d[i.s]
        raise Unsupported("dict literal lookup")

    def contains(self, eng, p, item):
        return z3.BoolVal(isinstance(item, Str) and item.s in self.d)

    def call_method(self, eng, p, name, args, kw, node):
        if name == "get" and not self.d:
            return [(p, args[1] if len(args) > 1 else NONE)]
        raise Unsupported("dict literal." + name)


class Eng(Engine):
    """engine extensions used by all runs of this module"""

    def ev_args(self, e, p):
        if not any(isinstance(a, ast.Starred) for a in e.args):
            return super().ev_args(e, p)
        acc = [(p, [])]
        for a in e.args:
            nxt = []
            for q, vs in acc:
                if isinstance(a, ast.Starred):
                    for r, v in self.ev(a.value, q):
                        if isinstance(v, (Tup, Custom)):
                            nxt.append((r, vs + [Custom(StarArgs(v))]))
                        else:
                            raise Unsupported("*args of " + type(v).__name__)
                else:
                    nxt += [(r, vs + [v]) for r, v in self.ev(a, q)]
            acc = nxt
        out = []
        for q, args in acc:
            a2 = [(q, {})]
            for k in e.keywords:
                if k.arg is None:
                    raise Unsupported("**kwargs call")
                a2 = [(r, dict(d, **{k.arg: v})) for q2, d in a2 for r, v in self.ev(k.value, q2)]
            out += [(r, (args, d)) for r, d in a2]
        return out

    def e_JoinedStr(self, e, p):
        parts = []
        for v in e.values:
            if isinstance(v, ast.Constant):
                parts.append(sv(v.value))
            else:
                x = self.ev1(v.value, p)
                z = text_of(x)
                if z is None and isinstance(x, (PyI, PyB)):
                    z = DEC(self.as_int(x))                   # decimal text of an int (positions)
                if z is None and isinstance(x, Custom) and hasattr(x.h, "as_text"):
                    z = x.h.as_text(self, p)
                if z is None:
                    return [(p, Opaque(("fstring", next(self.counter))))]
                parts.append(z)
        return [(p, Custom(TextV(z3.Concat(*parts) if len(parts) > 1 else parts[0])))]

    def getattr(self, o, attr, p, node):
        if isinstance(o, Str):
            return Custom(BoundStr(o.s, attr))
        return super().getattr(o, attr, p, node)

    def e_Call(self, e, p):
        fn = e.func
        if isinstance(fn, ast.Name) and fn.id in p.env and ("var:" + fn.id) in self.handlers:
            out = []
            for q, (args, kw) in self.ev_args(e, p):
                out += self.handlers["var:" + fn.id](self, q, [q.env[fn.id]] + args, kw, e)
            return out
        if isinstance(fn, ast.Attribute) and isinstance(fn.value, ast.Constant) and isinstance(fn.value.value, str):
            out = []
            for q, (args, kw) in self.ev_args(e, p):
                out += TextV(sv(fn.value.value)).call_method(self, q, fn.attr, args, kw, e)
            return out
        return super().e_Call(e, p)

    def e_Dict(self, e, p):
        if all(isinstance(k, ast.Constant) and isinstance(k.value, str) for k in e.keys):
            d = {}
            for k, v in zip(e.keys, e.values):
                d[k.value] = self.ev1(v, p)
            return [(p, Custom(DictLit(d)))]
        return super().e_Dict(e, p)

    def s_Return(self, st, p):
        outs = super().s_Return(st, p)
        for q in outs:
            pend = q.ghost.pop("pending_raise", None)
            if pend is not None:
                q.ctl = pend
        return outs

    def call_named(self, name, selfobj, e, p):
        out = super().call_named(name, selfobj, e, p)
        for q, v in out:
            if isinstance(q.ctl, tuple) and q.ctl[0] != "ret":
                q.ghost["pending_raise"] = q.ctl        # s_Return must not turn an exception of an inlined callee (or a path that ended
                #                                         inside an abstract loop iteration) into a value
        return out

    def assign(self, t, v, p):
        if isinstance(t, (ast.Tuple, ast.List)) and len(t.elts) == 2 and isinstance(v, Custom) and isinstance(v.h, SplitV):
            outs = []
            for q, items in v.h.unpack2(self, p):
                if items is None:
                    outs.append(q)
                    continue
                qs = [q]
                for tt, vv in zip(t.elts, items):
                    qs = [r2 for r in qs for r2 in Engine.assign(self, tt, vv, r)]
                outs += qs
            return outs
        return super().assign(t, v, p)

    def load_sub(self, o, i, p, node):
        if isinstance(o, NoneV):
            raised(p, "TypeError")            # None[...]
            return Opaque("raised")
        return super().load_sub(o, i, p, node)

    def unpack(self, v, n, p):
        if isinstance(v, Custom) and isinstance(v.h, SplitV):
            raise Unsupported("unpacking a split result of unknown length outside a 2-target assignment")
        return super().unpack(v, n, p)


class BoundStr:
    """'lit'.method"""
    tracked = False

    def __init__(self, s, name):
        self.s, self.name = s, name


def effects(p):
    return p.ghost.setdefault("effects", [])


def raised(p, name):
    p.ctl = ("raise", name)
    p.trace.append(("raise", 0))
    p.ghost["pending_raise"] = p.ctl
    return [(p, Opaque("raised"))]


def mval(m, t):
    try:
        v = m.eval(t, model_completion=True)
        if z3.is_string_value(v):
            return v.as_string()
        return backends.model_value(m, t)
    except Exception:
        return None


def discharge_engine(eng, res, prefix, timeout, model_terms=()):
    for ob in eng.oblig:
        st, be, secs, m = backends.discharge(ob, timeout)
        nm = ob.name if ob.name.startswith(prefix) else prefix + ob.name.split(".", 1)[-1]
        mdl = None
        if m is not None:
            mdl = {str(t)[:60]: mval(m, t) for t in model_terms} or {"z3_model": str(m)[:400]}
        res.add(nm, st, mdl, secs, be, ob.note or ob.kind)
    eng.oblig = []


def pose(res, timeout, name, q, hyps, goal, detail, model_terms=(), extra_axioms=()):
    st, m, secs = solve(list(q.pc) + list(q.axioms) + list(extra_axioms) + list(hyps) + [z3.Not(goal)], timeout)
    mdl = None
    if m is not None:
        mdl = {str(t)[:70]: mval(m, t) for t in model_terms} or {"z3_model": str(m)[:300]}
    res.add(name, st, mdl, secs, "z3", detail)
    return st


def auto_facts(fs):
    """ASSUMED facts of str.replace / rstrip / ... instantiated for every application that occurs (closed under the facts' own terms)"""
    table = {"replace_backslash_by_slash": repl_facts, "rstrip_slash": rstrip_facts, "lstrip_slash": lstrip_facts, "strip_slash": strip_facts}
    seen, out, work = set(), [], list(fs)
    while work:
        t = work.pop()
        if t.get_id() in seen:
            continue
        seen.add(t.get_id())
        if z3.is_app(t):
            fn = table.get(t.decl().name())
            if fn is not None:
                new = fn(t.arg(0)) + concat_theorems(t.arg(0))
                out += new
                work += new
            work += t.children()
    return out


def concat_theorems(x):
    """THEOREMS of the theory of strings (not assumptions), instantiated as hints: a one-character needle occurs in a concatenation
    iff it occurs in a part; the last / first character of a concatenation is that of its last / first non-empty part"""
    out = [z3.Implies(z3.SuffixOf(SL, x), z3.Contains(x, SL)), z3.Implies(z3.PrefixOf(SL, x), z3.Contains(x, SL))]
    flat = []

    def fl(t):
        if z3.is_app(t) and t.decl().kind() == z3.Z3_OP_SEQ_CONCAT:
            for c in t.children():
                fl(c)
        else:
            flat.append(t)
    fl(x)
    if len(flat) > 1:
        for ch in (SL, BS, EQ):
            out.append(z3.Contains(x, ch) == z3.Or(*[z3.Contains(t, ch) for t in flat]))
        out.append(z3.Implies(z3.Length(flat[-1]) > 0, z3.SuffixOf(SL, x) == z3.SuffixOf(SL, flat[-1])))
        out.append(z3.Implies(z3.Length(flat[0]) > 0, z3.PrefixOf(SL, x) == z3.PrefixOf(SL, flat[0])))
    return out


def pose_s(res, timeout, name, hyps, goal, detail, model_terms=()):
    """a text lemma: hypotheses + the ASSUMED facts of every str.replace / rstrip application in it"""
    cs = list(hyps) + [z3.Not(goal)]
    st, m, secs = solve(cs + auto_facts(cs), timeout)
    mdl = None
    if m is not None:
        mdl = {str(t)[:70]: mval(m, t) for t in model_terms} or {"z3_model": str(m)[:300]}
    res.add(name, st, mdl, secs, "z3", detail)
    return st


def abstract_string_ufs(fs):
    """replace every application of an uninterpreted function of sort String by a fresh constant (same term -> same constant,
    innermost first).  Returns (formulas, [(abstracted application with abstracted arguments, its constant)])"""
    apps, seen = [], set()

    def walk(t):
        if t.get_id() in seen:
            return
        seen.add(t.get_id())
        for c in t.children():
            walk(c)
        if z3.is_app(t) and t.num_args() > 0 and t.decl().kind() == z3.Z3_OP_UNINTERPRETED and t.sort() == S:
            apps.append(t)                  # post-order: inner applications first
    for f in fs:
        walk(f)
    pairs, out = [], list(fs)
    for k, t in enumerate(apps):
        t2 = t
        for pr in pairs:                                       # its arguments with the inner applications already abstracted
            t2 = z3.substitute(t2, pr)
        c = z3.String(f"abs!{k}")
        pairs.append((t2, c))
    for t2, c in pairs:                                        # innermost first: outer terms are rewritten step by step into the t2 shapes
        out = [z3.substitute(f, (t2, c)) for f in out]
    return out, pairs


def _py_text_functions():
    """the Python meaning of the uninterpreted text functions on CONCRETE texts (a model of their ASSUMED facts): used only to evaluate a
    bounded instance whose texts are all literals"""
    def piece(sep):
        return lambda s_, k: s_.split(sep)[k] if 0 <= k < len(s_.split(sep)) else None

    def pre(s_, k):
        ps = s_.split("/")
        return ("/".join(ps[:k]) + ("/" if k > 0 else "")) if 0 <= k < len(ps) else None

    def post(s_, k):
        ps = s_.split("/")
        return (("/" + "/".join(ps[k + 1:])) if k < len(ps) - 1 else "") if 0 <= k < len(ps) else None
    return {"slash_piece": piece("/"), "equals_piece": piece("="), "number_of_slash_pieces": lambda s_: len(s_.split("/")),
            "number_of_equals_pieces": lambda s_: len(s_.split("=")), "text_before_last_slash": lambda s_: s_.rsplit("/", 1)[0] if "/" in s_ else None,
            "text_before_first_occurrence": lambda s_, p_: s_.split(p_, 1)[0] if p_ and p_ in s_ else None,
            "text_after_first_occurrence": lambda s_, p_: s_.split(p_, 1)[1] if p_ and p_ in s_ else None,
            "text_before_slash_piece": pre, "text_after_slash_piece": post,
            "replace_backslash_by_slash": lambda s_: s_.replace("\\", "/"), "rstrip_slash": lambda s_: s_.rstrip("/"),
            "lstrip_slash": lambda s_: s_.lstrip("/"), "strip_slash": lambda s_: s_.strip("/"), "lower": lambda s_: s_.lower()}


def concretize(fs):
    """evaluate, innermost first, every application of a text function whose arguments are literals"""
    table = _py_text_functions()
    for _ in range(12):
        fs = [z3.simplify(f) for f in fs]
        found, seen = {}, set()

        def walk(t):
            if t.get_id() in seen:
                return
            seen.add(t.get_id())
            for c in t.children():
                walk(c)
            if z3.is_app(t) and t.num_args() > 0 and t.decl().name() in table and t.get_id() not in found:
                args = []
                for a_ in t.children():
                    if z3.is_string_value(a_):
                        args.append(a_.as_string())
                    elif z3.is_int_value(a_):
                        args.append(a_.as_long())
                    else:
                        return
                v = table[t.decl().name()](*args)
                if v is not None:
                    found[t.get_id()] = (t, z3.IntVal(v) if isinstance(v, int) else sv(v))
        for f in fs:
            walk(f)
        if not found:
            break
        for pr in found.values():
            fs = [z3.substitute(f, pr) for f in fs]
    return fs


def enumerated_counter_model(cs, inst, neg_goal, names, candidates, timeout, presub=(), budget=40.0):
    """UNKNOWN in general -> the same query on a bounded instance `inst` of the scenario with the free texts `names` fixed to each tuple
    of `candidates` in turn: every text is then a literal and the uninterpreted text functions are EVALUATED with their Python meaning
    (which satisfies their ASSUMED facts).  Applications that remain are replaced by constants and a model is accepted only after the ACKERMANN check - two applications of the same function with
    equal arguments in the model have equal values - so it extends to a model of the original constraints: a genuine counter-model.
    PROVED never comes from here.  Returns (candidate, model, secs)"""
    t0 = time.time()
    base = list(cs) + list(inst) + [neg_goal]
    for cand in candidates:
        if time.time() - t0 > budget:
            break
        fs = base
        for pr in list(presub) + [(x, sv(v)) for x, v in zip(names, cand)]:
            fs = [z3.substitute(f, pr) for f in fs]
        # a defined text of the instance (`application == explicit text`) is replaced by its value everywhere, repeatedly
        for _ in range(4):
            fs = [z3.simplify(f) for f in fs]
            defs = [(f.arg(0), f.arg(1)) for f in fs if z3.is_eq(f) and z3.is_string_value(f.arg(1)) and z3.is_app(f.arg(0)) and f.arg(0).num_args() > 0
                    and f.arg(0).decl().kind() == z3.Z3_OP_UNINTERPRETED]
            defs += [(f.arg(1), f.arg(0)) for f in fs if z3.is_eq(f) and z3.is_string_value(f.arg(0)) and z3.is_app(f.arg(1)) and f.arg(1).num_args() > 0
                     and f.arg(1).decl().kind() == z3.Z3_OP_UNINTERPRETED]
            if not defs:
                break
            for pr in defs:
                fs = [f if (z3.is_eq(f) and f.arg(0).eq(pr[0]) and f.arg(1).eq(pr[1])) else z3.substitute(f, pr) for f in fs]
        weak, pairs = abstract_string_ufs(concretize(fs))
        sol = z3.Solver()
        sol.set("timeout", 3000)
        sol.add(*weak)
        if sol.check() != z3.sat:
            continue
        m = sol.model()
        ok = True
        for (ta, ca), (tb, cb) in itertools.combinations(pairs, 2):
            if ta.decl().eq(tb.decl()) and all(m.eval(x, model_completion=True).eq(m.eval(y, model_completion=True)) for x, y in zip(ta.children(), tb.children())) \
                    and not m.eval(ca, model_completion=True).eq(m.eval(cb, model_completion=True)):
                ok = False
                break
        if ok:
            return cand, m, time.time() - t0
    return None, None, time.time() - t0


def trace(res, name, ok, detail, info=None):
    res.add(name, PROVED if ok else REFUTED, None if ok else (info or {}), 0.0, "trace", detail)
    return ok


def _names(t):
    return {n.id for n in ast.walk(t) if isinstance(n, ast.Name)}


def _stored(stmts):
    out = set()
    for nd in ast.walk(ast.Module(body=list(stmts), type_ignores=[])):
        if isinstance(nd, ast.Name) and isinstance(nd.ctx, ast.Store):
            out.add(nd.id)
    return out


# =================================================================================================================================
#  util.join_path
# =================================================================================================================================
class CompArg:
    """one arbitrary member of join_path's *path: None or a str with content c"""
    IS_NONE, C = z3.Bool("component_is_None"), z3.String("component")


class PathArgs:
    tracked = False

    def arbitrary(self, eng, p):
        return Opt(CompArg.IS_NONE, Custom(TextV(CompArg.C)))

    def nonempty(self, eng, p):
        return z3.Bool("has_components")


def h_str(eng, p, args, kw, node):
    """ASSUMED: str(s) is s for a str; str(v) for a key value is the text STR(v)"""
    v = args[0]
    if isinstance(v, Opt):                   # reached only under `if p` (not None)
        v = v.val
    if text_of(v) is not None:
        return [(p, Custom(TextV(text_of(v))))]
    if isinstance(v, Custom) and hasattr(v.h, "as_text"):
        return [(p, Custom(TextV(v.h.as_text(eng, p))))]
    raise Unsupported("str() of " + type(getattr(v, "h", v)).__name__)


def norm(c):
    return RSTRIP(REPL(c))


def norm_facts(c):
    return repl_facts(c) + rstrip_facts(REPL(c))


def run_join_path(ctx, funcs, timeout):
    res = Results()
    eng = Eng(funcs=funcs, handlers={"str": h_str}, opaque_calls=True)
    p = Path()
    args = Custom(PathArgs())
    p.env["__star__"] = args
    f = funcs["join_path"]
    if not (f.tree.args.vararg and not f.tree.args.args):
        raise Unsupported("join_path no longer takes *path only")
    # bind *path by hand (the engine binds positional parameters only)
    eng.cur_func = "join_path"
    p.stack.append((p.env, p.types))
    p.env, p.types = {f.tree.args.vararg.arg: args}, {}
    outs = eng.block(f.tree.body, [p])
    discharge_engine(eng, res, "join_path.", timeout)
    rets = [q for q in outs if isinstance(q.ctl, tuple) and q.ctl[0] == "ret"]
    if len(rets) != 1 or len(outs) != 1:
        res.add("join_path.out_of_reach", UNKNOWN, None, 0.0, "engine", "join_path is no longer a single expression over its components")
        return res
    q = rets[0]
    v = q.ctl[1]
    h = v.h if isinstance(v, Custom) else None
    ok = isinstance(h, JoinedV) and z3.simplify(h.sep).eq(SL) and isinstance(h.comp, Custom) and isinstance(h.comp.h, AbstractComp) \
        and h.comp.h.coll is args
    trace(res, "join_path.is_slash_join_over_all_components", ok,
          "the result is '/'.join(<one text per kept component>), the comprehension ranging over ALL of *path in order", {"result": type(h).__name__})
    if not ok:
        return res
    comp = h.comp.h
    elt = text_of(comp.elt)
    if elt is None:
        res.add("join_path.out_of_reach", UNKNOWN, None, 0.0, "engine", "the joined element is not a text")
        return res
    C, NONE_ = CompArg.C, CompArg.IS_NONE
    terms = (C, elt, NONE_)
    pose(res, timeout, "join_path.keeps_exactly_the_non_empty_components", q, [], comp.guard == z3.And(z3.Not(NONE_), z3.Length(C) > 0),
         "a component contributes iff it is neither None nor '' (so an absent partition directory / an empty root adds no '/')", terms)
    pose(res, timeout, "join_path.clean_component_verbatim", q, [z3.Not(NONE_), clean(C)], elt == C,
         "a component without backslash and without trailing '/' is joined unchanged (name=text levels, part.N.parquet)", terms)
    pose(res, timeout, "join_path.leading_slash_kept", q, [z3.Not(NONE_), z3.PrefixOf(SL, C), z3.Not(z3.Contains(C, BS)),
                                                           z3.Length(RSTRIP(C)) > 0], z3.PrefixOf(SL, elt),
         "an absolute root keeps its leading '/' (only trailing separators are dropped)", terms)
    pose(res, timeout, "join_path.trailing_separator_dropped", q, [z3.Not(NONE_)], z3.Not(z3.SuffixOf(SL, elt)),
         "no joined component ends with '/': root 'dir/' and 'dir' give the same paths, and no '//' arises from a trailing separator", terms)
    pose(res, timeout, "join_path.no_backslash_in_result_component", q, [z3.Not(NONE_)], z3.Not(z3.Contains(elt, BS)),
         "separators are normalised: every backslash of a component has become '/'", terms)
    pose(res, timeout, "join_path.component_is_normalised_text", q, [z3.Not(NONE_)], elt == norm(C),
         "each kept component contributes exactly str(p).replace('\\\\', '/').rstrip('/')", terms)
    pose(res, timeout, "join_path.equals_sign_survives", q, [z3.Not(NONE_), z3.Contains(C, EQ)], z3.And(z3.Contains(elt, EQ), z3.Length(elt) > 0),
         "a name=text level is never dropped or emptied by the normalisation", terms)
    # root cause of the known finding C08-backslash-in-partition-value, stated as a fact about join_path (not a defect of join_path itself)
    st = pose(res, timeout, "join_path.backslash_component_is_altered", q, [z3.Not(NONE_), z3.Contains(C, BS)], elt != C,
              "a component containing a backslash does NOT come out verbatim (P-layer root cause of " + FID_BACKSLASH + ")", terms)
    # vacuity: the precondition of the lemmas is satisfiable and a wrong claim is refutable
    if solve(list(q.pc) + list(q.axioms) + [z3.Not(NONE_), clean(C), z3.Length(C) > 0], timeout)[0] == REFUTED:
        ctx.vacuity["requires_sat"] += 1
    else:
        ctx.engine_error("join_path: precondition unsatisfiable")
    if solve(list(q.pc) + list(q.axioms) + [z3.Not(NONE_), z3.Not(elt == C)], timeout)[0] == REFUTED:
        ctx.vacuity["must_fail_sat"] += 1
    else:
        ctx.engine_error("join_path vacuity: 'every component verbatim' is not refutable")
    ctx.vacuity["covers"] += 1
    return res


def join_term(eng, p, args):
    """CUT (contract of join_path proved by run_join_path): the text join_path(*args) for a concrete argument list of texts:
    '/'.join(norm(c) for the non-empty c).  Returns a z3 String term (If-nest over which components are kept)."""
    zs = []
    for a in args:
        if isinstance(a, NoneV):
            continue
        z = text_of(a)
        if z is None:
            raise Unsupported("join_path of " + type(getattr(a, "h", a)).__name__)
        p.axioms += norm_facts(z)
        zs.append(z)

    def build(k, acc):
        if k == len(zs):
            return acc if acc is not None else sv("")
        keep = build(k + 1, norm(zs[k]) if acc is None else z3.Concat(acc, SL, norm(zs[k])))
        return z3.If(z3.Length(zs[k]) > 0, keep, build(k + 1, acc))
    return z3.simplify(build(0, None))


# =================================================================================================================================
#  writer.partition_on_columns
# =================================================================================================================================
class W:
    NC, NCOLS = z3.Int("n_partition_columns"), z3.Int("n_data_columns")
    PCOL = z3.Function("DataColumnOfPartitionColumn", I, I)       # position in `columns` -> data column
    IDX = z3.Function("PositionInPartitionColumns", I, I)         # data column -> position in `columns` or -1
    NAME = z3.Function("NameOfPartitionColumn", I, S)
    KEYVAL = z3.Function("KeyValueOfGroup", I, I, VAL)            # (group, position) -> the group's key value for that column
    EMPTY = z3.Function("GroupIsEmpty", I, B)
    ROOT, PARTNAME = z3.String("root_path"), z3.String("partname")
    g, iS, xS = z3.Int("group"), z3.Int("level_skolem"), z3.Int("data_column_skolem")

    @staticmethod
    def pre():
        return [W.NC >= 1, W.NCOLS >= W.NC, 0 <= W.iS, W.iS < W.NC, 0 <= W.xS, W.xS < W.NCOLS,
                z3.Length(W.PARTNAME) > 0, clean(W.PARTNAME), segment(W.PARTNAME)] + W.idx_facts(W.xS) + W.pcol_facts(W.iS)

    @staticmethod
    def pcol_facts(i):
        return [0 <= W.PCOL(i), W.PCOL(i) < W.NCOLS, W.IDX(W.PCOL(i)) == i]

    @staticmethod
    def idx_facts(x):
        return [W.IDX(x) >= -1, W.IDX(x) < W.NC, z3.Implies(W.IDX(x) >= 0, W.PCOL(W.IDX(x)) == x)]


class ValV:
    """the key value of group g for partition column i"""
    tracked = False

    def __init__(self, v):
        self.v = v

    def isinstance(self, eng, p, tn):
        if tn in ("pd.Timestamp", "pandas.Timestamp", "Timestamp"):
            return KIND(self.v) == K_TS
        if tn == "tuple":
            return z3.BoolVal(False)
        raise Unsupported("isinstance(key value, " + tn + ")")

    def as_text(self, eng, p):
        return STR(self.v)

    def call_method(self, eng, p, name, args, kw, node):
        if name == "isoformat" and not args and not kw:
            eng.oblige(p, "path_string.isoformat_only_on_timestamps", "safety", KIND(self.v) == K_TS, node,
                       note="only pd.Timestamp key values have isoformat() (AttributeError otherwise)")
            return [(p, Custom(TextV(ISO(self.v))))]
        fn = z3.Function("text_of_value." + name, VAL, S)
        return [(p, Custom(TextV(fn(self.v))))]


class NameV(TextV):
    """partition column i (a column label; as a text: its name)"""

    def __init__(self, i):
        TextV.__init__(self, W.NAME(i))
        self.i = i


class ColList:
    """`columns` (partition_on): NC >= 1 distinct column labels of the frame, position i holds column PCOL(i)"""
    tracked = False

    def __init__(self, lo=0, rev=False):
        self.lo, self.rev = lo, rev          # columns[lo:] / reversed(...)

    def n(self):
        return W.NC - self.lo

    def len(self, eng, p):
        return PyI(self.n())

    def truth(self, eng, p):
        return self.n() > 0

    def pos(self, k):
        return (W.NC - 1 - k) if self.rev else (k + self.lo)

    def at(self, eng, p, k):
        return Custom(NameV(z3.simplify(self.pos(k))))

    def getitem(self, eng, p, i, node):
        k = eng.as_int(i)
        eng.oblige(p, "partition_on_columns.columns_index_in_range", "safety", z3.And(0 <= k, k < self.n()), node)
        return self.at(eng, p, k)

    def slice(self, eng, p, lo, hi, node):
        a = _const(eng, lo) if lo is not None else 0
        if hi is not None or a is None or a < 0 or self.rev:
            raise Unsupported("slice of the partition columns")
        return Custom(ColList(self.lo + a))

    def reversed(self):
        if self.lo:
            raise Unsupported("reversed slice")
        return Custom(ColList(0, not self.rev))

    def for_loop(self, eng, p, st):
        """`for column in columns: remaining.remove(column)` on the invariant  removed == {PCOL(k) | k < i}, count == i"""
        lo = self.lo
        if self.rev:
            raise Unsupported("loop over reversed columns")

        def inv(q, i, xs):
            return z3.And(q.ghost["rem:count"] == i - lo, *[z3.Select(q.ghost["rem:arr"], x) == z3.And(lo <= W.IDX(x), W.IDX(x) < i) for x in xs])
        if "rem:arr" not in p.ghost:
            raise Unsupported("loop over the partition columns before list(data)")
        xE = eng.fresh_int("x_entry")
        pe = p.fork()
        pe.pc += [0 <= xE, xE < W.NCOLS] + W.idx_facts(xE)
        eng.oblige(pe, "partition_on_columns.remaining.invariant_on_entry", "inv", inv(pe, z3.IntVal(lo), [xE]), st,
                   note="before the loop nothing is removed from list(data)")
        n_eff = len(effects(p))
        i, xP = eng.fresh_int("i_column"), eng.fresh_int("x_step")
        body = p.fork()
        body.pc += [lo <= i, i < W.NC, 0 <= xP, xP < W.NCOLS] + W.idx_facts(xP) + W.pcol_facts(i)
        body.ghost["rem:arr"] = z3.Array(f"removed_at_i!{next(eng.counter)}", I, B)
        body.ghost["rem:count"] = eng.fresh_int("removed_count_at_i")
        body.pc.append(inv(body, i, [xP, W.PCOL(i)]))
        env0 = dict(body.env)
        outs = []
        for q in eng.assign(st.target, Custom(NameV(i)), body):
            for r in eng.block(st.body, [q]):
                if r.ctl not in (None, "continue"):
                    outs.append(r)
                    continue
                if [e for e in effects(r)[n_eff:] if e[0] != "remove"]:
                    raise Unsupported("the column loop has another effect")
                for k, v in r.env.items():
                    if k not in _names(st.target) and k in env0 and env0[k] is not v:
                        raise Unsupported("the column loop assigns " + k)
                eng.oblige(r, "partition_on_columns.remaining.invariant_preserved", "inv", inv(r, i + 1, [xP]), st,
                           note="after removing columns[i] exactly the first i+1 partition columns are gone (whole list: Skolem column)")
        ex = p.fork()
        ex.ghost["rem:arr"] = z3.Array(f"removed_after!{next(eng.counter)}", I, B)
        ex.ghost["rem:count"] = eng.fresh_int("removed_count_after")
        ex.pc.append(inv(ex, W.NC, [W.xS]))
        effects(ex).append(("columns_loop",))
        for k in _names(st.target):
            ex.env[k] = Opaque(("after_loop", k))
        return outs + [ex]


class RemList:
    """list(data) minus the removed labels (ghost: rem:arr, rem:count).  ASSUMED list.remove(x): removes the first element equal to x,
    ValueError if absent; column labels of a frame written by fastparquet are distinct"""
    tracked = False

    def truth(self, eng, p):
        return W.NCOLS - p.ghost["rem:count"] > 0

    def len(self, eng, p):
        return PyI(W.NCOLS - p.ghost["rem:count"])

    def call_method(self, eng, p, name, args, kw, node):
        if name == "remove" and len(args) == 1 and isinstance(args[0], Custom) and isinstance(args[0].h, NameV):
            x = W.PCOL(args[0].h.i)
            eng.oblige(p, "partition_on_columns.remaining.remove_finds_column", "safety",
                       z3.And(0 <= x, x < W.NCOLS, z3.Not(z3.Select(p.ghost["rem:arr"], x))), node,
                       note="list.remove raises ValueError unless the partition column is (still) among the frame's columns")
            p.ghost["rem:arr"] = z3.Store(p.ghost["rem:arr"], x, True)
            p.ghost["rem:count"] = p.ghost["rem:count"] + 1
            effects(p).append(("remove", x))
            return [(p, NONE)]
        raise Unsupported("remaining." + name)


class DataV:
    """the row-group frame handed to partition_on_columns"""
    tracked = False

    def call_method(self, eng, p, name, args, kw, node):
        if name == "groupby":
            effects(p).append(("groupby", list(args), dict(kw), list(p.pc)))
            by = args[0] if args else kw.get("by")
            # ASSUMED pandas: grouping by a LIST of labels yields tuple keys (one element per label), by one label scalar keys
            if isinstance(by, Custom) and isinstance(by.h, ColList) and by.h.lo == 0 and not by.h.rev:
                p.ghost["groupby_list"] = True
            elif isinstance(by, Custom) and isinstance(by.h, NameV):
                p.ghost["groupby_list"] = False
            else:
                raise Unsupported("groupby by something else than the partition columns")
            return [(p, Custom(GroupByV()))]
        raise Unsupported("data." + name)

    def getitem(self, eng, p, i, node):
        return Custom(SubFrame("data", None, i, p))

    def attr(self, eng, p, name):
        if name == "loc":
            return Custom(LocV(self))
        raise Unsupported("data." + name)


class GroupByV:
    tracked = False

    def attr(self, eng, p, name):
        if name == "groups":
            return Custom(GroupLabelsDict())      # ASSUMED pandas: gb.groups == {key: INDEX LABELS of the rows of that group}
        raise Unsupported("groupby." + name)


class GroupLabelsDict:
    tracked = False

    def call_method(self, eng, p, name, args, kw, node):
        if name == "items" and not args:
            return [(p, Custom(GroupLabelsItems()))]
        raise Unsupported("gb.groups." + name)


class GroupLabelsItems:
    tracked = False


class LabelsV:
    """gb.groups[key]: the index labels of the rows of group g (NOT the rows: several rows may carry the same label)"""
    tracked = False

    def __init__(self, g):
        self.g = g


class LocV:
    tracked = False

    def __init__(self, frame):
        self.frame = frame

    def getitem(self, eng, p, i, node):
        if isinstance(i, Custom) and isinstance(i.h, LabelsV):
            return Custom(LabelFrame(i.h.g))
        raise Unsupported("data.loc[...] with another selector")


class LabelFrame:
    """data.loc[<index labels of group g>]: EVERY row of the frame whose index label is one of those labels (ASSUMED pandas .loc with a
    list of labels; a row is returned once per occurrence of its label in the list) - the rows of group g only when labels are unique"""
    tracked = False

    def __init__(self, g):
        self.g = g

    def attr(self, eng, p, name):
        if name == "empty":
            return PyB(W.EMPTY(self.g))          # no labels <=> no rows in the group
        raise Unsupported("frame." + name)

    def getitem(self, eng, p, i, node):
        return Custom(SubFrame("rows selected by the group's index labels", self.g, i, p))


class GroupsV:
    """sorted(gb): every (key, group) pair exactly once (ASSUMED pandas groupby, see ASSUMED); by_labels: sorted(gb.groups.items()):
    every (key, index labels of the group) pair once"""
    tracked = False

    def __init__(self, by_labels=False):
        self.by_labels = by_labels

    def for_loop(self, eng, p, st):
        n0 = len(effects(p))
        body = p.fork()
        # havoc: every local the body assigns, the accumulated list's earlier content is arbitrary (it is only appended to)
        for k in _stored(st.body) | _names(st.target):
            body.env[k] = Opaque(("havoc", k))
        body.ghost["in_group_loop"] = n0
        outs = []
        key = Custom(KeyV(W.g)) if p.ghost["groupby_list"] else KeyV(W.g).scalar()
        for q in eng.assign(st.target, Tup([key, Custom(LabelsV(W.g) if self.by_labels else GroupFrame(W.g))]), body):
            for r in eng.block(st.body, [q]):
                r.ghost["iteration"] = (n0, r.ctl)
                if r.ctl in (None, "continue"):
                    r.ctl = None
                outs.append(r)
        ex = p.fork()
        effects(ex).append(("group_loop",))
        for k in _stored(st.body) | _names(st.target):
            ex.env[k] = Opaque(("after_loop", k))
        done = [r for r in outs if r.ctl is None]
        for r in done:
            r.ctl = ("iteration_done", None)
        return outs + [ex]


class KeyV:
    """the group key as pandas hands it out: a scalar for one grouping label, a tuple (one element per label, in label order) for a
    list of labels (ASSUMED)"""
    tracked = False

    def __init__(self, g):
        self.g = g

    def isinstance(self, eng, p, tn):
        if tn == "tuple":
            return z3.BoolVal(True)
        raise Unsupported("isinstance(key, " + tn + ")")

    def len(self, eng, p):
        return PyI(W.NC)

    def arbitrary(self, eng, p):
        p.pc.append(W.iS < W.NC)
        p.ghost["zip_lens"] = (W.NC, W.NC)
        return self.at(eng, p, W.iS)

    def nonempty(self, eng, p):
        return z3.BoolVal(True)

    def at(self, eng, p, k):
        return Custom(ValV(W.KEYVAL(self.g, k)))

    def scalar(self):
        return Custom(ValV(W.KEYVAL(self.g, z3.IntVal(0))))


class GroupFrame:
    tracked = False

    def __init__(self, g):
        self.g = g

    def attr(self, eng, p, name):
        if name == "empty":
            return PyB(W.EMPTY(self.g))
        raise Unsupported("group." + name)

    def getitem(self, eng, p, i, node):
        return Custom(SubFrame("group", self.g, i, p))


class SubFrame:
    """frame[selector]: rows of `origin`, columns = selector"""
    tracked = False

    def __init__(self, origin, g, sel, p):
        self.origin, self.g, self.sel = origin, g, sel
        self.rem = p.ghost.get("rem:arr") if isinstance(sel, Custom) and isinstance(sel.h, RemList) else None


class ZipV:
    """zip(a, b) of two positional collections: pairs (a[i], b[i]) for i < min(len)  (ASSUMED)"""
    tracked = False

    def __init__(self, a, b):
        self.a, self.b = a, b

    def arbitrary(self, eng, p):
        i = W.iS
        la, lb = self.length(eng, p, self.a), self.length(eng, p, self.b)
        p.pc += [i < la, i < lb]
        p.ghost["zip_lens"] = (la, lb)
        return Tup([self.item(eng, p, self.a, i), self.item(eng, p, self.b, i)])

    def length(self, eng, p, v):
        if isinstance(v, Tup):
            return z3.IntVal(len(v.items))
        return eng.as_int(v.h.len(eng, p))

    def item(self, eng, p, v, i):
        if isinstance(v, Tup):
            if len(v.items) != 1:
                raise Unsupported("zip over a longer concrete tuple")
            p.pc.append(i == 0)
            return v.items[0]
        return v.h.at(eng, p, i)

    def nonempty(self, eng, p):
        return z3.BoolVal(True)

    def len(self, eng, p):
        la, lb = self.length(eng, p, self.a), self.length(eng, p, self.b)
        return PyI(z3.If(la <= lb, la, lb))


class DirV(TextV):
    """join_path(*<one text per partition column>): the relative directory of the group; component iS is `lvl` (kept iff `guard`),
    there are min(la, lb) of them"""

    def __init__(self, z, lvl, guard, la, lb):
        TextV.__init__(self, z)
        self.lvl, self.guard, self.la, self.lb = lvl, guard, la, lb


DIRTEXT = z3.Function("DirectoryTextOfGroup", I, S)


class RgOut:
    tracked = False

    def __init__(self, g, file, frame):
        self.g, self.file, self.frame = g, file, frame

    def attr(self, eng, p, name):
        if name == "columns":
            return Custom(ChunkList(self))
        raise Unsupported("rg." + name)


class ChunkList:
    tracked = False

    def __init__(self, rg):
        self.rg = rg

    def for_loop(self, eng, p, st):
        n0 = len(effects(p))
        env0 = dict(p.env)
        outs = []
        for q in eng.assign(st.target, Custom(ChunkV(self.rg)), p):
            for r in eng.block(st.body, [q]):
                if r.ctl not in (None, "continue"):
                    raise Unsupported("chunk loop leaves early")
                r.ctl = None
                ef = effects(r)
                for k in range(n0, len(ef)):
                    if ef[k][0] != "set_file_path":
                        ef[k] = ("per_chunk:" + ef[k][0],) + tuple(ef[k][1:])      # happens once per column chunk
                for k, v in r.env.items():
                    if k not in _names(st.target) and env0.get(k) is not v:
                        raise Unsupported("chunk loop assigns " + k)
                outs.append(r)
        return outs


class ChunkV:
    tracked = False

    def __init__(self, rg):
        self.rg = rg

    def setattr(self, eng, p, name, v):
        if name != "file_path":
            raise Unsupported("store to chunk." + name)
        effects(p).append(("set_file_path", self.rg, v))

    def attr(self, eng, p, name):
        raise Unsupported("chunk." + name)


class ListV:
    """a list created empty by the function: only append is allowed; the appends are effects"""
    tracked = False

    def __init__(self, lid):
        self.lid = lid

    def call_method(self, eng, p, name, args, kw, node):
        if name == "append" and len(args) == 1:
            effects(p).append(("append", self.lid, args[0]))
            return [(p, NONE)]
        raise Unsupported("list." + name)


class FileV:
    tracked = False

    def __init__(self, name, mode):
        self.name, self.mode = name, mode


class WEng(Eng):
    def e_List(self, e, p):
        if not e.elts:
            lid = f"list@L{e.lineno}"
            effects(p).append(("new_list", lid))
            return [(p, Custom(ListV(lid)))]
        return super().e_List(e, p)


def run_partition_on_columns(ctx, funcs, timeout, hive):
    res = Results()
    tag = "[hive]" if hive else "[drill]"
    P = "partition_on_columns" + tag + "."

    def h_list(eng, p, args, kw, node):
        if args and isinstance(args[0], Custom) and isinstance(args[0].h, DataV):
            p.ghost["rem:arr"] = z3.K(I, z3.BoolVal(False))
            p.ghost["rem:count"] = z3.IntVal(0)
            effects(p).append(("list(data)",))
            return [(p, Custom(RemList()))]
        raise Unsupported("list() of " + type(getattr(args[0], "h", args[0])).__name__ if args else "list()")

    def h_sorted(eng, p, args, kw, node):
        if len(args) == 1 and not kw and isinstance(args[0], Custom) and isinstance(args[0].h, GroupByV):
            return [(p, Custom(GroupsV()))]
        if len(args) == 1 and not kw and isinstance(args[0], Custom) and isinstance(args[0].h, GroupLabelsItems):
            return [(p, Custom(GroupsV(by_labels=True)))]
        raise Unsupported("sorted")

    def h_reversed(eng, p, args, kw, node):
        if len(args) == 1 and isinstance(args[0], Custom) and isinstance(args[0].h, ColList):
            return [(p, args[0].h.reversed())]
        raise Unsupported("reversed of " + type(getattr(args[0], "h", args[0])).__name__)

    def h_zip(eng, p, args, kw, node):
        if len(args) == 2:
            return [(p, Custom(ZipV(args[0], args[1])))]
        raise Unsupported("zip")

    def h_strmod(eng, p, a, b, node):
        """ASSUMED: '%s' % x == str(x); the literal parts of the format are copied"""
        items = b.items if isinstance(b, Tup) else [b]
        parts = a.s.split("%s")
        if len(parts) != len(items) + 1 or "%" in "".join(parts):
            return None
        zs = []
        for k, x in enumerate(items):
            if parts[k]:
                zs.append(sv(parts[k]))
            z = text_of(x)
            if z is None and isinstance(x, Custom) and hasattr(x.h, "as_text"):
                z = x.h.as_text(eng, p)
            if z is None:
                return None
            zs.append(z)
        if parts[-1]:
            zs.append(sv(parts[-1]))
        return Custom(TextV(z3.Concat(*zs) if len(zs) > 1 else zs[0]))

    def h_join_path(eng, p, args, kw, node):
        if len(args) == 1 and isinstance(args[0], Custom) and isinstance(args[0].h, StarArgs):
            comp = args[0].h.v
            if isinstance(comp, Tup) and len(comp.items) == 1 and text_of(comp.items[0]) is not None:
                # one partition column, the key wrapped into a 1-tuple by the code itself
                p.pc.append(W.iS == 0)
                return [(p, Custom(DirV(join_term(eng, p, comp.items), text_of(comp.items[0]), z3.BoolVal(True), z3.IntVal(1), z3.IntVal(1))))]
            if not (isinstance(comp, Custom) and isinstance(comp.h, AbstractComp) and isinstance(comp.h.coll, Custom)
                    and isinstance(comp.h.coll.h, (ZipV, KeyV)) and text_of(comp.h.elt) is not None and "zip_lens" in p.ghost):
                raise Unsupported("join_path(*<not one text per (partition column, key element)>)")
            la, lb = p.ghost["zip_lens"]
            return [(p, Custom(DirV(DIRTEXT(W.g), text_of(comp.h.elt), comp.h.guard, la, lb)))]
        if any(isinstance(a, Custom) and isinstance(a.h, StarArgs) for a in args):
            raise Unsupported("join_path(x, *xs)")
        return [(p, Custom(TextV(join_term(eng, p, args))))]

    def h_mkdirs(eng, p, args, kw, node):
        effects(p).append(("mkdirs", args[1] if len(args) > 1 else None))
        return [(p, NONE)]

    def h_open_with(eng, p, args, kw, node):
        mode = args[2] if len(args) > 2 else kw.get("mode")
        f = FileV(args[1] if len(args) > 1 else None, mode.s if isinstance(mode, Str) else None)
        effects(p).append(("open", f))
        return [(p, Custom(f))]

    def h_make_part_file(eng, p, args, kw, node):
        f, df = args[0], args[1]
        rg = RgOut(W.g, f, df)
        effects(p).append(("make_part_file", f, df, rg, dict(kw), args[2:]))
        # contract of make_part_file (writer.py): None iff the frame has no rows
        return [(p, Opt(z3.Bool("make_part_file_returns_None"), Custom(rg)))]

    handlers = {"list": h_list, "sorted": h_sorted, "zip": h_zip, "reversed": h_reversed, "str%": h_strmod, "join_path": h_join_path, "var:mkdirs": h_mkdirs,
                "var:open_with": h_open_with, "make_part_file": h_make_part_file, "str": h_str, "with_exit": lambda e, q, st: [q]}
    eng = WEng(funcs=funcs, handlers=handlers, inline=("path_string",), opaque_calls=True)
    p = Path()
    p.pc += W.pre()
    if solve(list(p.pc) + [W.NC > 1, W.NCOLS > W.NC, clean(W.ROOT), z3.Length(W.ROOT) > 0], timeout)[0] == REFUTED:
        ctx.vacuity["requires_sat"] += 1
    else:
        ctx.engine_error("partition_on_columns: precondition unsatisfiable")
    data, cols = DataV(), ColList()
    outs = eng.run("partition_on_columns", p, [Custom(data), Custom(cols), Custom(TextV(W.ROOT)), Custom(TextV(W.PARTNAME)), Opaque("fmd"),
                                              Opaque("compression"), Opaque("func:open_with"), Opaque("func:mkdirs")],
                   {"with_field": PyB(hive), "stats": Opaque("stats")})
    discharge_engine(eng, res, P, timeout, (W.NC, W.NCOLS, W.iS, W.xS))
    iters = [q for q in outs if isinstance(q.ctl, tuple) and q.ctl[0] == "iteration_done"]
    rets = [q for q in outs if isinstance(q.ctl, tuple) and q.ctl[0] == "ret"]
    raises = [q for q in outs if isinstance(q.ctl, tuple) and q.ctl[0] == "raise"]
    other = [q for q in outs if q not in iters and q not in rets and q not in raises]
    if other or not iters or not rets:
        res.add(P + "out_of_reach", UNKNOWN, None, 0.0, "engine", f"unexpected path shapes: {[q.ctl for q in other][:3]}, iterations={len(iters)}, returns={len(rets)}")
        return res

    # ---- before the loop: grouping + the remaining columns --------------------------------------------------------------------
    for q in rets + iters:
        gb = [e for e in effects(q) if e[0] == "groupby"]
        ok = len(gb) == 1
        if ok:
            _, a, kw, pc = gb[0]
            by = a[0] if a else kw.get("by")
            many = solve(pc + [W.NC <= 1], timeout)[0] == PROVED        # this path groups by the list
            one = solve(pc + [W.NC > 1], timeout)[0] == PROVED
            if many:
                ok = isinstance(by, Custom) and isinstance(by.h, ColList) and by.h.lo == 0 and not by.h.rev
            elif one:
                ok = isinstance(by, Custom) and isinstance(by.h, NameV) and z3.simplify(by.h.i).eq(z3.IntVal(0))
            else:
                ok = False
            ob = kw.get("observed")
            dn = kw.get("dropna")
            extra = {k for k in kw if k not in ("observed", "dropna", "by", "sort")}
            srt = kw.get("sort")
            ok = ok and not extra and (srt is None or (isinstance(srt, PyB) and z3.is_true(z3.simplify(srt.z))))
            trace(res, P + "groupby_drops_null_keys", dn is None or (isinstance(dn, PyB) and z3.is_true(z3.simplify(dn.z))),
                  "groupby is called with dropna at its default (True): a row with a null in any partition key is in no group "
                  "(ASSUMED pandas contract); the property speaks about rows with non-null keys only")
        trace(res, P + "groups_by_the_partition_columns_in_order", ok,
              "the frame is grouped by `columns` itself (the ordered list) when there are several, by columns[0] when there is one: "
              "key element i belongs to partition column i", {"groupby": str([type(getattr(x, 'h', x)).__name__ for x in (gb[0][1] if gb else [])])})
    for q in raises:
        ok = not [e for e in effects(q) if e[0] in ("mkdirs", "open", "make_part_file", "append", "set_file_path")]
        trace(res, P + "raise_before_any_effect", ok, "a rejected call (every column is a partition column) has written nothing")
        pose(res, timeout, P + "raises_only_when_no_data_column_left", q, [], W.NCOLS == W.NC,
             "ValueError exactly when the partition columns are all the columns", (W.NC, W.NCOLS))
    for q in iters + rets:
        pose(res, timeout, P + "all_partition_columns_raises", q, [], W.NCOLS > W.NC, "no call with nothing left to store gets past the check",
             (W.NC, W.NCOLS))

    # ---- the arbitrary group ---------------------------------------------------------------------------------------------------
    must_fail = 0
    for q in iters:
        n0, _ = q.ghost["iteration"]
        ef = effects(q)[n0:]
        kinds = [e[0] for e in ef]
        empty = solve(list(q.pc) + [z3.Not(W.EMPTY(W.g))], timeout)[0] == PROVED
        if empty:
            trace(res, P + "empty_group_writes_nothing", not ef, "an empty group (unobserved category combination) creates no directory, no file, no row group",
                  {"effects": str(kinds)})
            continue
        pose(res, timeout, P + "non_empty_group_is_written", q, [], z3.Not(W.EMPTY(W.g)), "only empty groups are skipped")
        shape = [k for k in kinds if k.split(":")[-1] in ("mkdirs", "open", "make_part_file")] == ["mkdirs", "open", "make_part_file"]
        trace(res, P + "one_file_per_group", shape, "per non-empty group: mkdirs once, then exactly one file opened, one make_part_file into it",
              {"effects": str(kinds)})
        if not shape:
            continue
        mk = ef[kinds.index("mkdirs")]
        op = ef[kinds.index("open")][1]
        mp = ef[kinds.index("make_part_file")]
        trace(res, P + "file_opened_for_writing_wb", op.mode == "wb", "the part file is opened 'wb' (created / truncated, never appended to)", {"mode": op.mode})
        # who is the directory? the local `path` after the iteration
        loc = q.ghost.get("locals:partition_on_columns", {})
        dirv = loc.get("path")
        d = dirv.h if isinstance(dirv, Custom) and isinstance(dirv.h, DirV) else None
        if d is None:
            res.add(P + "out_of_reach", UNKNOWN, None, 0.0, "engine", "the group's directory is not join_path(*<one text per partition column>)")
            continue
        la, lb = d.la, d.lb
        cs = list(q.pc) + list(q.axioms)
        pose(res, timeout, P + "one_level_per_partition_column", q, [], z3.And(z3.If(la <= lb, la, lb) == W.NC, z3.simplify(d.guard)),
             "the directory has one component per partition column: the comprehension is unfiltered and ranges over zip(columns, key) "
             "with len(key) == len(columns)", (W.NC,))
        lvl = d.lvl
        name, val = W.NAME(W.iS), W.KEYVAL(W.g, W.iS)
        # ORACLE (property): the directory of a row is named by its key values: level i == name_i=text (hive) / text (drill) where
        # `text` NAMES the value (parsing it by the value's kind gives the value back).  ASSUMED about Python/pandas: str(v) names v,
        # and isoformat() names a Timestamp.  The existential `text` is discharged by these two candidate witnesses.
        names_facts = [NAMES_VALUE(STR(val), val), z3.Implies(KIND(val) == K_TS, NAMES_VALUE(ISO(val), val))]

        def spec(w):
            return z3.Concat(name, EQ, w) if hive else w
        wit = z3.Or(*[z3.And(lvl == spec(w), NAMES_VALUE(w, val)) for w in (STR(val), ISO(val))])
        mt = (W.iS, lvl, name, STR(val), ISO(val), KIND(val))
        pose(res, timeout, P + "level_text_is_name_and_value_text_of_same_column", q, names_facts, wit,
             "component i of the directory is built from partition column i's NAME and the text of the group's key value FOR THAT "
             "COLUMN (" + ("'name=text'" if hive else "'text'") + "), the text naming the value (str(v); isoformat for timestamps)", mt)
        if solve(cs + names_facts + [z3.Not(lvl == name)], timeout)[0] == REFUTED:
            must_fail += 1
        w = next((w for w in (STR(val), ISO(val)) if solve(cs + [lvl != spec(w)], timeout)[0] == PROVED), None)
        if w is None:
            continue                      # (reported by the obligation above)
        # the level as it ends up in the path: normalised by join_path (cut: join_path.component_is_normalised_text)
        L = spec(w)
        mt = (W.iS, name, w)
        no_bs = [z3.Not(z3.Contains(name, BS)), z3.Not(z3.Contains(w, BS))]
        legal = [segment(w)] + ([segment(name), z3.Not(z3.Contains(name, EQ))] if hive else [])
        verb = z3.And(norm(L) == L, z3.Length(norm(L)) > 0, z3.Not(z3.Contains(norm(L), SL)))
        pose_s(res, timeout, P + "level_reaches_the_path_verbatim[names and texts without backslash]", legal + no_bs, verb,
               "for column names / value texts that are legal directory names (non-empty, no '/', not '.' / '..') without backslash, join_path "
               "keeps the level unchanged, keeps it (non-empty) and it stays ONE directory level", mt)
        pose_s(res, timeout, P + "level_reaches_the_path_verbatim[any legal directory name]", legal, verb,
               "the same for ANY legal single directory name - REFUTED inside the region of " + FID_BACKSLASH + " (a backslash in the text)", mt)
        dots = z3.And(norm(L) != sv(".."), norm(L) != sv("."))
        if hive:
            pose_s(res, timeout, P + "level_is_not_a_dot_segment[any value text]", [], dots, "hive: a level contains '=' and can never be '.' or '..'", mt)
        else:
            pose_s(res, timeout, P + "level_is_not_a_dot_segment[value texts that are legal directory names]", legal + no_bs, dots,
                   "the file stays under the dataset root", mt)
            pose_s(res, timeout, P + "level_is_not_a_dot_segment[any value text]", [], dots,
                   "drill: NO value text may turn into the directory '..' or '.' (the file would be written outside / at the dataset root)", mt)
        # ---- paths: relname / mkdirs / fullname, in terms of the directory text D and the components ---------------------------
        D = d.z
        Dv, Rv, Pv = Custom(TextV(D)), Custom(TextV(W.ROOT)), Custom(TextV(W.PARTNAME))
        rel_spec = join_term(eng, q, [Dv, Pv])
        full_spec = join_term(eng, q, [Rv, Dv, Pv])
        mkdir_spec = join_term(eng, q, [Rv, Dv])
        opened = text_of(op.name) if op.name is not None else None
        mkd = text_of(mk[1]) if mk[1] is not None else None
        mt2 = (W.ROOT, D, W.PARTNAME)
        if opened is None or mkd is None:
            res.add(P + "out_of_reach", UNKNOWN, None, 0.0, "engine", "file / directory name is not a text")
            continue
        # CUT (join_path.no_backslash_in_result_component / trailing_separator_dropped / equals_sign_survives): the joined directory has no
        # backslash; it is non-empty and does not end with '/' when every level is non-empty after normalisation - hive: every level
        # contains '=' (checked: structurally); drill: for value texts that are legal directory names without backslash (hypothesis)
        if hive:
            ok = solve(cs + [z3.Not(z3.Contains(lvl, EQ))], timeout)[0] == PROVED
            trace(res, P + "every_level_contains_equals", ok, "each component is 'name=...': never dropped as empty by join_path")
            if not ok:
                continue
        dfacts = [clean(D), z3.Length(D) > 0]
        dtag = "" if hive else "[value texts that are legal directory names]"
        # the case split over which components join_path keeps is done here (root may be ''), the solver sees plain concatenations
        for root_kept in (True, False):
            case = [(z3.Length(W.ROOT) > 0, z3.BoolVal(root_kept)), (z3.Length(D) > 0, z3.BoolVal(True)), (z3.Length(W.PARTNAME) > 0, z3.BoolVal(True))]
            ch = dfacts + [z3.Length(W.ROOT) > 0 if root_kept else z3.Length(W.ROOT) == 0]
            ctag = dtag + ("" if root_kept else "[root_path == '']")

            def u(t):
                return z3.simplify(z3.substitute(t, *case))
            pose_s(res, timeout, P + "file_is_root_dir_partname" + ctag, cs + ch, u(opened) == u(full_spec),
                   "the file opened is join_path(root_path, <directory of the group>, partname)", mt2)
            pose_s(res, timeout, P + "directory_created_is_root_dir" + ctag, cs + ch, u(mkd) == u(mkdir_spec),
                   "mkdirs gets join_path(root_path, <directory of the group>) - before the file is opened", mt2)
            if root_kept:
                pose_s(res, timeout, P + "file_is_inside_the_created_directory" + ctag, cs + ch + [z3.Length(norm(W.ROOT)) > 0],
                       u(opened) == z3.Concat(u(mkd), SL, W.PARTNAME), "file name == created directory + '/' + partname", mt2)
            q.ghost["case:" + str(root_kept)] = (case, ch, ctag)
        # make_part_file(f2, group[remaining])
        f_ok = isinstance(mp[1], Custom) and mp[1].h is op
        trace(res, P + "part_written_into_the_opened_file", f_ok, "make_part_file writes into the file object just opened for this group")
        fr = mp[2].h if isinstance(mp[2], Custom) and isinstance(mp[2].h, SubFrame) else None
        rows_detail = "the frame written holds the rows of THIS group: all of them, each once, nothing of another group or of the whole row group"
        if fr is not None and fr.origin == "rows selected by the group's index labels" and fr.g is not None:
            # a frame selected BY INDEX LABEL: row r is in it iff some row of the group carries r's label (ASSUMED .loc); nothing says the
            # labels of the frame handed to partition_on_columns are unique
            RW = z3.DeclareSort("Row")
            r, rw = z3.Const("row_skolem", RW), z3.Const("row_with_the_same_label", RW)
            INGROUP = z3.Function("RowIsInGroup", RW, I, B)
            LABEL = z3.Function("IndexLabelOfRow", RW, I)
            SELECTED = z3.Function("RowIsSelectedByTheLabelsOfGroup", RW, I, B)
            sk = z3.Function("SomeRowOfGroupWithThatLabel", RW, I, RW)
            g_ = fr.g
            loc_facts = [z3.Implies(z3.And(INGROUP(x, g_), LABEL(x) == LABEL(r)), SELECTED(r, g_)) for x in (r, rw)]
            loc_facts += [z3.Implies(SELECTED(r, g_), z3.And(INGROUP(sk(r, g_), g_), LABEL(sk(r, g_)) == LABEL(r)))]
            goal = SELECTED(r, g_) == INGROUP(r, W.g)
            st_, m_, secs_ = solve(list(q.pc) + loc_facts + [z3.Not(goal)], timeout)
            res.add(P + "file_holds_exactly_the_rows_of_this_group", st_,
                    {"frame": "data.loc[<index labels of the group>]", "a row NOT in the group is selected": mval(m_, z3.And(SELECTED(r, g_), z3.Not(INGROUP(r, W.g)))),
                     "because ANOTHER row, which is in the group, has the same index label": mval(m_, z3.And(INGROUP(sk(r, g_), g_), LABEL(sk(r, g_)) == LABEL(r),
                                                                                                           sk(r, g_) != r))} if m_ is not None else None,
                    secs_, "z3", rows_detail + " - posed at a Skolem row; for a label-selected frame this needs unique index labels, which no "
                    "precondition of partition_on_columns provides")
            uniq = [z3.Implies(LABEL(x) == LABEL(y), x == y) for x in (r, rw, sk(r, g_)) for y in (r, rw, sk(r, g_))]
            st_, m_, secs_ = solve(list(q.pc) + loc_facts + uniq + [g_ == W.g, z3.Not(goal)], timeout)
            res.add(P + "file_holds_exactly_the_rows_of_this_group[unique index labels]", st_, None, secs_, "z3", rows_detail + " (sibling: with unique labels)")
            rows_ok = True
        else:
            rows_ok = fr is not None and fr.origin == "group" and fr.g is not None and z3.simplify(fr.g).eq(W.g)
            trace(res, P + "file_holds_exactly_the_rows_of_this_group", rows_ok, rows_detail + " (the sub-frame pandas' groupby yields for this key)",
                  {"frame": (fr.origin if fr else type(getattr(mp[2], 'h', mp[2])).__name__)})
        if fr is not None and fr.rem is not None:
            pose(res, timeout, P + "file_columns_are_the_non_partition_columns", q, [], z3.Select(fr.rem, W.xS) == (W.IDX(W.xS) >= 0),
                 "the columns written are the frame's columns minus exactly the partition columns (whole list: posed at a Skolem column)", (W.xS, W.IDX(W.xS)))
        else:
            trace(res, P + "file_columns_are_the_non_partition_columns", False, "the column selector is list(data) minus the partition columns", {})
        # metadata: every chunk of the returned row group gets file_path = relname; appended once iff not None
        sets = [e for e in ef if e[0] == "set_file_path"]
        apps = [e for e in ef if e[0].endswith("append")]
        isnone = solve(list(q.pc) + [z3.Not(z3.Bool("make_part_file_returns_None"))], timeout)[0] == PROVED
        rg = mp[3]
        if isnone:
            trace(res, P + "no_row_group_recorded_when_nothing_was_written", not sets and not apps,
                  "make_part_file returned None (no rows): nothing is appended", {"effects": str(kinds)})
            continue
        app = apps[0][2] if apps else None
        app = app.val if isinstance(app, Opt) else app
        ok = len(apps) == 1 and apps[0][0] == "append" and isinstance(app, Custom) and app.h is rg and kinds[-1] == "append"
        trace(res, P + "row_group_recorded_exactly_once", ok,
              "the row group returned by make_part_file for this group is appended exactly once to the list that is returned, after its "
              "chunks got their file_path", {"effects": str(kinds)})
        ok = len(sets) == 1 and sets[0][1] is rg
        trace(res, P + "every_chunk_gets_the_file_path", ok, "file_path is stored on every column chunk of this row group (loop over rg.columns)",
              {"effects": str(kinds)})
        if ok:
            fp = text_of(sets[0][2])
            if fp is None:
                trace(res, P + "metadata_path_is_dir_partname", False, "chunk.file_path is a text", {})
            else:
                for root_kept in (True, False):
                    case, ch, ctag = q.ghost["case:" + str(root_kept)]

                    def u(t):
                        return z3.simplify(z3.substitute(t, *case))
                    if root_kept:
                        pose_s(res, timeout, P + "metadata_path_is_dir_partname" + ctag, cs + ch, u(fp) == u(rel_spec),
                               "chunk.file_path == join_path(<directory of the group>, partname): relative to the dataset root", mt2)
                    # the reader opens join_path(basepath, file_path) (api.row_group_filename): that must be the file written
                    fpu = u(fp)
                    reader = z3.Concat(norm(W.ROOT), SL, norm(fpu)) if root_kept else norm(fpu)
                    pose_s(res, timeout, P + "reader_finds_the_file_written" + ctag, cs + ch + [z3.Length(fpu) > 0], reader == u(opened),
                           "join_path(root, chunk.file_path) - what api.row_group_filename opens - is exactly the file this group was written to",
                           mt2)
    for q in rets:
        v = q.ctl[1]
        news = [e for e in effects(q) if e[0] == "new_list"]
        ok = isinstance(v, Custom) and isinstance(v.h, ListV) and any(e[1] == v.h.lid for e in news)
        later = [e for e in effects(q) if e[0] == "append"]
        trace(res, P + "returns_the_accumulated_row_groups", ok and not later,
              "the list returned is the one the loop appends to, created empty, not touched outside the loop", {"returned": type(getattr(v, 'h', v)).__name__})
    if must_fail:
        ctx.vacuity["must_fail_sat"] += 1
    else:
        ctx.engine_error("partition_on_columns vacuity: 'level == bare column name' is not refutable")
    ctx.vacuity["covers"] += len(iters)
    return res


# =================================================================================================================================
#  util.path_string / val_from_meta / val_to_num / _val_to_num : value-kind lemmas
# =================================================================================================================================
BOOLOF = z3.Function("bool_of_value", VAL, B)
BOOLVAL = z3.Function("value_of_bool", B, VAL)
INTOF = z3.Function("int_of_value", VAL, I)
INTVAL = z3.Function("value_of_int", I, VAL)
NPTYPE = z3.Function("numpy_scalar_type_applied_to_text", S, S, VAL)       # np.dtype(name).type(text)
NP_OK = z3.Function("numpy_scalar_type_accepts_text", S, S, B)
INT_OK, FLOAT_OK, TS_OK, TD_OK = (z3.Function(n, S, B) for n in ("int_accepts_text", "float_accepts_text", "pd_Timestamp_accepts_text",
                                                                 "pd_Timedelta_accepts_text"))
PARSE_INT = z3.Function("int_of_text", S, I)
PARSE_FLOAT, PARSE_TS, PARSE_TD, TO_DT = (z3.Function(n, S, VAL) for n in ("float_of_text", "pd_Timestamp_of_text", "pd_Timedelta_of_text",
                                                                        "pd_to_datetime_PATH_DATE_FMT"))
K_TSTZ, K_CATINT = 6, 7
# ASSUMED (validated natively by tools/c08native.py): the partition_columns block util.get_column_metadata writes for a column of the kind
META = {K_INT: ("int64", "int64"), K_FLOAT: ("float64", "float64"), K_BOOL: ("bool", "bool"), K_TS: ("datetime", "datetime64[ns]"),
        K_TEXT: ("unicode", "str"), "text(object)": ("unicode", "object"), K_TSTZ: ("datetimetz", "datetime64[us, UTC]"),
        K_CATINT: ("categorical", "int8")}
NUMPY_NAMES_OK = {"int64", "float64", "bool", "datetime64[ns]", "str", "object", "int8"}     # np.dtype(name) exists (else TypeError)
SPECIAL = ["now", "NOW", "TODAY", "", "True", "False", "nan"]


def value_facts(v, k):
    """ASSUMED facts about Python / numpy / pandas text conversions of a NON-NULL value v of kind k (see ASSUMED)"""
    s = STR(v)
    if k == K_INT:
        return [v == INTVAL(INTOF(v)), INT_OK(s), PARSE_INT(s) == INTOF(v), NP_OK(sv("int64"), s), NPTYPE(sv("int64"), s) == v,
                LOWER(s) != sv("nan")] + [s != sv(x) for x in SPECIAL]
    if k == K_FLOAT:
        return [z3.Not(INT_OK(s)), FLOAT_OK(s), PARSE_FLOAT(s) == v, NP_OK(sv("float64"), s), NPTYPE(sv("float64"), s) == v,
                LOWER(s) != sv("nan")] + [s != sv(x) for x in SPECIAL]
    if k == K_BOOL:
        return [v == BOOLVAL(BOOLOF(v)), s == z3.If(BOOLOF(v), sv("True"), sv("False")), LOWER(s) != sv("nan")]
    if k in (K_TS, K_TSTZ):
        out = []
        for t in (ISO(v), s):       # both spellings are accepted by the parsers
            out += [z3.Not(INT_OK(t)), z3.Not(FLOAT_OK(t)), TS_OK(t), PARSE_TS(t) == v, NP_OK(sv("datetime64[ns]"), t),
                    NPTYPE(sv("datetime64[ns]"), t) == v, LOWER(t) != sv("nan")] + [t != sv(x) for x in SPECIAL]
        return out
    if k == K_TEXT:
        return [v == TEXTVAL(s)]
    if k == K_CATINT:
        return [v == INTVAL(INTOF(v)), INT_OK(s), PARSE_INT(s) == INTOF(v)]
    return []


def kind_axioms(terms):
    """values of different kinds are different values; instantiated for the terms at hand"""
    out = []
    for t in terms:
        if z3.is_app(t):
            n = t.decl().name()
            k = {"value_of_int": K_INT, "value_of_bool": K_BOOL, "value_of_text_key": K_TEXT, "pd_to_datetime_PATH_DATE_FMT": K_TS,
                 "pd_Timestamp_of_text": K_TS, "float_of_text": K_FLOAT, "pd_Timedelta_of_text": 8}.get(n)
            if k is not None:
                out.append(KIND(t) == k)
            if n == "value_of_text_key":
                out.append(STR(t) == t.arg(0))
    return out


class MetaV:
    tracked = False

    def __init__(self, pandas_type, numpy_type):
        self.d = {"pandas_type": pandas_type, "numpy_type": numpy_type}

    def truth(self, eng, p):
        return z3.BoolVal(True)

    def getitem(self, eng, p, i, node):
        if isinstance(i, Str) and i.s in self.d:
            return Custom(TextV(sv(self.d[i.s])))
        raise Unsupported("metadata key")


class DTypeV:
    tracked = False

    def __init__(self, z):
        self.z = z

    def eq(self, eng, p, other):
        z = text_of(other)
        if z is None:
            raise Unsupported("dtype compared with a non-text")
        return self.z == z           # ASSUMED: np.dtype(name) == 'bool' iff the name is 'bool' (for the names of the metadata table)

    def attr(self, eng, p, name):
        if name == "type":
            return Custom(self)
        raise Unsupported("dtype." + name)

    def call_method(self, eng, p, name, args, kw, node):
        if name != "type" or len(args) != 1 or text_of(args[0]) is None:
            raise Unsupported("dtype." + name)
        x = text_of(args[0])
        # ASSUMED numpy: np.str_(x) == x, np.object_(x) is x (never raise); the scalar types produce values of their own kind
        p.pc += [z3.Implies(z3.Or(self.z == sv("str"), self.z == sv("object")), z3.And(NP_OK(self.z, x), NPTYPE(self.z, x) == TEXTVAL(x)))]
        p.pc += [z3.Implies(self.z == sv(n), KIND(NPTYPE(self.z, x)) == k) for n, k in (("int64", K_INT), ("int8", K_INT), ("float64", K_FLOAT),
                                                                                       ("datetime64[ns]", K_TS))]
        ok, bad = p.fork(NP_OK(self.z, x)), p.fork(z3.Not(NP_OK(self.z, x)))
        out = []
        if eng.feasible(ok):
            out.append((ok, Custom(ResV(NPTYPE(self.z, x)))))
        if eng.feasible(bad):
            out += raised(bad, "ValueError")
        return out


class ResV:
    """a parsed value"""
    tracked = False

    def __init__(self, v):
        self.v = v

    def isinstance(self, eng, p, tn):
        if tn == "str":
            return KIND(self.v) == K_TEXT
        raise Unsupported("isinstance(parsed value, " + tn + ")")


class TypeV:
    tracked = False

    def __init__(self, name):
        self.name = name

    def eq(self, eng, p, other):
        return z3.BoolVal(isinstance(other, Opaque) and other.tag in ("func:" + self.name, "global:" + self.name))


def as_val(eng, v):
    if isinstance(v, PyB):
        return BOOLVAL(v.z)
    if isinstance(v, PyI):
        return INTVAL(v.z)
    if text_of(v) is not None:
        return TEXTVAL(text_of(v))
    if isinstance(v, Custom) and isinstance(v.h, ResV):
        return v.h.v
    return None


def value_handlers():
    def parser(okf, valf, exc="ValueError", wrap=lambda t: Custom(ResV(t))):
        def h(eng, p, args, kw, node):
            x = text_of(args[0])
            if x is None:
                raise Unsupported("parser applied to a non-text")
            ok, bad = p.fork(okf(x)), p.fork(z3.Not(okf(x)))
            out = []
            if eng.feasible(ok):
                out.append((ok, wrap(valf(x))))
            if eng.feasible(bad):
                out += raised(bad, exc)
            return out
        return h

    def h_int(eng, p, args, kw, node):
        b = kw.get("base", args[1] if len(args) > 1 else PyI(10))
        if _const(eng, b) != 10:
            raise Unsupported("int() with another base")
        return parser(INT_OK, PARSE_INT, wrap=lambda t: PyI(t))(eng, p, args, kw, node)

    def h_dtype(eng, p, args, kw, node):
        a = args[0]
        if isinstance(a, Custom) and isinstance(a.h, DTypeV):
            return [(p, a)]
        z = text_of(a)
        if z is None:
            raise Unsupported("np.dtype of a non-text")
        zs = z3.simplify(z)
        if z3.is_string_value(zs) and zs.as_string() not in NUMPY_NAMES_OK:
            return raised(p, "TypeError")            # ASSUMED numpy: not a dtype name
        return [(p, Custom(DTypeV(z)))]

    def h_type(eng, p, args, kw, node):
        if text_of(args[0]) is not None:
            return [(p, Custom(TypeV("str")))]
        raise Unsupported("type()")
    return {"int": h_int, "float": parser(FLOAT_OK, PARSE_FLOAT), "pd.Timestamp": parser(TS_OK, PARSE_TS), "pd.Timedelta": parser(TD_OK, PARSE_TD),
            "pd.to_datetime": parser(TS_OK, TO_DT), "np.dtype": h_dtype, "type": h_type, "str": h_str}


def run_value_kinds(ctx, funcs, timeout):
    res = Results()
    v = z3.Const("key_value", VAL)
    n_ret = 0
    must_fail = 0

    def texts_of(k):
        """path_string(v) from the REAL source, for a value of kind k -> [(path, text)]"""
        eng = Eng(funcs=funcs, handlers=value_handlers(), opaque_calls=True)
        p = Path()
        p.pc += [KIND(v) == (K_TS if k == K_TSTZ else K_INT if k == K_CATINT else k)]
        outs = eng.run("path_string", p, [Custom(ValV(v))])
        discharge_engine(eng, res, "path_string.", timeout)
        out = []
        for q in outs:
            z = text_of(q.ctl[1]) if q.ctl[0] == "ret" else None
            trace(res, "path_string.returns_a_text", z is not None, "path_string returns a str for every key value")
            if z is not None:
                out.append((q, z))
        return out

    def run(fn, q0, x, meta):
        eng = Eng(funcs=funcs, handlers=value_handlers(), inline=("val_from_meta", "_val_to_num"), opaque_calls=True)
        q = q0.fork()
        q.ctl = None
        try:
            outs = eng.run(fn, q, [Custom(TextV(x)), meta])
        except Unsupported as ex:            # this sub-run only: undecided, the other lemmas are still posed
            res.add(f"{fn}.out_of_reach", UNKNOWN, None, 0.0, "engine", str(ex))
            return eng, []
        return eng, outs

    kinds = [(K_INT, "int"), (K_FLOAT, "float"), (K_BOOL, "bool"), (K_TS, "timestamp"), (K_TEXT, "text"), ("text(object)", "text(object dtype)"),
             (K_TSTZ, "timestamp tz-aware"), (K_CATINT, "categorical of ints")]
    for k, kn in kinds:
        kk = K_TEXT if k == "text(object)" else k
        for q0, x in texts_of(kk):
            facts = value_facts(v, kk)
            # ---- with the partition_columns metadata of the original column -----------------------------------------------------
            for fn in ("val_to_num", "val_from_meta"):
                eng, outs = run(fn, q0, x, Custom(MetaV(*META[k])))
                discharge_engine(eng, res, fn + ".", timeout)
                for q in outs:
                    n_ret += 1
                    name = f"{fn}.roundtrip[{kn}]"
                    detail = (f"{fn}(path_string(v), partition_columns metadata of v's column) == v: same value, same kind, no exception, for "
                              f"EVERY non-null {kn} key value")
                    cs = list(q.pc) + list(q.axioms) + facts
                    if solve(cs, timeout)[0] == PROVED:
                        continue                       # infeasible under the library facts (e.g. numpy rejecting str(int))
                    if q.ctl[0] != "ret":
                        res.add(name, REFUTED, {"raises": q.ctl[1]}, 0.0, "trace", detail)
                        continue
                    r = as_val(eng, q.ctl[1])
                    if r is None:
                        res.add(name, REFUTED, {"returns": type(getattr(q.ctl[1], 'h', q.ctl[1])).__name__}, 0.0, "trace", detail)
                        continue
                    st, m, secs = solve(cs + kind_axioms([r]) + [z3.Not(r == v)], timeout)
                    res.add(name, st, {"text": mval(m, x), "kind_of_result": mval(m, KIND(r)), "kind_of_value": mval(m, KIND(v))} if m is not None else None,
                            secs, "z3", detail)
                    if solve(cs + kind_axioms([r]) + [r == v], timeout)[0] == REFUTED and k == K_INT:
                        must_fail += 1 if solve(cs + kind_axioms([r, TEXTVAL(x)]) + [z3.Not(r != TEXTVAL(x))], timeout)[0] == PROVED else 0
            # ---- without metadata --------------------------------------------------------------------------------------------------
            if k in ("text(object)", K_TSTZ, K_CATINT):
                continue
            eng, outs = run("val_to_num", q0, x, NONE)
            discharge_engine(eng, res, "val_to_num.", timeout)
            for q in outs:
                cs = list(q.pc) + list(q.axioms) + facts
                if solve(cs, timeout)[0] == PROVED:
                    continue
                name = f"val_to_num.generic_retyping_roundtrip[no metadata, {kn}]"
                detail = (f"WITHOUT metadata (drill levels; hive datasets without a partition_columns block): val_to_num(path_string(v)) == v for a "
                          f"{kn} key value")
                if q.ctl[0] != "ret":
                    res.add(name, REFUTED, {"raises": q.ctl[1]}, 0.0, "trace", detail)
                    continue
                r = as_val(eng, q.ctl[1])
                if k == K_TEXT:
                    # text: the exact region in which the text survives
                    plain = [z3.Not(INT_OK(x)), z3.Not(FLOAT_OK(x)), z3.Not(TS_OK(x)), z3.Not(TD_OK(x)), x != sv("True"), x != sv("False")]
                    st, m, secs = solve(cs + kind_axioms([r]) + plain + [z3.Not(r == v)], timeout)
                    res.add("val_to_num.text_stays_text[no metadata, text that no parser accepts]", st, None, secs, "z3",
                            "a text that is not 'True'/'False' and that int(), float(), pd.Timestamp() and pd.Timedelta() all reject comes back unchanged")
                    st, m, secs = solve(cs + kind_axioms([r]) + [z3.Not(r == v)], timeout)
                    res.add("val_to_num.text_stays_text[no metadata, any text]", st,
                            {"int() accepts the text": mval(m, INT_OK(x)), "float() accepts": mval(m, FLOAT_OK(x)), "kind_of_result": mval(m, KIND(r))} if m is not None else None,
                            secs, "z3", "WITHOUT metadata a text key value comes back as the same text (numeric-looking text included)")
                    continue
                st, m, secs = solve(cs + kind_axioms([r]) + [z3.Not(r == v)], timeout)
                res.add(name, st, {"text": mval(m, x)} if m is not None else None, secs, "z3", detail)
    # ---- lemmas about an ARBITRARY directory text (used as cuts by the read-side runs) -------------------------------------------------
    x = z3.String("directory_text")
    STRING_META = ("string", "object")        # the literal api._path_to_cats substitutes once a key has produced a str
    for k, kn, textlike in [(K_INT, "int", False), (K_FLOAT, "float", False), (K_BOOL, "bool", False), (K_TS, "timestamp", False),
                            (K_TEXT, "text", True), ("text(object)", "text(object dtype)", True), (K_CATINT, "categorical", True),
                            ("string", "_path_to_cats string literal", True)]:
        eng, outs = run("val_to_num", Path(), x, Custom(MetaV(*(STRING_META if k == "string" else META[k]))))
        discharge_engine(eng, res, "val_to_num.", timeout)
        for q in outs:
            cs = list(q.pc) + list(q.axioms)
            if textlike:
                name = f"val_from_meta.text_metadata_returns_the_text[{kn}]"
                detail = "for ANY directory text x: the result is x itself (a str), no exception"
                if q.ctl[0] != "ret":
                    res.add(name, REFUTED, {"raises": q.ctl[1]}, 0.0, "trace", detail)
                    continue
                r = as_val(eng, q.ctl[1])
                st, m, secs = solve(cs + kind_axioms([r]) + [z3.Not(r == TEXTVAL(x))], timeout) if r is not None else (REFUTED, None, 0.0)
                res.add(name, st, None, secs, "z3", detail)
            else:
                name = f"val_from_meta.never_a_text_for_non_text_metadata[{kn}]"
                detail = "for ANY directory text x: whatever is returned is not a str (so api._path_to_cats never switches this key to its string literal)"
                if q.ctl[0] != "ret":
                    continue
                r = as_val(eng, q.ctl[1])
                st, m, secs = solve(cs + kind_axioms([r]) + [z3.Not(KIND(r) != K_TEXT)], timeout) if r is not None else (REFUTED, None, 0.0)
                res.add(name, st, {"text": mval(m, x)} if m is not None else None, secs, "z3", detail)
    eng, outs = run("val_to_num", Path(), x, NONE)
    discharge_engine(eng, res, "val_to_num.", timeout)
    for q in outs:
        cs = list(q.pc) + list(q.axioms)
        ok = q.ctl[0] == "ret"
        res.add("val_to_num.never_raises[no metadata]", PROVED if ok else REFUTED, None if ok else {"raises": q.ctl[1]}, 0.0, "trace",
                "WITHOUT metadata every directory text is accepted: each failing parser is caught, the text itself is the last resort")
        if not ok:
            continue
        r = as_val(eng, q.ctl[1])
        st, m, secs = solve(cs + kind_axioms([r]) + [z3.Not(z3.Implies(KIND(r) == K_TEXT, r == TEXTVAL(x)))], timeout) if r is not None else (REFUTED, None, 0.0)
        res.add("val_to_num.text_result_is_the_text_itself[no metadata]", st, None, secs, "z3",
                "WITHOUT metadata: whenever the result is a str it is the directory text unchanged (never another text)")
    if must_fail:
        ctx.vacuity["must_fail_sat"] += 1
    else:
        ctx.engine_error("value kinds vacuity: 'an int key comes back as its text' is not refutable")
    ctx.vacuity["covers"] += n_ret
    return res


# =================================================================================================================================
#  read side: api._strip_path_tail / paths_to_cats / _path_to_cats, core.read_row_group (partition block)
# =================================================================================================================================


class R:
    N, D = z3.Int("n_row_groups"), z3.Int("n_directory_levels")
    j0, iL, kW = z3.Int("row_group_witness"), z3.Int("level_witness"), z3.Int("key_position_witness")
    PATHT = z3.Function("RelativePathOfRowGroup", I, S)
    KEYN = z3.Function("PartitionColumnNameAtLevel", I, S)
    TXT = z3.Function("ValueTextOfRowGroupAtLevel", I, I, S)
    MID = z3.Function("MetadataOfKey", S, I)                    # 0: partition_meta has no entry for the key
    TEXTLIKE = z3.Function("MetadataIsOfATextOrCategoricalColumn", I, B)
    VALNUM = z3.Function("val_to_num", S, I, VAL)
    VN_OK = z3.Function("val_to_num_does_not_raise", S, I, B)
    STRMETA = 1                                                  # the literal {'pandas_type': 'string', 'numpy_type': 'object'}

    @staticmethod
    def dirz(j):
        return DIRNAME(R.PATHT(j))

    @staticmethod
    def lvl(j, i):
        """level i of the DIRECTORY text of row group j (what _path_to_cats splits)"""
        return PIECE["/"](R.dirz(j), z3.simplify(i))

    @staticmethod
    def keyfn(scheme, i):
        return R.KEYN(i) if scheme == "hive" else z3.Concat(sv("dir"), DEC(i))

    @staticmethod
    def path_hyps(j):
        z = R.PATHT(j)
        return [z3.Contains(z, SL), NPIECES["/"](z) == R.D + 1, R.D >= 1, z3.Length(R.dirz(j)) > 0] + dirname_facts(z)

    @staticmethod
    def level_hyps(scheme, written_as, j, i, no_eq_in_text=True):
        """what the WRITER established (partition_on_columns[...].level_*): level i of every path is name_i=text (hive) / text (drill);
        `no_eq_in_text`: the value text has no '=' (the complementary region is a finding)"""
        L = R.lvl(j, i)
        out = [dirname_piece_fact(R.PATHT(j), i)] + split_facts(L, "=")
        if written_as == "hive":
            out += [L == z3.Concat(R.KEYN(i), EQ, R.TXT(j, i)), z3.Not(z3.Contains(R.KEYN(i), EQ)), z3.Length(R.KEYN(i)) > 0]
            out += split2_facts(L, "=", R.KEYN(i), R.TXT(j, i))
            out += [z3.Contains(L, EQ) == z3.BoolVal(True)]
        else:
            out += [L == R.TXT(j, i)]
        if no_eq_in_text:
            out += [z3.Not(z3.Contains(R.TXT(j, i), EQ))]
        return out


class PathsV:
    """the file paths of the row groups, as given to paths_to_cats: N texts (none of them None: multi-file dataset)"""
    tracked = False

    def len(self, eng, p):
        return PyI(R.N)

    def nonempty(self, eng, p):
        return R.N > 0

    def arbitrary(self, eng, p):
        p.pc += [0 <= R.j0, R.j0 < R.N]
        return Custom(TextV(R.PATHT(R.j0)))


def base_of(comp):
    guards, c = [], comp
    while isinstance(c, AbstractComp):
        guards.append(c.guard)
        c = c.coll.h if isinstance(c.coll, Custom) else None
    return guards, c


class WComp(AbstractComp):
    """a comprehension over an abstract collection, evaluated at the witness member; emptiness facts in both (universal) directions"""

    def nonempty(self, eng, p):
        guards, base = base_of(self)
        if all(z3.is_true(z3.simplify(g)) for g in guards) and base is not None and hasattr(base, "nonempty"):
            return base.nonempty(eng, p)
        key = ("nonempty", id(self))
        if key in p.opq:
            return p.opq[key]
        r = eng.fresh("comprehension_nonempty", B)
        p.opq[key] = r
        g = z3.And(*guards)
        bn = base.nonempty(eng, p) if base is not None and hasattr(base, "nonempty") else z3.BoolVal(True)
        p.axioms.append(z3.Implies(z3.And(bn, g), r))          # the witness member passes the filter => not empty
        p.axioms.append(z3.Implies(r, bn))
        # not empty => SOME member passes the filter: a fresh member (existential elimination); the scenario's universally
        # quantified hypotheses are instantiated at it
        inst = p.ghost.get("hyp_at")
        if inst is not None:
            js, is_ = eng.fresh_int("some_row_group"), eng.fresh_int("some_level")
            g2 = z3.substitute(g, (R.j0, js), (R.iL, is_))
            p.axioms.append(z3.Implies(r, z3.And(g2, *inst(js, is_))))
        return r

    def truth(self, eng, p):
        return self.nonempty(eng, p)

    def for_loop(self, eng, p, st):
        fn = p.ghost.get("inner_loop")
        if fn is None:
            raise Unsupported("loop over a comprehension")
        return fn(eng, p, st, self)


class REng(Eng):
    def e_ListComp(self, e, p):
        out = super().e_ListComp(e, p)
        for q, v in out:
            if isinstance(v, Custom) and type(v.h) is AbstractComp:
                v.h.__class__ = WComp
        return out

    e_GeneratorExp = e_ListComp
    e_SetComp = e_ListComp


class GhostSet:
    """set(): 'st' = string_types (texts), 'seen' = (key, val) pairs; the role is fixed by the first item that reaches it"""
    tracked = False

    def __init__(self):
        self.role = None

    def _role(self, item):
        r = "st" if text_of(item) is not None else "seen" if isinstance(item, Tup) and len(item.items) == 2 and all(text_of(x) is not None for x in item.items) else None
        if r is None or (self.role not in (None, r)):
            raise Unsupported("set item")
        self.role = r
        return r

    def contains(self, eng, p, item):
        r = self._role(item)
        if r == "st":
            return z3.Select(p.ghost["st"], text_of(item))
        k, v = [text_of(x) for x in item.items]
        return z3.Select(z3.Select(p.ghost["seen"], k), v)

    def call_method(self, eng, p, name, args, kw, node):
        if name != "add" or len(args) != 1:
            raise Unsupported("set." + name)
        r = self._role(args[0])
        if r == "st":
            p.ghost["st"] = z3.Store(p.ghost["st"], text_of(args[0]), True)
        else:
            k, v = [text_of(x) for x in args[0].items]
            p.ghost["seen"] = z3.Store(p.ghost["seen"], k, z3.Store(z3.Select(p.ghost["seen"], k), v, True))
        effects(p).append(("set_add", r))
        return [(p, NONE)]


class CatsV:
    """cats = OrderedDict(): ghost nkeys / keyat (insertion order) / catmem (key -> set of values)"""
    tracked = False

    def call_method(self, eng, p, name, args, kw, node):
        if name == "setdefault" and len(args) == 2 and text_of(args[0]) is not None and isinstance(args[1], Custom) and isinstance(args[1].h, GhostSet) \
                and args[1].h.role is None:
            key = text_of(args[0])
            n, ka = p.ghost["nkeys"], p.ghost["keyat"]
            present = eng.fresh("key_already_present", B)
            kx = eng.fresh_int("position_of_key")
            p.pc += [z3.Implies(present, z3.And(0 <= kx, kx < n, z3.Select(ka, kx) == key))]
            p.pc += p.ghost["inv_at"](p, kx)
            iw = p.ghost.get("cur_level")
            if iw is not None:
                p.pc += [z3.Implies(z3.And(0 <= iw, iw < n, z3.Select(ka, iw) == key), present)]
            p.ghost["nkeys"] = z3.If(present, n, n + 1)
            p.ghost["keyat"] = z3.If(present, ka, z3.Store(ka, n, key))
            effects(p).append(("setdefault", key))
            return [(p, Custom(CatSet(key)))]
        if name == "items" and not args:
            return [(p, Custom(CatsItems()))]
        raise Unsupported("cats." + name)


class CatSet:
    tracked = False

    def __init__(self, key):
        self.key = key

    def call_method(self, eng, p, name, args, kw, node):
        if name != "add" or len(args) != 1:
            raise Unsupported("category set." + name)
        v = as_val(eng, args[0])
        if v is None:
            raise Unsupported("category value")
        cm = p.ghost["catmem"]
        p.ghost["catmem"] = z3.Store(cm, self.key, z3.Store(z3.Select(cm, self.key), v, True))
        effects(p).append(("cat_add", self.key, v))
        return [(p, NONE)]


class CatsItems:
    tracked = False

    def nonempty(self, eng, p):
        return p.ghost["nkeys"] > 0

    def arbitrary(self, eng, p):
        p.pc += [0 <= R.kW, R.kW < p.ghost["nkeys"]]
        k = z3.Select(p.ghost["keyat"], R.kW)
        return Tup([Custom(TextV(k)), Custom(CatSet(k))])


class CatList:
    tracked = False

    def __init__(self, key):
        self.key = key


class CatsOut:
    tracked = False

    def __init__(self, comp, ghost):
        self.comp, self.nkeys, self.keyat, self.catmem = comp, ghost["nkeys"], ghost["keyat"], ghost["catmem"]


class MetaSel:
    """partition_meta.get(key)"""
    tracked = False

    def __init__(self, key):
        self.key = key


class PMetaV:
    tracked = False

    def truth(self, eng, p):
        return z3.BoolVal(True)

    def call_method(self, eng, p, name, args, kw, node):
        if name == "get" and len(args) == 1 and text_of(args[0]) is not None:
            return [(p, Custom(MetaSel(text_of(args[0]))))]
        raise Unsupported("partition_meta." + name)


def h_val_to_num_cut(eng, p, args, kw, node):
    """CUT: util.val_to_num by its lemmas (val_from_meta.text_metadata_returns_the_text[*], never_a_text_for_non_text_metadata[*],
    val_to_num.never_raises[no metadata])"""
    x = text_of(args[0])
    sel = args[1] if len(args) > 1 else kw.get("meta", NONE)
    if x is None:
        raise Unsupported("val_to_num of a non-text")
    if isinstance(sel, NoneV):
        mid = z3.IntVal(0)
    elif isinstance(sel, Custom) and isinstance(sel.h, DictLit) and {k: getattr(v, "s", None) for k, v in sel.h.d.items()} == \
            {"pandas_type": "string", "numpy_type": "object"}:
        mid = z3.IntVal(R.STRMETA)
    elif isinstance(sel, Custom) and isinstance(sel.h, MetaSel):
        mid = R.MID(sel.h.key)
    else:
        raise Unsupported("val_to_num with another metadata argument")
    p.pc += [R.TEXTLIKE(R.STRMETA), z3.Not(R.TEXTLIKE(0)),
             z3.Implies(z3.And(mid != 0, R.TEXTLIKE(mid)), z3.And(R.VN_OK(x, mid), R.VALNUM(x, mid) == TEXTVAL(x))),
             z3.Implies(z3.And(mid != 0, z3.Not(R.TEXTLIKE(mid))), KIND(R.VALNUM(x, mid)) != K_TEXT),
             z3.Implies(mid == 0, R.VN_OK(x, mid)), KIND(TEXTVAL(x)) == K_TEXT,
             z3.Implies(KIND(R.VALNUM(x, 0)) == K_TEXT, R.VALNUM(x, 0) == TEXTVAL(x))]
    ok, bad = p.fork(R.VN_OK(x, mid)), p.fork(z3.Not(R.VN_OK(x, mid)))
    out = []
    if eng.feasible(ok):
        out.append((ok, Custom(ResV(R.VALNUM(x, mid)))))
    if eng.feasible(bad):
        out += raised(bad, "ValueError")
    return out


def dec_facts(fs):
    """ASSUMED: the decimal text of an int determines the int; it contains neither '=' nor '/' (instantiated for the terms at hand)"""
    apps, seen = {}, set()

    def walk(t):
        if t.get_id() in seen:
            return
        seen.add(t.get_id())
        if z3.is_app(t):
            if t.decl().name() == "decimal_text_of_int":
                apps[t.get_id()] = t
            for c in t.children():
                walk(c)
    for f in fs:
        walk(f)
    apps = list(apps.values())
    out = [z3.And(z3.Not(z3.Contains(a, EQ)), z3.Not(z3.Contains(a, SL)), z3.Length(a) > 0) for a in apps]
    for a, b in itertools.combinations(apps, 2):
        out.append(z3.Implies(z3.Concat(sv("dir"), a) == z3.Concat(sv("dir"), b), a.arg(0) == b.arg(0)))
        out.append(z3.Implies(a == b, a.arg(0) == b.arg(0)))
    return out


PLAIN = z3.Function("SomeLevelTextOfKeyStaysTextUnderGenericRetyping", S, B)


def run_paths_to_cats(ctx, funcs, timeout, written_as, with_meta, clean, homog=True):
    """one scenario: the dataset was written in the `written_as` layout; partition_columns metadata present for every key or absent;
    clean: no value text contains '='; homog (no metadata only): the texts of one key are all re-typed or all left as text"""
    res = Results()
    tag = f"[{written_as} dataset, {'metadata' if with_meta else 'no metadata'}" + ("" if clean else ", any value text") + \
        ("" if with_meta or homog or not clean else ", levels may mix re-typable and plain text") + "]"
    P = "paths_to_cats" + tag + "."
    state = {}

    def hyp_at(j, i):
        return R.path_hyps(j) + R.level_hyps(scheme_of(), written_as, j, i, clean) + [0 <= i, i < R.D, 0 <= j, j < R.N]

    def scheme_of():
        return written_as

    def key_hyps(i, k):
        """distinct partition column names (ASSUMED: pandas columns of a written frame are distinct)"""
        return [z3.Implies(R.KEYN(i) == R.KEYN(k), i == k)]

    def new_state(eng, q, why):
        q.ghost["st"] = z3.Array(f"string_types_{why}!{next(eng.counter)}", S, B)
        q.ghost["seen"] = z3.Array(f"seen_{why}!{next(eng.counter)}", S, z3.ArraySort(S, B))
        q.ghost["catmem"] = z3.Array(f"cats_values_{why}!{next(eng.counter)}", S, z3.ArraySort(VAL, B))
        q.ghost["nkeys"] = eng.fresh_int("n_keys_" + why)
        q.ghost["keyat"] = z3.Array(f"key_at_{why}!{next(eng.counter)}", I, S)

    def keyfn(i):
        return R.keyfn(state["scheme"], i)

    def vr(key, val):
        """what core.read_row_group will look up for this (key, val): val_to_num(val, partition_meta.get(key))"""
        return R.VALNUM(val, R.MID(key) if with_meta else z3.IntVal(0))

    def inv_at(q, k):
        """the key-order invariant instantiated at position k"""
        return [z3.Implies(z3.And(0 <= k, k < q.ghost["nkeys"]), z3.Select(q.ghost["keyat"], k) == keyfn(k))] + \
            (key_hyps(k, state.get("cur", k)) if state["scheme"] == "hive" else [])

    def vn_facts(x, mid):
        """CUT facts of val_to_num (see h_val_to_num_cut) for a (text, metadata) pair"""
        return [R.TEXTLIKE(R.STRMETA), z3.Not(R.TEXTLIKE(0)), KIND(TEXTVAL(x)) == K_TEXT,
                z3.Implies(z3.And(mid != 0, R.TEXTLIKE(mid)), z3.And(R.VN_OK(x, mid), R.VALNUM(x, mid) == TEXTVAL(x))),
                z3.Implies(z3.And(mid != 0, z3.Not(R.TEXTLIKE(mid))), KIND(R.VALNUM(x, mid)) != K_TEXT),
                z3.Implies(KIND(R.VALNUM(x, 0)) == K_TEXT, R.VALNUM(x, 0) == TEXTVAL(x)),
                R.VALNUM(x, R.STRMETA) == TEXTVAL(x)]

    def plain_facts(key, val):
        """no metadata: PLAIN(key) <=> some text of the key stays text; homogeneous scenario: then ALL of them do"""
        out = [z3.Implies(KIND(R.VALNUM(val, 0)) == K_TEXT, PLAIN(key))]
        if homog:
            out.append(z3.Implies(PLAIN(key), KIND(R.VALNUM(val, 0)) == K_TEXT))
        return out

    def invariants(q, k, key, val, i):
        """INV: key order (position k), string_types only holds keys with text-like metadata (key), seen => recorded (key, val),
        a key that was seen at level k is in cats (its position is below nkeys)"""
        out = {"key_order": z3.And(q.ghost["nkeys"] >= 0, q.ghost["nkeys"] <= R.D,
                                   z3.Implies(z3.And(0 <= k, k < q.ghost["nkeys"]), z3.Select(q.ghost["keyat"], k) == keyfn(k))),
               "seen_values_are_recorded": z3.Implies(z3.Select(z3.Select(q.ghost["seen"], key), val),
                                                      z3.Select(z3.Select(q.ghost["catmem"], key), vr(key, val))),
               "seen_keys_are_present": z3.Implies(z3.And(0 <= k, z3.Select(z3.Select(q.ghost["seen"], keyfn(k)), val)), k < q.ghost["nkeys"])}
        if with_meta:
            out["string_types_only_text_keys"] = z3.Implies(z3.Select(q.ghost["st"], key), R.TEXTLIKE(R.MID(key)))
        else:
            out["string_types_only_keys_with_a_plain_text"] = z3.Implies(z3.Select(q.ghost["st"], key), PLAIN(key))
        return out

    def outer_loop(eng, p, st, zipv):
        """`for path, path_parts in zip(paths, parts)` flattened with the inner loop over the levels: ONE arbitrary (path, level)"""
        a, b = zipv
        ga, _ = base_of(a.h)
        gb, _ = base_of(b.h)
        # ASSUMED: iterating the same unmodified set twice gives the same order; the two sequences stay aligned iff `parts` drops nothing
        eng.oblige(p, P + "paths_and_parts_aligned", "post", z3.And(*gb), st,
                   note="zip(paths, parts): parts was filtered by `if path`; they stay aligned only when no directory text is empty "
                        "(true for a dataset whose files all sit at the same depth >= 1)")
        n_eff = len(effects(p))
        # entry: the invariants hold for the empty state
        kE, keyE, valE = eng.fresh_int("k_entry"), eng.fresh("key_entry", S), eng.fresh("val_entry", S)
        for nm, t in invariants(p, kE, keyE, valE, None).items():
            eng.oblige(p, P + "invariant." + nm + ".on_entry", "inv", t, st, note="loop invariant before the first path")
        body = p.fork()
        new_state(eng, body, "at_i")
        body.ghost["inv_at"] = inv_at
        body.ghost["inner_loop"] = inner_loop
        body.ghost["loop_n_eff"] = n_eff
        outs = []
        n_pc, n_ax = len(body.pc), len(body.axioms)
        pa, pb = a.h.arbitrary(eng, body), b.h.arbitrary(eng, body)
        mem = body.pc[n_pc:]
        for q in eng.assign(st.target, Tup([pa, pb]), body):
            for r in eng.block(st.body, [q]):
                if r.ctl is None or r.ctl == "continue":
                    r.ctl = ("outer_body_done", None)
                outs.append(r)
        ex = p.fork()
        new_state(eng, ex, "after")
        # the loops completed: no iteration raised.  For the WITNESS (path, level) every raising path of the body whose branch conditions
        # do not depend on the loop-carried state is therefore excluded (universal fact instantiated at the witness)
        ex.pc += mem
        mem_ids = {c.get_id() for c in mem}
        for r in outs:
            if not (isinstance(r.ctl, tuple) and r.ctl[0] == "raise"):
                continue
            others = [c for c in r.pc[n_pc:] if c.get_id() not in mem_ids and c.get_id() not in state["assumed"]]
            if any(_mentions_state(c) for c in others) or not others:
                continue
            ex.axioms += [c for c in r.axioms[n_ax:]]
            ex.pc.append(z3.Not(z3.And(*others)))
        kS = R.kW
        for nm, t in invariants(ex, kS, eng.fresh("key_after", S), eng.fresh("val_after", S), None).items():
            ex.pc.append(t)
        ex.pc.append(z3.Implies(R.N > 0, ex.ghost["nkeys"] >= state["n_hits"]))    # every path contributes all its (hit) levels, N > 0 paths ran
        effects(ex).append(("loops_done",))
        for k in _stored(st.body) | _names(st.target):
            ex.env[k] = Opaque(("after_loop", k))
        return outs + [ex]

    def inner_loop(eng, p, st, comp):
        """`for key, val in hivehits`: the arbitrary level iL of the arbitrary path; position in hivehits == level index when the
        filter passes every level (hive) / there is no filter (drill)"""
        guards, base = base_of(comp)
        n_eff = len(effects(p))
        body = p.fork()
        item = comp.arbitrary(eng, body)
        i = R.iL
        state["cur"] = i
        body.ghost["cur_level"] = i
        c0 = body.ghost["nkeys"] >= i                            # inner invariant: the levels before i were processed in this pass
        body.pc.append(c0)
        state["assumed"].add(c0.get_id())
        outs = []
        for q in eng.assign(st.target, item, body):
            if isinstance(q.ctl, tuple) and q.ctl[0] == "raise":
                outs.append(q)
                continue
            key, val = text_of(q.env.get("key")), text_of(q.env.get("val"))
            if key is None or val is None:
                raise Unsupported("the loop does not bind key, val to texts")
            kP = eng.fresh_int("k_step")
            keyP, valP = eng.fresh("key_step", S), eng.fresh("val_step", S)
            pre = []
            for (k_, ky, vl) in ((i, key, val), (kP, keyP, valP), (kP, key, valP), (kP, keyP, val), (i, key, valP), (kP, keyP, val)):
                pre += list(invariants(q, k_, ky, vl, i).values())
            pre += vn_facts(val, R.MID(key)) + vn_facts(valP, R.MID(keyP)) + vn_facts(valP, R.MID(key)) + vn_facts(val, R.MID(keyP))
            pre += [z3.Implies(keyfn(kP) == keyfn(i), kP == i)] if state["scheme"] == "hive" else []
            if not with_meta:
                pre += plain_facts(key, val) + plain_facts(keyP, valP) + plain_facts(key, valP) + plain_facts(keyP, val)
            q.pc += pre
            state["assumed"] |= {c.get_id() for c in pre}
            q.ghost["iter_start"] = (len(effects(q)), key, val, dict(st=q.ghost["st"], seen=q.ghost["seen"], catmem=q.ghost["catmem"]))
            for r in eng.block(st.body, [q]):
                if isinstance(r.ctl, tuple) and r.ctl[0] in ("raise", "ret"):
                    outs.append(r)
                    continue
                if r.ctl == "break":
                    raise Unsupported("break in the level loop")
                r.ctl = None
                n0_, key0, val0, _ = r.ghost["iter_start"]
                want_val = R.TXT(R.j0, i) if written_as == state["scheme"] else R.lvl(R.j0, i)
                eng.oblige(r, P + "level_gives_its_key_and_value_text", "post", z3.And(key0 == keyfn(i), val0 == want_val), st,
                           note="directory level i yields (key, val) == (" + ("name of partition column i, the text after 'name='" if state["scheme"] == "hive"
                                                                            else "'dir<i>', the level text") + ") - of THIS path, in directory order")
                new = effects(r)[n0_:]
                adds = [e for e in new if e[0] == "cat_add"]
                okk = all(e[0] in ("set_add", "setdefault", "cat_add") for e in new) and len(adds) <= 1 and len([e for e in new if e[0] == "setdefault"]) == len(adds)
                eng.oblige(r, P + "a_level_only_adds_to_the_state", "post", z3.BoolVal(okk), st,
                           note="processing a level only ADDS (seen / string_types / one value under one key of cats): " + str([e[0] for e in new]))
                for e in adds:
                    goal = z3.And(e[1] == key0, z3.Or(e[2] == vr(key0, val0), e[2] == TEXTVAL(val0)) if not with_meta else e[2] == vr(key0, val0))
                    eng.oblige(r, P + "value_added_is_the_parse_of_this_level_under_its_key", "post", goal, st,
                               note="what is added is val_to_num(val of THIS level) and it is added to cats[key of THIS level]: one category per "
                                    "distinct directory value, no value filed under another column")
                for nm, t in invariants(r, kP, keyP, valP, i).items():
                    eng.oblige(r, P + "invariant." + nm + ".preserved", "inv", t, st,
                               note="re-established after one level (for ALL keys / pairs: posed at Skolem key, value, position)")
                eng.oblige(r, P + "invariant.key_order.levels_before_are_present", "inv", r.ghost["nkeys"] >= i + 1, st,
                           note="after level i the keys of levels 0..i are all in cats")
                # R4: the value the reader will look up for THIS level is in cats[key] now (and cats only grows)
                eng.oblige(r, P + "every_directory_value_has_its_category", "post",
                           z3.Select(z3.Select(r.ghost["catmem"], key), vr(key, val)), st,
                           note="after a level is processed (added or skipped as seen) cats[key] contains val_to_num(val, partition_meta.get(key)) "
                                "- the value core.read_row_group computes for a row group in that directory")
                r.ctl = ("level_done", (key, val))
                outs.append(r)
        ex = p.fork()
        new_state(eng, ex, "after_levels")
        for nm, t in invariants(ex, R.kW, eng.fresh("key_al", S), eng.fresh("val_al", S), None).items():
            ex.pc.append(t)
        ex.pc.append(ex.ghost["nkeys"] >= state["n_hits"])
        for k in _stored(st.body) | _names(st.target):
            ex.env[k] = Opaque(("after_loop", k))
        return outs + [ex]

    def h_zip(eng, p, args, kw, node):
        if len(args) == 2 and all(isinstance(a, Custom) and isinstance(a.h, AbstractComp) for a in args):
            return [(p, Custom(ZipR(args, outer_loop)))]
        raise Unsupported("zip")

    def h_set(eng, p, args, kw, node):
        if not args:
            return [(p, Custom(GhostSet()))]
        v = args[0]
        if isinstance(v, Custom) and isinstance(v.h, AbstractComp) and isinstance(v.h.elt, PyI):
            # set of the directory depths: every path has D levels (scenario hypothesis, universally quantified) -> at most one value
            ne = v.h.nonempty(eng, p)
            return [(p, Custom(SmallSet(z3.If(ne, 1, 0))))]
        raise Unsupported("set(...)")

    def h_ordered(eng, p, args, kw, node):
        if not args:
            p.ghost["st"] = z3.K(S, z3.BoolVal(False))
            p.ghost["seen"] = z3.K(S, z3.K(S, z3.BoolVal(False)))
            p.ghost["catmem"] = z3.K(S, z3.K(VAL, z3.BoolVal(False)))
            p.ghost["nkeys"] = z3.IntVal(0)
            p.ghost["keyat"] = z3.K(I, sv(""))
            state["scheme"] = "hive" if state["attempt"] == 0 else "drill"
            state["attempt"] += 1
            # hive attempt: the hits are the levels with '='; they are ALL levels when the dataset was written hive
            state["n_hits"] = R.D
            return [(p, Custom(CatsV()))]
        v = args[0]
        if isinstance(v, Custom) and isinstance(v.h, AbstractComp):
            return [(p, Custom(CatsOut(v.h, p.ghost)))]
        raise Unsupported("OrderedDict(...)")

    def h_list(eng, p, args, kw, node):
        if args and isinstance(args[0], Custom) and isinstance(args[0].h, CatSet):
            return [(p, Custom(CatList(args[0].h.key)))]
        raise Unsupported("list()")

    def h_strmod(eng, p, a, b, node):
        return None

    state["attempt"] = 0
    state["assumed"] = set()
    handlers = {"zip": h_zip, "set": h_set, "OrderedDict": h_ordered, "list": h_list, "val_to_num": h_val_to_num_cut, "str": h_str,
                "ex_from_sep": lambda e, q, a, k, n: [(q, Custom(RegexKV()) if a and isinstance(a[0], Str) and a[0].s == "/" else Opaque("regex"))]}
    eng = REng(funcs=funcs, handlers=handlers, inline=("_strip_path_tail", "_path_to_cats"), opaque_calls=True)
    p = Path()
    p.pc += [R.N >= 0, 0 <= R.iL, R.iL < R.D] + hyp_at(R.j0, R.iL)[:-4] + R.path_hyps(R.j0)
    p.ghost["witness:/"] = R.iL
    p.ghost["hyp_at"] = hyp_at
    if with_meta:
        # every key the dataset has carries partition_columns metadata, and the writer's texts parse under it (roundtrip lemmas)
        meta_h = lambda key, val: [R.MID(key) != 0, R.MID(key) != R.STRMETA, R.VN_OK(val, R.MID(key))]
    else:
        meta_h = lambda key, val: [R.MID(key) == 0]
    state["meta_h"] = meta_h
    K0 = R.KEYN(R.iL)
    p.pc += meta_h(K0, R.TXT(R.j0, R.iL)) + meta_h(z3.Concat(sv("dir"), DEC(R.iL)), R.lvl(R.j0, R.iL))
    if solve(list(p.pc) + [R.N > 1, R.D > 1], timeout)[0] == REFUTED:
        ctx.vacuity["requires_sat"] += 1
    else:
        ctx.engine_error("paths_to_cats" + tag + ": scenario hypotheses unsatisfiable")
    outs = eng.run("paths_to_cats", p, [Custom(PathsV()), Custom(PMetaV()) if with_meta else NONE])
    extra = lambda ob: dec_facts(list(ob.pc) + [ob.goal])
    if not clean:
        eng.oblig = []          # this scenario only asks which layout is detected (the loop obligations belong to the clean scenarios)
    if not with_meta and not homog:
        eng.oblig = [ob for ob in eng.oblig if "seen_values_are_recorded.preserved" in ob.name or "every_directory_value_has_its_category" in ob.name]
    for ob in eng.oblig:
        ob.axioms = list(ob.axioms) + extra(ob)
    discharge_engine(eng, res, P, timeout, (R.N, R.D, R.iL, R.PATHT(R.j0), R.lvl(R.j0, R.iL), K0, R.TXT(R.j0, R.iL)))
    if not with_meta and not homog:
        return res
    # ---- outcomes ---------------------------------------------------------------------------------------------------------------
    def cons(q):
        cs, ids = [], set()
        for c in list(q.pc) + list(q.axioms):
            if c.get_id() not in ids:
                ids.add(c.get_id())
                cs.append(c)
        return cs + dec_facts(cs) + [R.N > 0]

    def scheme_of_ret(q):
        v = q.ctl[1]
        return v.items[0].s if isinstance(v, Tup) and len(v.items) == 2 and isinstance(v.items[0], Str) else None
    want = written_as
    rets = [q for q in outs if q.ctl[0] == "ret"]
    wrong = False
    for q in outs:
        if q.ctl[0] in ("level_done", "outer_body_done") or (q.ctl[0] == "ret" and scheme_of_ret(q) == want):
            continue
        # a raising path / a return with another layout name: must be infeasible for a non-empty dataset of the scenario
        st_, m, secs = solve(cons(q), timeout)
        if st_ == PROVED:
            continue
        if q.ctl[0] == "ret":
            mdl = {"scheme returned": scheme_of_ret(q), "level text": mval(m, R.lvl(R.j0, R.iL)), "value text": mval(m, R.TXT(R.j0, R.iL))} if m is not None else None
            res.add(P + "scheme_detected_is_the_layout_written", st_, mdl, secs, "z3",
                    f"a non-empty dataset written in the {written_as} layout (every file at depth D >= 1) is recognised as '{written_as}'")
        else:
            res.add(P + "does_not_raise", st_, {"exception": str(q.ctl)}, secs, "z3", "paths_to_cats returns for every dataset of the scenario")
        wrong = True
        break
    good = [q for q in rets if scheme_of_ret(q) == want]
    if not wrong:
        res.add(P + "scheme_detected_is_the_layout_written", PROVED if good else REFUTED, None, 0.0, "z3",
                f"a non-empty dataset written in the {written_as} layout (every file at depth D >= 1) is recognised as '{written_as}': every path "
                "returning another layout name or raising is infeasible")
    for q in good if clean else []:
        v = q.ctl[1]
        out = v.items[1].h if isinstance(v.items[1], Custom) else None
        if not isinstance(out, CatsOut):
            trace(res, P + "result_is_every_key_with_its_values", False, "the second component is the dict built from cats", {})
            continue
        cs = cons(q)
        ctx.vacuity["covers"] += 1
        comp = out.comp
        ok = z3.is_true(z3.simplify(z3.And(*base_of(comp)[0]))) and isinstance(base_of(comp)[1], CatsItems) and isinstance(comp.elt, Tup) and len(comp.elt.items) == 2
        trace(res, P + "result_is_every_key_with_its_values", ok, "the dict returned has one entry per key of cats, in cats' (insertion) order, unfiltered")
        if not ok:
            continue
        kz = text_of(comp.elt.items[0])
        lv = comp.elt.items[1].h if isinstance(comp.elt.items[1], Custom) else None
        st_, m, secs = solve(cs + [z3.Not(z3.And(out.nkeys == R.D, kz == R.keyfn(written_as, R.kW)))], timeout)
        res.add(P + "keys_are_the_partition_names_in_directory_order", st_, {"n_keys": mval(m, out.nkeys), "D": mval(m, R.D), "position": mval(m, R.kW), "key": mval(m, kz)} if m is not None else None,
                secs, "z3", "the result has exactly D keys; the key at position k is " + ("the partition column name of directory level k" if written_as == "hive" else "'dir<k>'"))
        trace(res, P + "values_of_a_key_are_its_recorded_set", isinstance(lv, CatList) and kz is not None and lv.key.eq(kz),
              "result[key] == list(cats[key]): the set recorded for THAT key")
        if solve(cs + [z3.Not(out.nkeys == 0)], timeout)[0] == REFUTED:        # must-fail: 'the result has no keys' is refutable
            ctx.vacuity["must_fail_sat"] += 1
        else:
            ctx.engine_error("paths_to_cats" + tag + " vacuity: 'no keys' is not refutable")
    return res


STATE_NAMES = ("string_types_", "seen_", "cats_values_", "n_keys_", "key_at_", "key_already_present", "position_of_key")


def _mentions_state(c):
    t = str(c)
    return any(n in t for n in STATE_NAMES)


class ZipR:
    tracked = False

    def __init__(self, args, loop):
        self.args, self.loop = args, loop

    def for_loop(self, eng, p, st):
        return self.loop(eng, p, st, self.args)


class SmallSet:
    tracked = False

    def __init__(self, n):
        self.n = n

    def len(self, eng, p):
        return PyI(self.n)


# =================================================================================================================================
#  core.read_row_group: the partition block, for ONE arbitrary row group and ONE arbitrary partition column
# =================================================================================================================================
PIECE_PRE = z3.Function("text_before_slash_piece", S, I, S)
PIECE_POST = z3.Function("text_after_slash_piece", S, I, S)
CATSHAS = z3.Function("ValueIsInCategoryListOfKey", S, VAL, B)       # x in cats[key]  (cats as built by paths_to_cats)
FILEPIECE_KEY = "the file name of a part file is not 'name=...' with name a partition column"


def subst_value(v, pairs):
    if isinstance(v, Custom) and isinstance(v.h, SplitV):
        return Custom(SplitV(z3.substitute(v.h.z, *pairs), v.h.sep, v.h.lo, v.h.drop_last))
    if isinstance(v, Custom) and isinstance(v.h, TextV):
        return Custom(TextV(z3.substitute(v.h.z, *pairs)))
    if isinstance(v, Tup):
        return Tup([subst_value(x, pairs) for x in v.items], v.is_list)
    if isinstance(v, PyI):
        return PyI(z3.substitute(v.z, *pairs))
    raise Unsupported("element of a filtered list")


class FirstMatchComp(WComp):
    """[p for p in <list> if <cond>][0]: the FIRST member that satisfies the condition (IndexError if none)"""

    def getitem(self, eng, p, i, node):
        if _const(eng, i) != 0:
            raise Unsupported("index into a filtered list")
        guards, base = base_of(self)
        r = self.nonempty(eng, p)
        w = p.ghost["witness:/"]
        g = z3.And(*guards)
        e = p.ghost.get("expected_match")
        if e is not None:       # the member at position e passes the filter => the filtered list is not empty (e is a valid position: hypothesis)
            p.axioms.append(z3.Implies(z3.substitute(g, (w, e)), r))
            p.axioms += [z3.substitute(c, (w, e)) for c in p.ghost["hyp_at"](R.j0, w)]
        eng.oblige(p, "read_row_group.partition_level_found", "safety", r, node,
                   note="[p for p in partitions if p[0] == cat][0]: IndexError unless some level of THIS row group's path has the column as key")
        p.pc.append(r)
        f = eng.fresh_int("first_matching_level")
        p.pc += [0 <= f, z3.substitute(g, (w, f))] + p.ghost["hyp_at"](R.j0, f)
        if e is not None:
            p.pc.append(z3.Implies(z3.substitute(g, (w, e)), f <= e))       # FIRST match
        return subst_value(self.elt, [(w, f)])


class RgR:
    tracked = False

    def attr(self, eng, p, name):
        if name == "columns":
            return Custom(ColsR())
        raise Unsupported("rg." + name)


class ColsR:
    tracked = False

    def getitem(self, eng, p, i, node):
        return Custom(ChunkR())


class ChunkR:
    tracked = False

    def attr(self, eng, p, name):
        if name == "file_path":
            return Custom(TextV(R.PATHT(R.j0)))
        raise Unsupported("chunk." + name)


class SliceAll:
    tracked = False


class CatsRead:
    """`cats`: the dict paths_to_cats returned (CUT: keys == partition names in directory order; membership = CATSHAS)"""
    tracked = False

    def __init__(self, scheme):
        self.scheme = scheme

    def for_loop(self, eng, p, st):
        body = p.fork()
        for k in _stored(st.body) | _names(st.target):
            body.env[k] = Opaque(("havoc", k))
        body.pc += [0 <= R.kW, R.kW < R.D]
        body.ghost["iter0"] = len(effects(body))
        outs = []
        for q in eng.assign(st.target, Custom(TextV(R.keyfn(self.scheme, R.kW))), body):
            for r in eng.block(st.body, [q]):
                if r.ctl in (None, "continue"):
                    r.ctl = ("column_done", None)
                outs.append(r)
        ex = p.fork()
        for k in _stored(st.body) | _names(st.target):
            ex.env[k] = Opaque(("after_loop", k))
        return outs + [ex]

    def getitem(self, eng, p, i, node):
        z = text_of(i)
        if z is None:
            raise Unsupported("cats[...]")
        return Custom(CatListR(z))


class CatListR:
    tracked = False

    def __init__(self, key):
        self.key = key

    def call_method(self, eng, p, name, args, kw, node):
        if name != "index" or len(args) != 1:
            raise Unsupported("category list." + name)
        v = as_val(eng, args[0])
        if v is None:
            raise Unsupported("index of a non-value")
        eng.oblige(p, "read_row_group.category_found", "safety", CATSHAS(self.key, v), node,
                   note="cats[cat].index(val): ValueError unless the value parsed from this row group's directory is one of the categories "
                        "paths_to_cats recorded for that column")
        p.pc.append(CATSHAS(self.key, v))
        # ASSUMED list.index: the position returned holds an element == the argument
        return [(p, Custom(CatIndex(self.key, v)))]


class CatIndex:
    tracked = False

    def __init__(self, key, v):
        self.key, self.v = key, v


class AssignV:
    tracked = False

    def contains(self, eng, p, item):
        return z3.Bool("partition_column_is_requested")

    def getitem(self, eng, p, i, node):
        z = text_of(i)
        if z is None:
            raise Unsupported("assign[...]")
        return Custom(AssignArr(z))


class AssignArr:
    tracked = False

    def __init__(self, key):
        self.key = key

    def setitem(self, eng, p, i, v, node):
        whole = isinstance(i, Custom) and isinstance(i.h, SliceAll)
        effects(p).append(("assign", self.key, whole, v))


class RREng(REng):
    def e_Slice(self, e, p):
        if e.lower is None and e.upper is None and e.step is None:
            return [(p, Custom(SliceAll()))]
        return super().e_Slice(e, p)

    def e_ListComp(self, e, p):
        out = super().e_ListComp(e, p)
        for q, v in out:
            if isinstance(v, Custom) and type(v.h) is WComp and e.generators[0].ifs:
                v.h.__class__ = FirstMatchComp
        return out


def run_read_row_group(ctx, funcs, timeout, scheme, cats_meta, passed_meta):
    """scheme: layout of the dataset == pf.file_scheme; cats_meta: paths_to_cats had the partition metadata; passed_meta: the caller passes it"""
    res = Results()
    tag = f"[{scheme}" + (", partition_meta not passed" if cats_meta and not passed_meta else "" if cats_meta else ", no metadata") + "]"
    P = "read_row_group" + tag + "."

    def hyp_at(j, i):
        fp = R.PATHT(j)
        lvl_full = PIECE["/"](fp, z3.simplify(i))
        out = R.path_hyps(j) + [z3.Implies(z3.And(0 <= i, i < R.D), z3.And(*R.level_hyps(scheme, scheme, j, i, True)))]
        out += [z3.Implies(z3.And(0 <= i, i < R.D), z3.And(lvl_full == R.lvl(j, i), z3.Implies(R.KEYN(i) == R.KEYN(R.kW), i == R.kW)))]
        out += split_facts(lvl_full, "=")
        # the last piece is the file name
        out += [z3.Implies(i == R.D, PIECE["="](lvl_full, 0) != R.KEYN(R.kW))]
        return out + [i <= R.D]

    def positional(j, i):
        """ASSUMED str.split, positional detail (added only when the code under analysis searches the path text itself, see Split1V):
        level i sits in the path between what precedes it (empty for i == 0, else ending with '/') and '/' + the rest; names and value
        texts are single directory names (no '/': partition_on_columns[...].level_reaches_the_path_verbatim)"""
        fp = R.PATHT(j)
        lvl_full = PIECE["/"](fp, z3.simplify(i))
        pre, post = PIECE_PRE(fp, z3.simplify(i)), PIECE_POST(fp, z3.simplify(i))
        body = [fp == z3.Concat(pre, lvl_full, post), z3.PrefixOf(SL, post), z3.If(i == 0, pre == sv(""), z3.SuffixOf(SL, pre)),
                z3.Not(z3.Contains(R.TXT(j, i), SL)), z3.Contains(fp, lvl_full)]
        if scheme == "hive":     # + THEOREMS (hints) that follow from the equations
            body += [z3.Not(z3.Contains(R.KEYN(i), SL)), z3.Contains(fp, z3.Concat(R.KEYN(i), EQ)),
                     fp == z3.Concat(pre, R.KEYN(i), EQ, R.TXT(j, i), post)]
        return [z3.Implies(z3.And(0 <= i, i < R.D), z3.And(*body))]

    def h_strmod(eng, p, a, b, node):
        if a.s == "dir%i" and isinstance(b, (PyI, PyB)):
            return Custom(TextV(z3.Concat(sv("dir"), DEC(eng.as_int(b)))))
        return None
    def h_int(eng, p, args, kw, node):
        """int(<text>): ASSUMED int('%i' % n) == n (the decimal text of n parses back to n); ValueError for a text int() rejects"""
        x = text_of(args[0]) if args else None
        if x is None or len(args) != 1 or kw:
            raise Unsupported("int() of a non-text")
        if solve(list(p.pc) + [z3.Length(DEC(R.kW)) > 0, x != DEC(R.kW)], 3000)[0] == PROVED:
            return [(p, PyI(R.kW))]             # the text IS the decimal text of the column's position
        p.axioms += [z3.Implies(x == DEC(R.kW), z3.And(INT_OK(x), PARSE_INT(x) == R.kW)), z3.Length(DEC(R.kW)) > 0]
        ok, bad = p.fork(INT_OK(x)), p.fork(z3.Not(INT_OK(x)))
        out = []
        if eng.feasible(ok):
            out.append((ok, PyI(PARSE_INT(x))))
        if eng.feasible(bad):
            out += raised(bad, "ValueError")
        return out
    handlers = {"val_to_num": h_val_to_num_cut, "str%": h_strmod, "str": h_str, "int": h_int}
    eng = RREng(funcs=funcs, handlers=handlers, opaque_calls=True)
    p = Path()
    c = R.kW
    key, txt = R.keyfn(scheme, c), R.TXT(R.j0, c)
    mid_cats = R.MID(key) if cats_meta else z3.IntVal(0)
    p.pc += [0 <= R.j0, R.j0 < R.N, R.N > 0, 0 <= c, c < R.D] + hyp_at(R.j0, c)
    # CUT paths_to_cats[...].every_directory_value_has_its_category (+ keys_are_the_partition_names_in_directory_order)
    p.pc += [CATSHAS(key, R.VALNUM(txt, mid_cats))]
    p.pc += ([R.MID(key) != 0, R.MID(key) != R.STRMETA, R.VN_OK(txt, R.MID(key))] if cats_meta else [R.MID(key) == 0])
    p.ghost["witness:/"] = R.iL
    p.ghost["expected_match"] = c
    p.ghost["hyp_at"] = hyp_at
    p.ghost["on_split1"] = lambda: positional(R.j0, c)
    if solve(list(p.pc) + [R.D > 1], timeout)[0] == REFUTED:
        ctx.vacuity["requires_sat"] += 1
    else:
        ctx.engine_error("read_row_group" + tag + ": scenario hypotheses unsatisfiable")
    outs = eng.run("read_row_group", p, [Opaque("file"), Custom(RgR()), Opaque("columns"), Opaque("categories"), Opaque("schema_helper"),
                                        Custom(CatsRead(scheme))],
                   {"assign": Custom(AssignV()), "scheme": Str(scheme), "partition_meta": Custom(PMetaV()) if passed_meta else NONE})
    for ob in eng.oblig:
        ob.axioms = list(ob.axioms) + dec_facts(list(ob.pc) + [ob.goal])
    discharge_engine(eng, res, P, timeout, (R.D, c, R.PATHT(R.j0), key, txt))
    done = [q for q in outs if isinstance(q.ctl, tuple) and q.ctl[0] == "column_done"]
    n_done = 0
    for q in outs:
        cs = list(q.pc) + list(q.axioms)
        cs += dec_facts(cs)
        if isinstance(q.ctl, tuple) and q.ctl[0] == "raise":
            st_, m, secs = solve(cs, timeout)
            if st_ != PROVED:
                res.add(P + "does_not_raise", st_, {"exception": q.ctl[1], "path": mval(m, R.PATHT(R.j0)) if m is not None else None}, secs, "z3",
                        "no exception for a row group of a dataset of the scenario")
            continue
        if q not in done:
            continue
        ef = effects(q)[q.ghost["iter0"]:]
        skipped = solve(cs + [z3.Bool("partition_column_is_requested")], timeout)[0] == PROVED
        if skipped:
            trace(res, P + "unrequested_column_untouched", not ef, "a partition column that is not among the output columns is not assigned")
            continue
        n_done += 1
        asg = [e for e in ef if e[0] == "assign"]
        ok = len(ef) == 1 and len(asg) == 1 and asg[0][2]
        trace(res, P + "whole_slice_of_the_column_assigned_once", ok, "assign[cat][:] = <one index>: every row of THIS row group's slice gets the same category",
              {"effects": str([e[0] for e in ef])})
        if not ok:
            continue
        _, akey, _, v = asg[0]
        ix = v.h if isinstance(v, Custom) and isinstance(v.h, CatIndex) else None
        trace(res, P + "assigned_code_is_an_index_into_the_columns_categories", ix is not None, "the code assigned is cats[cat].index(<value>)")
        if ix is None:
            continue
        mid_read = R.MID(key) if passed_meta else z3.IntVal(0)
        st_, m, secs = solve(cs + [z3.Not(z3.And(akey == key, ix.key == key))], timeout)
        res.add(P + "assigned_to_the_column_itself", st_, None, secs, "z3", "the array written and the category list used are those of the SAME partition column")
        st_, m, secs = solve(cs + [z3.Not(ix.v == R.VALNUM(txt, mid_read))], timeout)
        if st_ == UNKNOWN and scheme == "hive":
            # undecided in general: the SAME query on a bounded instance of the scenario (two directory levels, the second one the
            # column's), the four free texts enumerated over a small pool; a model there is a genuine counter-model (backend note in the
            # model), PROVED never comes from here
            k0, k1, t0, t1 = R.KEYN(0), R.KEYN(1), R.TXT(R.j0, 0), R.TXT(R.j0, 1)
            fp = R.PATHT(R.j0)
            inst = [R.D == 2, c == 1, fp == z3.Concat(k0, EQ, t0, SL, k1, EQ, t1, sv("/part.0.parquet")), k0 != k1,
                    PIECE_PRE(fp, 1) == z3.Concat(k0, EQ, t0, SL), PIECE_POST(fp, 1) == sv("/part.0.parquet")]
            for x in (k0, k1, t0, t1):
                inst += [z3.Length(x) >= 1, z3.Length(x) <= 4, z3.Not(z3.Contains(x, SL)), z3.Not(z3.Contains(x, EQ))]
            names_pool = ("a", "b", "ab", "ba", "aa")       # distinct names that are prefixes / suffixes / substrings of each other or unrelated
            cands = [(x, y, v, w) for x in names_pool for y in names_pool if x != y for v, w in (("1", "2"), ("2", "1"))]
            cand, m2, secs2 = enumerated_counter_model(cs, inst, z3.Not(ix.v == R.VALNUM(txt, mid_read)), (k0, k1, t0, t1), cands, timeout,
                                                       presub=[(c, z3.IntVal(1)), (R.D, z3.IntVal(2))])
            secs += secs2
            if cand is not None:
                res.add(P + "value_is_parsed_from_own_path_level_of_that_column", REFUTED,
                        {"counter-model by bounded instantiation (two levels, texts enumerated)": True,
                         "path": f"{cand[0]}={cand[2]}/{cand[1]}={cand[3]}/part.0.parquet", "column": cand[1], "value text of its level": cand[3],
                         "note": "the value the code parses for the column is not the text of the column's own level"}, secs, "z3",
                        "the category is val_to_num(<value text of the directory level whose key is the column, in THIS row group's file_path>, "
                        "partition_meta.get(column)): no other row group's path, no other level")
                continue
        res.add(P + "value_is_parsed_from_own_path_level_of_that_column", st_,
                {"path": mval(m, R.PATHT(R.j0)), "column": mval(m, key), "its level": mval(m, R.lvl(R.j0, c)),
                 "text before that level": mval(m, PIECE_PRE(R.PATHT(R.j0), c)), "value text of the level": mval(m, txt)} if m is not None else None, secs, "z3",
                "the category is val_to_num(<value text of the directory level whose key is the column, in THIS row group's file_path>, "
                "partition_meta.get(column)): no other row group's path, no other level")
    if not n_done:
        res.add(P + "out_of_reach", UNKNOWN, None, 0.0, "engine", "no completed iteration of the partition-column loop")
    ctx.vacuity["covers"] += n_done
    return res


def call_site_obligations(ctx, tree_api):
    """AST obligations: the partition_columns metadata reaches every val_to_num of the read path"""
    res = Results()

    def calls(fn_node, name):
        return [n for n in ast.walk(fn_node) if isinstance(n, ast.Call) and ((isinstance(n.func, ast.Name) and n.func.id == name)
                                                                            or (isinstance(n.func, ast.Attribute) and n.func.attr == name))]

    def is_self_pm(e):
        return isinstance(e, ast.Attribute) and e.attr == "partition_meta" and isinstance(e.value, ast.Name) and e.value.id == "self"
    cls = next((n for n in tree_api.body if isinstance(n, ast.ClassDef) and n.name == "ParquetFile"), None)
    meths = {n.name: n for n in cls.body if isinstance(n, ast.FunctionDef)} if cls else {}
    for mname in ("_read_partitions", "__init__"):
        for k, c in enumerate(calls(meths[mname], "paths_to_cats")) if mname in meths else []:
            arg = c.args[1] if len(c.args) > 1 else next((kw.value for kw in c.keywords if kw.arg == "partition_meta"), None)
            ok = arg is not None and is_self_pm(arg)
            res.add(f"ParquetFile.{mname}.paths_to_cats_gets_the_partition_metadata", PROVED if ok else REFUTED,
                    None if ok else {"argument": ast.unparse(arg) if arg is not None else "(default None)", "line": c.lineno}, 0.0, "ast",
                    "the categories of a dataset are built with self.partition_meta (else val_to_num re-types generically: numeric-looking "
                    "text becomes a number)")
    if "to_pandas" in meths:
        for c in calls(meths["to_pandas"], "read_row_group_file"):
            arg = next((kw.value for kw in c.keywords if kw.arg == "partition_meta"), None)
            ok = arg is not None and is_self_pm(arg)
            res.add("ParquetFile.to_pandas.read_row_group_file_gets_the_partition_metadata", PROVED if ok else REFUTED, None, 0.0, "ast",
                    "to_pandas hands self.partition_meta to every row-group read")
    if "read_row_group_file" in meths:
        m = meths["read_row_group_file"]
        for c in calls(m, "read_row_group"):
            arg = next((kw.value for kw in c.keywords if kw.arg == "partition_meta"), None)
            fwd = isinstance(arg, ast.Name) and arg.id == "partition_meta"
            ok = arg is not None and (is_self_pm(arg) or fwd)
            res.add("ParquetFile.read_row_group_file.forwards_the_partition_metadata", PROVED if ok else REFUTED, None, 0.0, "ast",
                    "core.read_row_group gets the partition metadata the method was given (or the dataset's own)")
            # when forwarded: a direct call (documented: `assign is None if this method is called directly`) leaves the parameter at its default
            names = [a.arg for a in m.args.args]
            dflt = dict(zip(names[len(names) - len(m.args.defaults):], m.args.defaults)).get("partition_meta")
            rebinds = any(isinstance(n, ast.Assign) and any(isinstance(t, ast.Name) and t.id == "partition_meta" for t in n.targets) for n in ast.walk(m))
            ok2 = is_self_pm(arg) or not (isinstance(dflt, ast.Constant) and dflt.value is None) or rebinds
            res.add("ParquetFile.read_row_group_file.default_is_the_datasets_partition_metadata", PROVED if ok2 else REFUTED,
                    None if ok2 else {"default": "None", "fallback to self.partition_meta": False}, 0.0, "ast",
                    "called directly (partition_meta left at its default) the row group is still read with the dataset's partition metadata")
    return res


# =================================================================================================================================
#  util.get_file_scheme
# =================================================================================================================================
class SetLit:
    tracked = False

    def __init__(self, items):
        self.items = items


class PathsG(PathsV):
    """paths given to get_file_scheme: N texts (no None among them)"""

    def truth(self, eng, p):
        return R.N > 0

    def contains(self, eng, p, item):
        if isinstance(item, NoneV):
            return z3.BoolVal(False)
        raise Unsupported("membership in paths")


class SetOfPaths:
    tracked = False

    def eq(self, eng, p, other):
        if isinstance(other, Custom) and isinstance(other.h, SetLit) and len(other.h.items) == 1 and isinstance(other.h.items[0], NoneV):
            return z3.BoolVal(False)         # scenario: the paths are texts
        raise Unsupported("set comparison")


class DepthSet:
    """set(lens): scenario hypothesis - every path has the same number of '/'-pieces"""
    tracked = False

    def __init__(self, comp):
        self.comp = comp

    def len(self, eng, p):
        return PyI(z3.If(self.comp.nonempty(eng, p), 1, 0))

    def eq(self, eng, p, other):
        if isinstance(other, Custom) and isinstance(other.h, SetLit) and len(other.h.items) == 1 and isinstance(other.h.items[0], PyI):
            return z3.And(self.comp.nonempty(eng, p), eng.as_int(self.comp.elt) == other.h.items[0].z)
        raise Unsupported("set comparison")


class GEng(REng):
    def e_Set(self, e, p):
        return [(q, Custom(SetLit(vs))) for q, vs in self.ev_list(e.elts, p)]


def h_all_intro(eng, p, args, kw, node):
    """all(<comprehension>): True when the element is valid for the ARBITRARY member under the scenario's universally quantified
    hypotheses (forall-introduction), False when some member (the witness) falsifies it; else undetermined with the universal direction"""
    v = args[0]
    if not (isinstance(v, Custom) and isinstance(v.h, AbstractComp)):
        raise Unsupported("all()")
    h = v.h
    e = eng.truth(h.elt, p)
    cs = list(p.pc) + list(p.axioms)
    if solve(cs + [h.guard, z3.Not(e)], 3000)[0] == PROVED:
        return [(p, PyB(True))]
    if solve(cs + [z3.Not(z3.And(h.guard, z3.Not(e)))], 3000)[0] == PROVED:
        return [(p, PyB(False))]
    r = eng.fresh("all", B)
    p.axioms.append(z3.Implies(r, z3.Implies(h.guard, e)))
    return [(p, PyB(r))]


def run_get_file_scheme(ctx, funcs, timeout):
    res = Results()
    P = "get_file_scheme."
    lvl_full = lambda j, i: PIECE["/"](R.PATHT(j), z3.simplify(i))

    def interior_eq(z):
        n = z3.Length(z)
        return z3.Contains(z3.SubString(z, 1, n - 2), EQ)

    def run(hyps, depth_uniform=True):
        def h_set(eng, p, args, kw, node):
            v = args[0]
            if isinstance(v, Custom) and isinstance(v.h, PathsG):
                return [(p, Custom(SetOfPaths()))]
            if isinstance(v, Custom) and isinstance(v.h, AbstractComp) and isinstance(v.h.elt, PyI) and depth_uniform:
                return [(p, Custom(DepthSet(v.h)))]
            raise Unsupported("set(...)")
        eng = GEng(funcs=funcs, handlers={"set": h_set, "all": h_all_intro, "str": h_str}, opaque_calls=True)
        p = Path()
        p.pc += [R.N >= 0, 0 <= R.j0, 0 <= R.iL] + hyps
        p.ghost["witness:/"] = R.iL
        outs = eng.run("get_file_scheme", p, [Custom(PathsG())])
        discharge_engine(eng, res, P, timeout)
        return [(q, q.ctl[1].s if q.ctl[0] == "ret" and isinstance(q.ctl[1], Str) else str(q.ctl)) for q in outs]

    def feasible(q, extra=()):
        return solve(list(q.pc) + list(q.axioms) + list(extra), timeout)[0] != PROVED

    def only(outs, want, name, detail, extra=()):
        bad = [(q, s_) for q, s_ in outs if s_ != want and feasible(q, extra)]
        good = [q for q, s_ in outs if s_ == want and feasible(q, extra)]
        m = solve(list(bad[0][0].pc) + list(bad[0][0].axioms) + list(extra), timeout)[1] if bad else None
        res.add(P + name, PROVED if good and not bad else REFUTED,
                {"returned": bad[0][1], "path": mval(m, R.PATHT(R.j0)) if m is not None else None} if bad else None, 0.0, "z3", detail)
        return good
    z, L = R.PATHT(R.j0), lvl_full(R.j0, R.iL)
    depth = [NPIECES["/"](z) == R.D + 1] + split_facts(z, "/")
    n_cov = 0
    # every level of every path is name=text with non-empty name and text (what the hive writer produces for non-empty texts)
    kv = [L == z3.Concat(R.KEYN(R.iL), EQ, R.TXT(R.j0, R.iL)), z3.Length(R.KEYN(R.iL)) > 0, z3.Length(R.TXT(R.j0, R.iL)) > 0]
    outs = run(depth + [R.D >= 1] + kv)
    good = only(outs, "hive", "hive_when_every_level_is_key_equals_value", "same depth >= 1 and every directory level is name=text with non-empty name "
                "and text => 'hive'", [R.N > 0])
    n_cov += len(good)
    # 'hive' only if every level has an '=' strictly inside (arbitrary paths of the same depth)
    outs = run(depth + [R.D >= 1])
    for q, s_ in outs:
        if s_ != "hive":
            continue
        n_cov += 1
        cs = list(q.pc) + list(q.axioms) + [0 <= R.j0, R.j0 < R.N, R.iL < R.D]
        st_, m, secs = solve(cs + [z3.Not(interior_eq(L))], timeout)
        res.add(P + "hive_only_if_every_level_has_an_interior_equals", st_, {"level": mval(m, L)} if m is not None else None, secs, "z3",
                "'hive' is returned only when EVERY directory level of EVERY path contains '=' with a non-empty name before and something after it")
        # ... with the same keys in the same order in every path: a second arbitrary path j1 (universal facts instantiated at it as well)
        j1 = z3.Int("second_row_group")
        cs2 = cs + [z3.substitute(c, (R.j0, j1)) for c in cs]
        k0, k1 = PIECE["="](L, 0), PIECE["="](lvl_full(j1, R.iL), 0)
        st_, m, secs = solve(cs2 + split_facts(L, "=") + split_facts(lvl_full(j1, R.iL), "=") + [z3.Not(k0 == k1)], timeout)
        res.add(P + "hive_only_if_all_paths_have_the_same_keys_in_the_same_order", st_,
                {"level of one path": mval(m, L), "same level of another path": mval(m, lvl_full(j1, R.iL))} if m is not None else None, secs, "z3",
                "'hive' is returned only when level i has the SAME key in every path (property: one column per level)")
    # some level without interior '=' => 'drill'
    outs = run(depth + [R.D >= 1, R.iL < R.D, z3.Not(interior_eq(L))])
    n_cov += len(only(outs, "drill", "drill_when_some_level_has_no_interior_equals", "same depth >= 1 and a level that is not name=text => 'drill'",
                      [R.N > 0, R.j0 < R.N]))
    outs = run(depth + [R.D == 0])
    n_cov += len(only(outs, "flat", "flat_when_no_directory_level", "every path is a bare file name => 'flat'", [R.N > 0]))
    outs = run([R.N == 0])
    n_cov += len(only(outs, "empty", "empty_when_no_paths", "no paths => 'empty'"))
    ctx.vacuity["covers"] += n_cov
    return res


# =================================================================================================================================
#  smaller pieces: util._strip_path_tail, api.ParquetFile.partition_meta, writer.make_metadata / write (metadata block, AST)
# =================================================================================================================================
def run_strip_path_tail(ctx, funcs, timeout):
    res = Results()
    eng = REng(funcs=funcs, handlers={}, opaque_calls=True)
    p = Path()
    p.pc += [R.N >= 0]
    coll = PathsV()
    outs = eng.run("_strip_path_tail", p, [Custom(coll)])
    discharge_engine(eng, res, "strip_path_tail.", timeout)
    z = R.PATHT(R.j0)
    for q in outs:
        v = q.ctl[1] if q.ctl[0] == "ret" else None
        h = v.h if isinstance(v, Custom) and isinstance(v.h, AbstractComp) else None
        ok = h is not None and z3.is_true(z3.simplify(h.guard)) and isinstance(h.coll, Custom) and h.coll.h is coll
        trace(res, "strip_path_tail.one_directory_text_per_path", ok, "the result is {<directory text of p> for EVERY p in paths} (unfiltered)")
        e = text_of(h.elt) if ok else None
        if e is None:
            continue
        cs = list(q.pc) + list(q.axioms)
        st_, m, secs = solve(cs + [z3.Not(e == z3.If(z3.Contains(z, SL), DIRNAME(z), sv("")))], timeout)
        res.add("strip_path_tail.directory_part_of_the_path", st_, {"path": mval(m, z)} if m is not None else None, secs, "z3",
                "the element is the text before the LAST '/' of the path (all its directory levels), '' for a bare file name")
        ctx.vacuity["covers"] += 1
    return res


class SelfPF:
    tracked = False

    def attr(self, eng, p, name):
        if name == "pandas_metadata":
            return Custom(PandasMD())
        raise Unsupported("self." + name)


class PandasMD:
    tracked = False

    def call_method(self, eng, p, name, args, kw, node):
        if name == "get" and args and isinstance(args[0], Str):
            return [(p, Custom(MDList(args[0].s, args[1] if len(args) > 1 else NONE)))]
        raise Unsupported("pandas_metadata." + name)


class MDList:
    tracked = False

    def __init__(self, key, default):
        self.key, self.default = key, default

    def arbitrary(self, eng, p):
        return Custom(ColMeta())

    def nonempty(self, eng, p):
        return z3.Bool("has_partition_columns")


class ColMeta:
    tracked = False

    def getitem(self, eng, p, i, node):
        if isinstance(i, Str):
            return Custom(TextV(z3.String("column_metadata[" + i.s + "]")))
        raise Unsupported("column metadata key")


def run_partition_meta(ctx, funcs, timeout):
    from vc.symexec import AbstractDict
    res = Results()
    eng = Eng(funcs=funcs, handlers={}, opaque_calls=True)
    outs = eng.run("ParquetFile.partition_meta", Path(), [Custom(SelfPF())])
    discharge_engine(eng, res, "ParquetFile.partition_meta.", timeout)
    for q in outs:
        v = q.ctl[1] if q.ctl[0] == "ret" else None
        h = v.h if isinstance(v, Custom) and isinstance(v.h, AbstractDict) else None
        ok = h is not None and z3.is_true(z3.simplify(h.guard)) and isinstance(h.coll, Custom) and isinstance(h.coll.h, MDList) \
            and h.coll.h.key == "partition_columns" and isinstance(h.coll.h.default, Tup) and not h.coll.h.default.items
        trace(res, "ParquetFile.partition_meta.one_entry_per_partition_columns_record", ok,
              "partition_meta has one entry for EVERY record of pandas_metadata['partition_columns'] ([] when the block is absent)")
        if not ok:
            continue
        k = text_of(h.key)
        okk = k is not None and k.eq(z3.String("column_metadata[field_name]")) and isinstance(h.val, Custom) and isinstance(h.val.h, ColMeta)
        trace(res, "ParquetFile.partition_meta.keyed_by_the_original_column_name", okk,
              "the key is the record's field_name (the ORIGINAL column name - the key paths_to_cats / read_row_group look up), the value the record itself")
        ctx.vacuity["covers"] += 1
    return res


def metadata_block_obligations(tree_w):
    """AST obligations on the writer: the partition_columns block carries one get_column_metadata record per partition column, and write()
    hands partition_on to make_metadata"""
    res = Results()
    fns = {n.name: n for n in tree_w.body if isinstance(n, ast.FunctionDef)}
    mm = fns.get("make_metadata")
    ok = False
    if mm is not None:
        for n in ast.walk(mm):
            if isinstance(n, ast.For) and isinstance(n.iter, ast.Name) and n.iter.id == "partition_cols" and isinstance(n.target, ast.Name) and len(n.body) == 1:
                t = n.target.id
                want = f"pandas_metadata['partition_columns'].append(get_column_metadata(data[{t}], {t}))"
                ok = ok or (isinstance(n.body[0], ast.Expr) and ast.unparse(n.body[0].value) == want)
    res.add("make_metadata.partition_columns_block_has_a_record_per_partition_column", PROVED if ok else REFUTED, None, 0.0, "ast",
            "for EVERY column of partition_cols: pandas_metadata['partition_columns'].append(get_column_metadata(data[column], column)) - the "
            "dtype of the ORIGINAL column under its original name (what val_from_meta needs to restore the value kind)")
    wr = fns.get("write")
    ok = False
    if wr is not None:
        for n in ast.walk(wr):
            if isinstance(n, ast.Call) and isinstance(n.func, ast.Name) and n.func.id == "make_metadata":
                kw = {k.arg: k.value for k in n.keywords}
                ok = ok or (isinstance(kw.get("partition_cols"), ast.Name) and kw["partition_cols"].id == "partition_on")
    res.add("write.make_metadata_gets_partition_on", PROVED if ok else REFUTED, None, 0.0, "ast",
            "write() builds the metadata with partition_cols=partition_on: every directory-partition column gets its partition_columns record")
    return res


def check(ctx, timeout, families=None):
    """`families`: run only the families whose name starts with one of these prefixes (None: all).  Every function family runs on its own: a construct the engine / a proof script does not model makes THAT family undecided
    (`<family>.out_of_reach`, UNKNOWN) and leaves the obligations of the other families in place"""
    out, mods = [], {}

    def mod(rel):
        if rel not in mods:
            try:
                mods[rel] = parse_module("fastparquet/" + rel)
            except Exception as ex:                # e.g. a syntax error in the current source
                mods[rel] = ex
        if isinstance(mods[rel], Exception):
            raise Unsupported(f"cannot parse fastparquet/{rel}: {mods[rel]}")
        return mods[rel]

    def fam(name, thunk, register=()):
        if families is not None and not any(name.startswith(x) for x in families):
            return

        def run():
            for rel, qn in register:
                fn = mod(rel)[0].get(qn)
                if fn is None:
                    raise Unsupported(f"{rel[:-3]}.{qn} no longer exists")
                ctx.function(f"{rel[:-3]}.{qn}", fn.sha, fn.report)
            return thunk()
        out.append(guard(name, run))

    def U():
        return mod("util.py")[0]

    def wfuncs():
        d = dict(mod("writer.py")[0])
        d["path_string"] = U()["path_string"]
        return d

    def afuncs():
        d = dict(mod("api.py")[0])
        d["_strip_path_tail"] = U()["_strip_path_tail"]
        return d
    fam("join_path", lambda: run_join_path(ctx, U(), timeout), [("util.py", "join_path")])
    for hive in (True, False):
        fam("partition_on_columns" + ("[hive]" if hive else "[drill]"), lambda hive=hive: run_partition_on_columns(ctx, wfuncs(), timeout, hive),
            [("writer.py", "partition_on_columns"), ("util.py", "path_string")])
    fam("val_to_num", lambda: run_value_kinds(ctx, U(), timeout), [("util.py", n) for n in ("val_from_meta", "val_to_num", "_val_to_num")])
    for written_as, with_meta, clean_, homog in (("hive", True, True, True), ("hive", False, True, True), ("hive", True, False, True),
                                                 ("drill", False, True, True), ("drill", False, True, False), ("drill", False, False, True)):
        tag = f"[{written_as} dataset, {'metadata' if with_meta else 'no metadata'}" + ("" if clean_ else ", any value text") + \
            ("" if with_meta or homog or not clean_ else ", levels may mix re-typable and plain text") + "]"
        fam("paths_to_cats" + tag, lambda a=(written_as, with_meta, clean_, homog): run_paths_to_cats(ctx, afuncs(), timeout, *a),
            [("api.py", "paths_to_cats"), ("api.py", "_path_to_cats"), ("util.py", "_strip_path_tail")])
    fam("strip_path_tail", lambda: run_strip_path_tail(ctx, U(), timeout))
    fam("ParquetFile.partition_meta", lambda: run_partition_meta(ctx, mod("api.py")[0], timeout), [("api.py", "ParquetFile.partition_meta")])
    fam("make_metadata", lambda: metadata_block_obligations(mod("writer.py")[1]), [("writer.py", "make_metadata")])
    fam("get_file_scheme", lambda: run_get_file_scheme(ctx, U(), timeout), [("util.py", "get_file_scheme")])
    for scheme, cats_meta, passed in (("hive", True, True), ("hive", True, False), ("hive", False, False), ("drill", False, False)):
        tag = f"[{scheme}" + (", partition_meta not passed" if cats_meta and not passed else "" if cats_meta else ", no metadata") + "]"
        fam("read_row_group" + tag, lambda a=(scheme, cats_meta, passed): run_read_row_group(ctx, mod("core.py")[0], timeout, *a),
            [("core.py", "read_row_group")])
    fam("ParquetFile.call_sites", lambda: call_site_obligations(ctx, mod("api.py")[1]),
        [("api.py", "ParquetFile." + n) for n in ("_read_partitions", "__init__", "to_pandas", "read_row_group_file")])
    # util.analyse_paths is under contract in contracts/c14_paths.py (wired into C08 and C14 through props/_analyse.py)
    return out


def guard(name, fn):
    """a function the engine cannot lower - or on which the proof script itself fails (a shape it does not model) - is out of reach for
    this run: ONE UNKNOWN obligation for that family, never a violation, never silence for the other families"""
    try:
        return fn()
    except Unsupported as ex:
        r = Results()
        r.add(name + ".out_of_reach", UNKNOWN, None, 0.0, "engine", str(ex))
        return r
    except Exception as ex:
        import traceback
        r = Results()
        where = [l.strip() for l in traceback.format_exc().splitlines() if l.strip().startswith("File")][-1:]
        r.add(name + ".out_of_reach", UNKNOWN, None, 0.0, "engine", f"{type(ex).__name__}: {ex} | {' '.join(where)}")
        return r


import re as _re

# obligation-name patterns refuted on the unchanged tree <-> recorded findings: (ids in order of preference, pattern).  The first id that
# is listed in KNOWN_FINDINGS.jsonl is used (the P-layer records of contracts/findings.jsonl; before they are merged, the bounded
# finding they re-derive).  Every pattern has a sibling obligation PROVED under the complementary precondition.
FID_P_BACKSLASH, FID_P_MIXED, FID_P_RT = "C08-P-backslash-level-altered", "C08-P-mixed-level-category-missing", "C08-P-roundtrip-tz-aware-and-categorical"
KNOWN = [
    ((FID_P_BACKSLASH, FID_BACKSLASH), _re.compile(r"^partition_on_columns\[(hive|drill)\]\.level_reaches_the_path_verbatim\[any legal directory name\]$")),
    ((FID_DOTDOT,), _re.compile(r"^partition_on_columns\[drill\]\.level_is_not_a_dot_segment\[any value text\]$")),
    ((FID_EQUALS,), _re.compile(r"^paths_to_cats\[hive dataset, metadata, any value text\]\.(scheme_detected_is_the_layout_written|does_not_raise)$")),
    ((FID_DRILL_AS_HIVE,), _re.compile(r"^paths_to_cats\[drill dataset, no metadata, any value text\]\.(scheme_detected_is_the_layout_written|does_not_raise)$")),
    ((FID_P_MIXED, FID_DRILL_MIXED), _re.compile(r"^paths_to_cats\[drill dataset, no metadata, levels may mix re-typable and plain text\]\.")),
    ((FID_NO_META,), _re.compile(r"^(ParquetFile\.__init__\.paths_to_cats_gets_the_partition_metadata|ParquetFile\.read_row_group_file\."
                                 r"default_is_the_datasets_partition_metadata|read_row_group\[hive, partition_meta not passed\]\.(category_found|does_not_raise)|"
                                 r"val_to_num\.text_stays_text\[no metadata, any text\])$")),
    ((FID_SCHEME,), _re.compile(r"^get_file_scheme\.hive_only_if_all_paths_have_the_same_keys_in_the_same_order$")),
    ((FID_P_RT, "C08-tz-aware-timestamp-partition-unreadable"), _re.compile(r"^val_(from_meta|to_num)\.roundtrip\[timestamp tz-aware\]$")),
    ((FID_P_RT, "C08-categorical-nontext-partition-kind-lost"), _re.compile(r"^val_(from_meta|to_num)\.roundtrip\[categorical of ints\]$")),
]

ASSUMED = [
    "C08 texts: str.replace('\\\\','/') / rstrip('/') / lstrip / strip are uninterpreted functions with these facts (instantiated per application): "
    "replace keeps the length, leaves no backslash, is the identity without backslash, turns a backslash into '/', keeps a leading '/' and the "
    "presence of '=' ; rstrip('/') returns a prefix that does not end with '/', is the identity when the text does not end with '/', keeps a "
    "leading '/' of a non-empty result and keeps '='.  One-character Contains / first / last character of a concatenation are THEOREMS used as hints",
    "str.split(sep) (one-character sep): at least one piece; exactly one iff sep does not occur; the first piece has no sep and is a prefix; "
    "for s == a + sep + b with no sep in a the pieces are a followed by the pieces of b.  rsplit('/', 1)[0] of a text with '/' is the text "
    "before the last '/', whose '/'-pieces are all but the last piece.  The directory LEVELS of a relative path are by definition these pieces; "
    "'/'.join(xs).split('/') == xs when no x contains '/' (join_path's result has the kept components as its levels)",
    "str(s) is s for a str; '%s' % x == str(x), '%s=%s' % (a, b) == str(a) + '=' + str(b); an f-string concatenates the same texts; "
    "'%i' % n / f'{n}' is the decimal text of n: injective, without '=' and '/'",
    "pandas: DataFrame.groupby(by, observed=False) with dropna at its default drops every row that has a null in a grouping key; the groups "
    "partition the remaining rows; each group's frame has the rows of the frame with exactly that key combination (all columns); the key is a "
    "scalar for a single label and a tuple with one element per label, in label order, for a list of labels; sorted(gb) yields each "
    "(key, group) once; unobserved category combinations give EMPTY groups; frame[list of labels] keeps all rows and exactly those columns; "
    "list(frame) is the list of its (distinct) column labels; list.remove(x) removes the first element equal to x (ValueError if absent); "
    "gb.groups maps each key to the INDEX LABELS of the group's rows and frame.loc[labels] returns every row whose index label is among them "
    "(once per occurrence) - the group's rows only if index labels are unique, which NO precondition of partition_on_columns states",
    "writer.make_part_file(f, df, ...) writes only to f, returns None iff df has no rows, else ONE row group describing exactly df's rows "
    "(covered by C02/C01); open_with / mkdirs are the only other I/O of partition_on_columns; write_multi passes partname = 'part.%i.parquet' "
    "(non-empty, no separator) - contracts/c07_parts.py",
    "ORACLE for 'the directory named by its key values': a text NAMES a value when parsing it by the value's kind gives the value back; "
    "str(v) names v for int / float / bool / text / Timestamp values and v.isoformat() names a tz-naive Timestamp (Python / pandas)",
    "numpy / Python parsers on the writer's texts (validated natively by tools/c08native.py, not proved): np.int64(str(i)) == i, np.float64(str(f)) == f, "
    "np.datetime64(ts.isoformat()) is the same instant, np.str_(x) == x and np.object_(x) is x for every text, np.dtype(name).type produces a "
    "value of its own kind, np.dtype('datetime64[us, UTC]') raises TypeError; int()/float()/pd.Timestamp() accept exactly their own str() forms "
    "among the writer's texts: str(float) is never accepted by int(), an ISO timestamp by neither int() nor float(); str(True/False) is "
    "'True'/'False'; none of these texts is 'now','NOW','TODAY','' or lower-cases to 'nan' (null keys are outside the property); functools.lru_cache is transparent",
    "util.get_column_metadata writes (pandas_type, numpy_type) = int64:(int64,int64) float64:(float64,float64) bool:(bool,bool) "
    "datetime64[ns]:(datetime,datetime64[ns]) str:(unicode,str) object:(unicode,object) categorical:(categorical,<codes dtype>) tz-aware:"
    "(datetimetz,'datetime64[us, UTC]') - table checked against the real function by tools/c08native.py",
    "values compare by == / hash as Python does: values of different kinds (int / bool / text / float / timestamp) are different values; "
    "set / OrderedDict: membership by ==, OrderedDict keeps first-insertion order, iterating the same unmodified set twice gives the same order; "
    "list.index(x) returns a position holding an element == x (ValueError if none); zip pairs positions; sorted/enumerate as documented",
    "read side scenarios: every file of the dataset sits at the same depth D >= 1 and level i of every path is name_i=text (hive) / text (drill) "
    "with distinct, non-empty column names without '=' - this is exactly what partition_on_columns[...] establishes for the writer (one arbitrary "
    "group, names/texts without backslash); the part file name is not itself 'name=...' with name a partition column; the paths are texts "
    "(multi-file dataset: no None file_path); val_to_num is used through its lemmas (cuts): text-like metadata returns the text and never "
    "raises, non-text metadata never returns a str, the writer's texts parse under their column's metadata (roundtrip lemmas), no metadata never raises",
    "str.split(sep, 1) for a non-empty sep: [s] when sep does not occur, else [text before the FIRST occurrence, text after it] (first: sep does "
    "not occur in before + sep-without-its-last-character); s[k] is the one-character text at k; int('%i' % n) == n.  Positional detail of "
    "split('/') (added only when the code searches the path text itself): level i sits between what precedes it (empty for i == 0, else ending "
    "with '/') and '/' + the rest; names and value texts contain no '/'.  Bounded instantiation (only after the general query is UNDECIDED, only "
    "to find a counter-model, never to prove): two directory levels, names from {a, b, ab, ba, aa}, the text functions evaluated with their "
    "Python meaning on the literals",
    "util.ex_from_sep('/') is re.compile('([a-zA-Z_0-9]+)=([^/]+)'); findall on a '/'-separated text yields, per level k=v (k without '='), "
    "the pair (longest suffix of k made of ASCII word characters - it must be non-empty -, everything after that '=' up to the next '/' - "
    "non-empty); that suffix is k itself exactly when k is a non-empty word.  No obligation assumes that column names are words",
    "loop exits: a loop that completed did not raise in any iteration; raising paths of the body whose branch conditions do not depend on the "
    "loop-carried state are excluded at the exit for the witness member (universal fact instantiated at the witness)",
]
