"""C08 - directory-partitioned write / read: write-side path construction and read-side path parsing under contract.
Every function is taken from /repo's current source on every run (vc.front_py.parse_module) and executed symbolically.

Texts are z3 String terms built from uninterpreted text functions (STR(v) = str(v), ISO(v) = v.isoformat(), NAME(i) = i-th partition
column, LEVEL(j, i) = i-th directory level of the relative path of row group j ...).  str.replace / rstrip / split are NOT given to
the solver's string theory (unstable: `clean(c) => c.replace('\\\\','/').rstrip('/') == c` was `unknown` after 10 s with the regex
formulation); they are uninterpreted functions with stated algebraic facts (ASSUMED, instantiated per application) - every query is
quantifier-free and takes milliseconds.

  util.join_path                         join_path.* : '/'.join over EXACTLY the truthy components, each normalised by
                                         str(.).replace('\\\\','/').rstrip('/'); clean components verbatim; a leading '/' survives; a
                                         component with a backslash is altered (root cause of the known finding C08-backslash-...)
  writer.partition_on_columns            partition_on_columns[hive|drill].* : ONE ARBITRARY group of the group-by loop (everything the
                                         body assigns is havoc'd): directory = levels name_i=text(val_i) (hive) / text(val_i) (drill) in
                                         partition-column order, one file per non-empty group opened 'wb' at root/dir/partname after
                                         mkdirs(root/dir), exactly the group's rows minus the partition columns go into it, the row group
                                         is appended once with file_path = dir/partname on every chunk == where the reader will look
  util.path_string / val_from_meta /     value-kind lemmas  val_from_meta(path_string(v), metadata of v's column) == v  for int / float /
  val_to_num / _val_to_num               bool / timestamp / text, and what happens WITHOUT metadata (numeric-looking text is re-typed)
  api._strip_path_tail / paths_to_cats / one arbitrary path, one arbitrary level: scheme detection, keys in directory order, the value text,
  _path_to_cats                          one category per directory value, agreement with what core.read_row_group looks up
  core.read_row_group (partition block)  one arbitrary row group: key / value from THIS row group's file_path, index into cats[name]
  util.get_file_scheme                   'hive' iff every directory level of every path has an interior '=' ...
  util.analyse_paths                     root given: relative paths; root=False: out of reach (nested zip/enumerate/break invariant)
"""
import ast
import itertools
import time

import z3

from vc import backends
from vc.front_py import parse_module
from vc.symexec import (Engine, Path, Custom, Opaque, Str, PyB, PyI, NONE, NoneV, Unsupported, Tup, Opt, AbstractComp)
from vlib.common import PROVED, REFUTED, UNKNOWN
from .util import Results, solve

I, B, S = z3.IntSort(), z3.BoolSort(), z3.StringSort()
VAL = z3.DeclareSort("PyValue")                      # a partition key value / a parsed value (compared with ==)

FID_BACKSLASH = "C08-backslash-in-partition-value"                      # bounded finding, re-derived here
FID_DRILL_MIXED = "C08-drill-level-mixing-retypable-and-plain-text"     # bounded finding, re-derived here
FID_EQUALS = "C08-P-equals-sign-in-partition-text"
FID_DRILL_AS_HIVE = "C08-P-drill-levels-with-equals-read-as-hive"
FID_DOTDOT = "C08-P-drill-dot-segments-escape-root"
FID_NO_META = "C08-P-single-file-root-ignores-partition-metadata"
FID_SCHEME = "C08-P-get-file-scheme-does-not-compare-keys"


def sv(s):
    return z3.StringVal(s)


BS, SL, EQ = sv("\\"), sv("/"), sv("=")

# ---- uninterpreted text functions + their ASSUMED algebraic facts ---------------------------------------------------------------
REPL = z3.Function("replace_backslash_by_slash", S, S)       # s.replace('\\', '/')
RSTRIP = z3.Function("rstrip_slash", S, S)                   # s.rstrip('/')
LSTRIP = z3.Function("lstrip_slash", S, S)
STRIP = z3.Function("strip_slash", S, S)
LOWER = z3.Function("lower", S, S)
STR = z3.Function("str_of_value", VAL, S)                    # str(v) == '%s' % v
ISO = z3.Function("isoformat_of_value", VAL, S)              # v.isoformat()
TEXTVAL = z3.Function("value_of_text_key", S, VAL)           # the Python str object with this text, as a key value
KIND = z3.Function("kind_of_value", VAL, I)
NAMES_VALUE = z3.Function("text_names_value", S, VAL, B)     # ORACLE: parsing the text by the kind of v gives v
K_INT, K_FLOAT, K_BOOL, K_TS, K_TEXT, K_CAT = range(6)
KINDS = {K_INT: "int", K_FLOAT: "float", K_BOOL: "bool", K_TS: "timestamp", K_TEXT: "text"}


def repl_facts(s):
    r = REPL(s)
    return [z3.Length(r) == z3.Length(s), z3.Not(z3.Contains(r, BS)), z3.Implies(z3.Not(z3.Contains(s, BS)), r == s),
            z3.Implies(z3.Contains(s, BS), z3.Contains(r, SL)), z3.Implies(z3.PrefixOf(SL, s), z3.PrefixOf(SL, r)),
            z3.Contains(r, EQ) == z3.Contains(s, EQ), z3.Implies(z3.Contains(s, SL), z3.Contains(r, SL)),
            z3.Implies(z3.And(z3.Not(z3.Contains(s, SL)), z3.Not(z3.Contains(s, BS))), z3.Not(z3.Contains(r, SL)))]


def rstrip_facts(s):
    r = RSTRIP(s)
    return [z3.PrefixOf(r, s), z3.Not(z3.SuffixOf(SL, r)), z3.Implies(z3.Not(z3.SuffixOf(SL, s)), r == s),
            z3.Implies(z3.Not(z3.Contains(s, BS)), z3.Not(z3.Contains(r, BS))),
            z3.Implies(z3.Not(z3.Contains(s, SL)), z3.Not(z3.Contains(r, SL))),
            z3.Implies(z3.And(z3.PrefixOf(SL, s), z3.Length(r) > 0), z3.PrefixOf(SL, r)),
            z3.Implies(z3.Contains(s, EQ), z3.And(z3.Contains(r, EQ), z3.Length(r) > 0))]


def lstrip_facts(s):
    r = LSTRIP(s)
    return [z3.SuffixOf(r, s), z3.Not(z3.PrefixOf(SL, r)), z3.Implies(z3.Not(z3.PrefixOf(SL, s)), r == s),
            z3.Implies(z3.PrefixOf(SL, s), z3.Length(r) < z3.Length(s))]


def strip_facts(s):
    r = STRIP(s)
    return [z3.Contains(s, r), z3.Not(z3.PrefixOf(SL, r)), z3.Not(z3.SuffixOf(SL, r)),
            z3.Implies(z3.And(z3.Not(z3.PrefixOf(SL, s)), z3.Not(z3.SuffixOf(SL, s))), r == s),
            z3.Implies(z3.PrefixOf(SL, s), z3.Length(r) < z3.Length(s))]


def clean(c):
    """a path component that join_path must leave alone: no backslash, no trailing '/'"""
    return z3.And(z3.Not(z3.Contains(c, BS)), z3.Not(z3.SuffixOf(SL, c)))


def segment(c):
    """a legal single directory / file name: non-empty, no '/', not '.' / '..'"""
    return z3.And(z3.Length(c) > 0, z3.Not(z3.Contains(c, SL)), c != sv("."), c != sv(".."))


# ---- values of the proof scripts --------------------------------------------------------------------------------------------------
class TextV:
    """a Python str whose content is the z3 String term z"""
    tracked = False

    def __init__(self, z):
        self.z = z

    def truth(self, eng, p):
        return z3.Length(self.z) > 0

    def is_none(self, eng, p):
        return z3.BoolVal(False)

    def len(self, eng, p):
        return PyI(z3.Length(self.z))

    def eq(self, eng, p, other):
        z = text_of(other)
        if z is not None:
            return self.z == z
        if isinstance(other, Opt):
            return z3.And(z3.Not(other.isnone), self.eq(eng, p, other.val))
        return z3.BoolVal(False)            # a str never equals True / 1 / None / a non-str object

    def contains(self, eng, p, item):
        z = text_of(item)
        if z is None:
            raise Unsupported("`in` on a str with a non-str left operand")
        return z3.Contains(self.z, z)

    def isinstance(self, eng, p, tn):
        return z3.BoolVal(tn in ("str", "(str, bytes)", "(bytes, str)"))

    def slice(self, eng, p, lo, hi, node):
        n = z3.Length(self.z)

        def idx(v, dflt):
            if v is None:
                return dflt
            k = eng.as_int(v)
            ks = z3.simplify(k)
            if z3.is_int_value(ks) and ks.as_long() < 0:
                return z3.If(n + ks < 0, 0, n + ks)
            return z3.If(k > n, n, k)
        a, b = idx(lo, z3.IntVal(0)), idx(hi, n)
        return Custom(TextV(z3.SubString(self.z, a, z3.If(b > a, b - a, 0))))

    def binop(self, eng, p, op, b, node):
        z = text_of(b)
        if isinstance(op, ast.Add) and z is not None:
            return Custom(TextV(z3.Concat(self.z, z)))
        raise Unsupported("str " + type(op).__name__)

    def call_method(self, eng, p, name, args, kw, node):
        a = [text_of(x) for x in args]
        lit = [x.s if isinstance(x, Str) else None for x in args]
        if name == "replace" and lit == ["\\", "/"]:
            p.axioms += repl_facts(self.z)
            return [(p, Custom(TextV(REPL(self.z))))]
        if name in ("rstrip", "lstrip", "strip") and lit == ["/"]:
            fn, facts = {"rstrip": (RSTRIP, rstrip_facts), "lstrip": (LSTRIP, lstrip_facts), "strip": (STRIP, strip_facts)}[name]
            p.axioms += facts(self.z)
            return [(p, Custom(TextV(fn(self.z))))]
        if name == "lower" and not args:
            return [(p, Custom(TextV(LOWER(self.z))))]
        if name == "split" and len(args) == 1 and lit[0] is not None and len(lit[0]) == 1:
            return [(p, Custom(SplitV(self.z, lit[0])))]
        if name == "rsplit" and len(args) == 2 and lit[0] == "/" and _const(eng, args[1]) == 1:
            return [(p, Custom(RSplit1V(self.z)))]
        if name == "join" and len(args) == 1:
            return [(p, join_value(eng, p, self.z, args[0]))]
        if name == "startswith" and a and a[0] is not None:
            return [(p, PyB(z3.PrefixOf(a[0], self.z)))]
        if name == "endswith" and a and a[0] is not None:
            return [(p, PyB(z3.SuffixOf(a[0], self.z)))]
        fn = z3.Function(f"str.{name}({','.join(repr(x) for x in lit)})", S, S)
        return [(p, Custom(TextV(fn(self.z))))]          # an unknown str -> str method: uninterpreted, no facts


def text_of(v):
    if isinstance(v, Str):
        return sv(v.s)
    if isinstance(v, Custom) and isinstance(v.h, TextV):
        return v.h.z
    return None


def _const(eng, v):
    try:
        s = z3.simplify(eng.as_int(v))
    except Unsupported:
        return None
    return s.as_long() if z3.is_int_value(s) else None


# '/'-pieces and '='-pieces of a text (ASSUMED str.split contract, instantiated per use)
NPIECES = {"/": z3.Function("number_of_slash_pieces", S, I), "=": z3.Function("number_of_equals_pieces", S, I)}
PIECE = {"/": z3.Function("slash_piece", S, I, S), "=": z3.Function("equals_piece", S, I, S)}


def split_facts(z, sep):
    n, c = NPIECES[sep](z), sv(sep)
    return [n >= 1, (n == 1) == z3.Not(z3.Contains(z, c)), z3.Implies(n == 1, PIECE[sep](z, 0) == z),
            z3.Not(z3.Contains(PIECE[sep](z, 0), c)), z3.PrefixOf(PIECE[sep](z, 0), z)]


def split2_facts(z, sep, a, b):
    """z == a + sep + b with no separator in a: the first piece is a, the others are the pieces of b"""
    c = sv(sep)
    return [z3.Implies(z3.And(z == z3.Concat(a, c, b), z3.Not(z3.Contains(a, c))),
                       z3.And(PIECE[sep](z, 0) == a, NPIECES[sep](z) == 1 + NPIECES[sep](b),
                              z3.Implies(z3.Not(z3.Contains(b, c)), PIECE[sep](z, 1) == b)))] + split_facts(b, sep)


class SplitV:
    """s.split(sep): a list of NPIECES(s) >= 1 texts"""
    tracked = False

    def __init__(self, z, sep, lo=0, drop_last=0):
        self.z, self.sep, self.lo, self.drop_last = z, sep, lo, drop_last

    def n(self):
        return NPIECES[self.sep](self.z) - self.lo - self.drop_last

    def len(self, eng, p):
        p.axioms += split_facts(self.z, self.sep)
        return PyI(self.n())

    def truth(self, eng, p):
        p.axioms += split_facts(self.z, self.sep)
        return self.n() > 0

    def at(self, eng, p, k):
        p.axioms += split_facts(self.z, self.sep)
        return Custom(TextV(PIECE[self.sep](self.z, k + self.lo)))

    def getitem(self, eng, p, i, node):
        k = eng.as_int(i)
        ks = z3.simplify(k)
        if z3.is_int_value(ks) and ks.as_long() < 0:
            k = self.n() + ks
        eng.oblige(p, f"{eng.cur_func}.split_index_in_range@L{getattr(node, 'lineno', 0)}", "safety", z3.And(0 <= k, k < self.n()), node)
        return self.at(eng, p, k)

    def slice(self, eng, p, lo, hi, node):
        a = _const(eng, lo) if lo is not None else 0
        b = _const(eng, hi) if hi is not None else 0
        if a is None or b is None or a < 0 or b > 0:
            raise Unsupported("slice of a split result")
        return Custom(SplitV(self.z, self.sep, self.lo + a, self.drop_last - b))

    def unpack2(self, eng, p):
        """`key, val = <this>`: exactly two pieces, else ValueError"""
        p.axioms += split_facts(self.z, self.sep)
        ok, bad = p.fork(self.n() == 2), p.fork(self.n() != 2)
        out = []
        if eng.feasible(ok):
            out.append((ok, [self.at(eng, ok, z3.IntVal(0)), self.at(eng, ok, z3.IntVal(1))]))
        if eng.feasible(bad):
            bad.ctl = ("raise", "ValueError")
            bad.trace.append(("raise", 0))
            out.append((bad, None))
        return out

    def index_set(self, eng, p):
        i = p.ghost.get("witness:" + self.sep)
        if i is None:
            i = eng.fresh_int("piece_i")
        p.pc += [0 <= i, i < self.n()]
        return i

    def arbitrary(self, eng, p):
        return self.at(eng, p, self.index_set(eng, p))

    def enumerate(self, eng, p):
        return Custom(EnumV(self))

    def nonempty(self, eng, p):
        return self.truth(eng, p)


class EnumV:
    tracked = False

    def __init__(self, seq):
        self.seq = seq

    def arbitrary(self, eng, p):
        i = self.seq.index_set(eng, p)
        return Tup([PyI(i), self.seq.at(eng, p, i)])

    def nonempty(self, eng, p):
        return self.seq.truth(eng, p)

    def len(self, eng, p):
        return self.seq.len(eng, p)


class RSplit1V:
    """s.rsplit('/', 1) of a text that contains '/': [everything before the last '/', the last piece]"""
    tracked = False

    def __init__(self, z):
        self.z = z

    def getitem(self, eng, p, i, node):
        k = _const(eng, i)
        eng.oblige(p, f"{eng.cur_func}.rsplit_on_text_with_separator", "safety", z3.Contains(self.z, SL), node,
                   note="rsplit('/', 1)[0] is the directory only when the path contains '/'")
        if k == 0:
            p.axioms += dirname_facts(self.z)
            return Custom(TextV(DIRNAME(self.z)))
        if k in (1, -1):
            p.axioms += split_facts(self.z, "/")
            return Custom(TextV(PIECE["/"](self.z, NPIECES["/"](self.z) - 1)))
        raise Unsupported("rsplit index")


DIRNAME = z3.Function("text_before_last_slash", S, S)


def dirname_facts(z):
    """ASSUMED str.rsplit('/', 1)[0] for a text with a '/': the '/'-pieces of the result are all but the last piece of the text"""
    d = DIRNAME(z)
    return [z3.Implies(z3.Contains(z, SL), z3.And(NPIECES["/"](d) == NPIECES["/"](z) - 1, z3.PrefixOf(d, z), z3.Length(d) < z3.Length(z)))] \
        + split_facts(z, "/") + split_facts(d, "/")


def dirname_piece_fact(z, k):
    return z3.Implies(z3.And(z3.Contains(z, SL), 0 <= k, k < NPIECES["/"](z) - 1), PIECE["/"](DIRNAME(z), k) == PIECE["/"](z, k))


class JoinedV(TextV):
    """sep.join(<comprehension over an abstract collection>): its content is an uninterpreted text; what is known about it is
    the comprehension (kept for the trace obligations)"""

    def __init__(self, z, sep, comp):
        TextV.__init__(self, z)
        self.sep, self.comp = sep, comp


JOINED = z3.Function("joined_text", I, S)


def join_value(eng, p, sepz, arg):
    if isinstance(arg, Tup):
        zs = [text_of(x) for x in arg.items]
        if any(x is None for x in zs):
            raise Unsupported("join of non-texts")
        out = []
        for k, x in enumerate(zs):
            out += ([sepz] if k else []) + [x]
        return Custom(TextV(z3.Concat(*out) if len(out) > 1 else (out[0] if out else sv(""))))
    if isinstance(arg, Custom) and isinstance(arg.h, (AbstractComp, SplitV)):
        return Custom(JoinedV(JOINED(next(eng.counter)), sepz, arg))
    raise Unsupported("join of " + type(getattr(arg, "h", arg)).__name__)


class StarArgs:
    """f(*xs) with xs an abstract collection"""
    tracked = False

    def __init__(self, v):
        self.v = v


class DictLit:
    tracked = False

    def __init__(self, d):
        self.d = d

    def truth(self, eng, p):
        return z3.BoolVal(bool(self.d))

    def getitem(self, eng, p, i, node):
        if isinstance(i, Str) and i.s in self.d:
            return self.d[i.s]
        raise Unsupported("dict literal lookup")

    def call_method(self, eng, p, name, args, kw, node):
        if name == "get" and not self.d:
            return [(p, args[1] if len(args) > 1 else NONE)]
        raise Unsupported("dict literal." + name)


class Eng(Engine):
    """engine extensions used by all runs of this module"""

    def ev_args(self, e, p):
        if not any(isinstance(a, ast.Starred) for a in e.args):
            return super().ev_args(e, p)
        acc = [(p, [])]
        for a in e.args:
            nxt = []
            for q, vs in acc:
                if isinstance(a, ast.Starred):
                    for r, v in self.ev(a.value, q):
                        if isinstance(v, (Tup, Custom)):
                            nxt.append((r, vs + [Custom(StarArgs(v))]))
                        else:
                            raise Unsupported("*args of " + type(v).__name__)
                else:
                    nxt += [(r, vs + [v]) for r, v in self.ev(a, q)]
            acc = nxt
        out = []
        for q, args in acc:
            a2 = [(q, {})]
            for k in e.keywords:
                if k.arg is None:
                    raise Unsupported("**kwargs call")
                a2 = [(r, dict(d, **{k.arg: v})) for q2, d in a2 for r, v in self.ev(k.value, q2)]
            out += [(r, (args, d)) for r, d in a2]
        return out

    def e_JoinedStr(self, e, p):
        parts = []
        for v in e.values:
            if isinstance(v, ast.Constant):
                parts.append(sv(v.value))
            else:
                x = self.ev1(v.value, p)
                z = text_of(x)
                if z is None and isinstance(x, (PyI, PyB)):
                    z = z3.IntToStr(self.as_int(x))           # decimal text of a non-negative int (positions)
                if z is None and isinstance(x, Custom) and hasattr(x.h, "as_text"):
                    z = x.h.as_text(self, p)
                if z is None:
                    return [(p, Opaque(("fstring", next(self.counter))))]
                parts.append(z)
        return [(p, Custom(TextV(z3.Concat(*parts) if len(parts) > 1 else parts[0])))]

    def getattr(self, o, attr, p, node):
        if isinstance(o, Str):
            return Custom(BoundStr(o.s, attr))
        return super().getattr(o, attr, p, node)

    def e_Call(self, e, p):
        fn = e.func
        if isinstance(fn, ast.Name) and fn.id in p.env and ("var:" + fn.id) in self.handlers:
            out = []
            for q, (args, kw) in self.ev_args(e, p):
                out += self.handlers["var:" + fn.id](self, q, [q.env[fn.id]] + args, kw, e)
            return out
        if isinstance(fn, ast.Attribute) and isinstance(fn.value, ast.Constant) and isinstance(fn.value.value, str):
            out = []
            for q, (args, kw) in self.ev_args(e, p):
                out += TextV(sv(fn.value.value)).call_method(self, q, fn.attr, args, kw, e)
            return out
        return super().e_Call(e, p)

    def e_Dict(self, e, p):
        if all(isinstance(k, ast.Constant) and isinstance(k.value, str) for k in e.keys):
            d = {}
            for k, v in zip(e.keys, e.values):
                d[k.value] = self.ev1(v, p)
            return [(p, Custom(DictLit(d)))]
        return super().e_Dict(e, p)

    def s_Return(self, st, p):
        outs = super().s_Return(st, p)
        for q in outs:
            pend = q.ghost.pop("pending_raise", None)
            if pend is not None:
                q.ctl = pend
        return outs

    def call_named(self, name, selfobj, e, p):
        out = super().call_named(name, selfobj, e, p)
        for q, v in out:
            if isinstance(q.ctl, tuple) and q.ctl[0] == "raise":
                q.ghost["pending_raise"] = q.ctl        # s_Return must not turn an exception of an inlined callee into a value
        return out

    def assign(self, t, v, p):
        if isinstance(t, (ast.Tuple, ast.List)) and len(t.elts) == 2 and isinstance(v, Custom) and isinstance(v.h, SplitV):
            outs = []
            for q, items in v.h.unpack2(self, p):
                if items is None:
                    outs.append(q)
                    continue
                qs = [q]
                for tt, vv in zip(t.elts, items):
                    qs = [r2 for r in qs for r2 in Engine.assign(self, tt, vv, r)]
                outs += qs
            return outs
        return super().assign(t, v, p)

    def unpack(self, v, n, p):
        if isinstance(v, Custom) and isinstance(v.h, SplitV):
            raise Unsupported("unpacking a split result of unknown length outside a 2-target assignment")
        return super().unpack(v, n, p)


class BoundStr:
    """'lit'.method"""
    tracked = False

    def __init__(self, s, name):
        self.s, self.name = s, name


def effects(p):
    return p.ghost.setdefault("effects", [])


def raised(p, name):
    p.ctl = ("raise", name)
    p.trace.append(("raise", 0))
    p.ghost["pending_raise"] = p.ctl
    return [(p, Opaque("raised"))]


def mval(m, t):
    try:
        v = m.eval(t, model_completion=True)
        if z3.is_string_value(v):
            return v.as_string()
        return backends.model_value(m, t)
    except Exception:
        return None


def discharge_engine(eng, res, prefix, timeout, model_terms=()):
    for ob in eng.oblig:
        st, be, secs, m = backends.discharge(ob, timeout)
        nm = ob.name if ob.name.startswith(prefix) else prefix + ob.name.split(".", 1)[-1]
        mdl = None
        if m is not None:
            mdl = {str(t)[:60]: mval(m, t) for t in model_terms} or {"z3_model": str(m)[:400]}
        res.add(nm, st, mdl, secs, be, ob.note or ob.kind)
    eng.oblig = []


def pose(res, timeout, name, q, hyps, goal, detail, model_terms=(), extra_axioms=()):
    st, m, secs = solve(list(q.pc) + list(q.axioms) + list(extra_axioms) + list(hyps) + [z3.Not(goal)], timeout)
    mdl = None
    if m is not None:
        mdl = {str(t)[:70]: mval(m, t) for t in model_terms} or {"z3_model": str(m)[:300]}
    res.add(name, st, mdl, secs, "z3", detail)
    return st


def auto_facts(fs):
    """ASSUMED facts of str.replace / rstrip / ... instantiated for every application that occurs (closed under the facts' own terms)"""
    table = {"replace_backslash_by_slash": repl_facts, "rstrip_slash": rstrip_facts, "lstrip_slash": lstrip_facts, "strip_slash": strip_facts}
    seen, out, work = set(), [], list(fs)
    while work:
        t = work.pop()
        if t.get_id() in seen:
            continue
        seen.add(t.get_id())
        if z3.is_app(t):
            fn = table.get(t.decl().name())
            if fn is not None:
                new = fn(t.arg(0))
                out += new
                work += new
            work += t.children()
    return out


def pose_s(res, timeout, name, hyps, goal, detail, model_terms=()):
    """a text lemma: hypotheses + the ASSUMED facts of every str.replace / rstrip application in it"""
    cs = list(hyps) + [z3.Not(goal)]
    st, m, secs = solve(cs + auto_facts(cs), timeout)
    mdl = None
    if m is not None:
        mdl = {str(t)[:70]: mval(m, t) for t in model_terms} or {"z3_model": str(m)[:300]}
    res.add(name, st, mdl, secs, "z3", detail)
    return st


def trace(res, name, ok, detail, info=None):
    res.add(name, PROVED if ok else REFUTED, None if ok else (info or {}), 0.0, "trace", detail)
    return ok


def _names(t):
    return {n.id for n in ast.walk(t) if isinstance(n, ast.Name)}


def _stored(stmts):
    out = set()
    for nd in ast.walk(ast.Module(body=list(stmts), type_ignores=[])):
        if isinstance(nd, ast.Name) and isinstance(nd.ctx, ast.Store):
            out.add(nd.id)
    return out


# =================================================================================================================================
#  util.join_path
# =================================================================================================================================
class CompArg:
    """one arbitrary member of join_path's *path: None or a str with content c"""
    IS_NONE, C = z3.Bool("component_is_None"), z3.String("component")


class PathArgs:
    tracked = False

    def arbitrary(self, eng, p):
        return Opt(CompArg.IS_NONE, Custom(TextV(CompArg.C)))

    def nonempty(self, eng, p):
        return z3.Bool("has_components")


def h_str(eng, p, args, kw, node):
    """ASSUMED: str(s) is s for a str; str(v) for a key value is the text STR(v)"""
    v = args[0]
    if isinstance(v, Opt):                   # reached only under `if p` (not None)
        v = v.val
    if text_of(v) is not None:
        return [(p, Custom(TextV(text_of(v))))]
    if isinstance(v, Custom) and hasattr(v.h, "as_text"):
        return [(p, Custom(TextV(v.h.as_text(eng, p))))]
    raise Unsupported("str() of " + type(getattr(v, "h", v)).__name__)


def norm(c):
    return RSTRIP(REPL(c))


def norm_facts(c):
    return repl_facts(c) + rstrip_facts(REPL(c))


def run_join_path(ctx, funcs, timeout):
    res = Results()
    eng = Eng(funcs=funcs, handlers={"str": h_str}, opaque_calls=True)
    p = Path()
    args = Custom(PathArgs())
    p.env["__star__"] = args
    f = funcs["join_path"]
    if not (f.tree.args.vararg and not f.tree.args.args):
        raise Unsupported("join_path no longer takes *path only")
    # bind *path by hand (the engine binds positional parameters only)
    eng.cur_func = "join_path"
    p.stack.append((p.env, p.types))
    p.env, p.types = {f.tree.args.vararg.arg: args}, {}
    outs = eng.block(f.tree.body, [p])
    discharge_engine(eng, res, "join_path.", timeout)
    rets = [q for q in outs if isinstance(q.ctl, tuple) and q.ctl[0] == "ret"]
    if len(rets) != 1 or len(outs) != 1:
        res.add("join_path.out_of_reach", UNKNOWN, None, 0.0, "engine", "join_path is no longer a single expression over its components")
        return res
    q = rets[0]
    v = q.ctl[1]
    h = v.h if isinstance(v, Custom) else None
    ok = isinstance(h, JoinedV) and z3.simplify(h.sep).eq(SL) and isinstance(h.comp, Custom) and isinstance(h.comp.h, AbstractComp) \
        and h.comp.h.coll is args
    trace(res, "join_path.is_slash_join_over_all_components", ok,
          "the result is '/'.join(<one text per kept component>), the comprehension ranging over ALL of *path in order", {"result": type(h).__name__})
    if not ok:
        return res
    comp = h.comp.h
    elt = text_of(comp.elt)
    if elt is None:
        res.add("join_path.out_of_reach", UNKNOWN, None, 0.0, "engine", "the joined element is not a text")
        return res
    C, NONE_ = CompArg.C, CompArg.IS_NONE
    terms = (C, elt, NONE_)
    pose(res, timeout, "join_path.keeps_exactly_the_non_empty_components", q, [], comp.guard == z3.And(z3.Not(NONE_), z3.Length(C) > 0),
         "a component contributes iff it is neither None nor '' (so an absent partition directory / an empty root adds no '/')", terms)
    pose(res, timeout, "join_path.clean_component_verbatim", q, [z3.Not(NONE_), clean(C)], elt == C,
         "a component without backslash and without trailing '/' is joined unchanged (name=text levels, part.N.parquet)", terms)
    pose(res, timeout, "join_path.leading_slash_kept", q, [z3.Not(NONE_), z3.PrefixOf(SL, C), z3.Not(z3.Contains(C, BS)),
                                                           z3.Length(RSTRIP(C)) > 0], z3.PrefixOf(SL, elt),
         "an absolute root keeps its leading '/' (only trailing separators are dropped)", terms)
    pose(res, timeout, "join_path.trailing_separator_dropped", q, [z3.Not(NONE_)], z3.Not(z3.SuffixOf(SL, elt)),
         "no joined component ends with '/': root 'dir/' and 'dir' give the same paths, and no '//' arises from a trailing separator", terms)
    pose(res, timeout, "join_path.no_backslash_in_result_component", q, [z3.Not(NONE_)], z3.Not(z3.Contains(elt, BS)),
         "separators are normalised: every backslash of a component has become '/'", terms)
    pose(res, timeout, "join_path.component_is_normalised_text", q, [z3.Not(NONE_)], elt == norm(C),
         "each kept component contributes exactly str(p).replace('\\\\', '/').rstrip('/')", terms)
    pose(res, timeout, "join_path.equals_sign_survives", q, [z3.Not(NONE_), z3.Contains(C, EQ)], z3.And(z3.Contains(elt, EQ), z3.Length(elt) > 0),
         "a name=text level is never dropped or emptied by the normalisation", terms)
    # root cause of the known finding C08-backslash-in-partition-value, stated as a fact about join_path (not a defect of join_path itself)
    st = pose(res, timeout, "join_path.backslash_component_is_altered", q, [z3.Not(NONE_), z3.Contains(C, BS)], elt != C,
              "a component containing a backslash does NOT come out verbatim (P-layer root cause of " + FID_BACKSLASH + ")", terms)
    # vacuity: the precondition of the lemmas is satisfiable and a wrong claim is refutable
    if solve(list(q.pc) + list(q.axioms) + [z3.Not(NONE_), clean(C), z3.Length(C) > 0], timeout)[0] == REFUTED:
        ctx.vacuity["requires_sat"] += 1
    else:
        ctx.engine_error("join_path: precondition unsatisfiable")
    if solve(list(q.pc) + list(q.axioms) + [z3.Not(NONE_), z3.Not(elt == C)], timeout)[0] == REFUTED:
        ctx.vacuity["must_fail_sat"] += 1
    else:
        ctx.engine_error("join_path vacuity: 'every component verbatim' is not refutable")
    ctx.vacuity["covers"] += 1
    return res


def join_term(eng, p, args):
    """CUT (contract of join_path proved by run_join_path): the text join_path(*args) for a concrete argument list of texts:
    '/'.join(norm(c) for the non-empty c).  Returns a z3 String term (If-nest over which components are kept)."""
    zs = []
    for a in args:
        if isinstance(a, NoneV):
            continue
        z = text_of(a)
        if z is None:
            raise Unsupported("join_path of " + type(getattr(a, "h", a)).__name__)
        p.axioms += norm_facts(z)
        zs.append(z)

    def build(k, acc):
        if k == len(zs):
            return acc if acc is not None else sv("")
        keep = build(k + 1, norm(zs[k]) if acc is None else z3.Concat(acc, SL, norm(zs[k])))
        return z3.If(z3.Length(zs[k]) > 0, keep, build(k + 1, acc))
    return z3.simplify(build(0, None))


# =================================================================================================================================
#  writer.partition_on_columns
# =================================================================================================================================
class W:
    NC, NCOLS = z3.Int("n_partition_columns"), z3.Int("n_data_columns")
    PCOL = z3.Function("DataColumnOfPartitionColumn", I, I)       # position in `columns` -> data column
    IDX = z3.Function("PositionInPartitionColumns", I, I)         # data column -> position in `columns` or -1
    NAME = z3.Function("NameOfPartitionColumn", I, S)
    KEYVAL = z3.Function("KeyValueOfGroup", I, I, VAL)            # (group, position) -> the group's key value for that column
    EMPTY = z3.Function("GroupIsEmpty", I, B)
    ROOT, PARTNAME = z3.String("root_path"), z3.String("partname")
    g, iS, xS = z3.Int("group"), z3.Int("level_skolem"), z3.Int("data_column_skolem")

    @staticmethod
    def pre():
        return [W.NC >= 1, W.NCOLS >= W.NC, 0 <= W.iS, W.iS < W.NC, 0 <= W.xS, W.xS < W.NCOLS,
                z3.Length(W.PARTNAME) > 0, clean(W.PARTNAME), segment(W.PARTNAME)] + W.idx_facts(W.xS) + W.pcol_facts(W.iS)

    @staticmethod
    def pcol_facts(i):
        return [0 <= W.PCOL(i), W.PCOL(i) < W.NCOLS, W.IDX(W.PCOL(i)) == i]

    @staticmethod
    def idx_facts(x):
        return [W.IDX(x) >= -1, W.IDX(x) < W.NC, z3.Implies(W.IDX(x) >= 0, W.PCOL(W.IDX(x)) == x)]


class ValV:
    """the key value of group g for partition column i"""
    tracked = False

    def __init__(self, v):
        self.v = v

    def isinstance(self, eng, p, tn):
        if tn in ("pd.Timestamp", "pandas.Timestamp", "Timestamp"):
            return KIND(self.v) == K_TS
        if tn == "tuple":
            return z3.BoolVal(False)
        raise Unsupported("isinstance(key value, " + tn + ")")

    def as_text(self, eng, p):
        return STR(self.v)

    def call_method(self, eng, p, name, args, kw, node):
        if name == "isoformat" and not args and not kw:
            eng.oblige(p, "path_string.isoformat_only_on_timestamps", "safety", KIND(self.v) == K_TS, node,
                       note="only pd.Timestamp key values have isoformat() (AttributeError otherwise)")
            return [(p, Custom(TextV(ISO(self.v))))]
        fn = z3.Function("text_of_value." + name, VAL, S)
        return [(p, Custom(TextV(fn(self.v))))]


class NameV(TextV):
    """partition column i (a column label; as a text: its name)"""

    def __init__(self, i):
        TextV.__init__(self, W.NAME(i))
        self.i = i


class ColList:
    """`columns` (partition_on): NC >= 1 distinct column labels of the frame, position i holds column PCOL(i)"""
    tracked = False

    def len(self, eng, p):
        return PyI(W.NC)

    def truth(self, eng, p):
        return W.NC > 0

    def at(self, eng, p, k):
        return Custom(NameV(k))

    def getitem(self, eng, p, i, node):
        k = eng.as_int(i)
        eng.oblige(p, "partition_on_columns.columns_index_in_range", "safety", z3.And(0 <= k, k < W.NC), node)
        return Custom(NameV(k))

    def for_loop(self, eng, p, st):
        """`for column in columns: remaining.remove(column)` on the invariant  removed == {PCOL(k) | k < i}, count == i"""
        def inv(q, i, xs):
            return z3.And(q.ghost["rem:count"] == i, *[z3.Select(q.ghost["rem:arr"], x) == z3.And(0 <= W.IDX(x), W.IDX(x) < i) for x in xs])
        if "rem:arr" not in p.ghost:
            raise Unsupported("loop over the partition columns before list(data)")
        xE = eng.fresh_int("x_entry")
        pe = p.fork()
        pe.pc += [0 <= xE, xE < W.NCOLS] + W.idx_facts(xE)
        eng.oblige(pe, "partition_on_columns.remaining.invariant_on_entry", "inv", inv(pe, z3.IntVal(0), [xE]), st,
                   note="before the loop nothing is removed from list(data)")
        n_eff = len(effects(p))
        i, xP = eng.fresh_int("i_column"), eng.fresh_int("x_step")
        body = p.fork()
        body.pc += [0 <= i, i < W.NC, 0 <= xP, xP < W.NCOLS] + W.idx_facts(xP) + W.pcol_facts(i)
        body.ghost["rem:arr"] = z3.Array(f"removed_at_i!{next(eng.counter)}", I, B)
        body.ghost["rem:count"] = eng.fresh_int("removed_count_at_i")
        body.pc.append(inv(body, i, [xP, W.PCOL(i)]))
        env0 = dict(body.env)
        outs = []
        for q in eng.assign(st.target, Custom(NameV(i)), body):
            for r in eng.block(st.body, [q]):
                if r.ctl not in (None, "continue"):
                    outs.append(r)
                    continue
                if [e for e in effects(r)[n_eff:] if e[0] != "remove"]:
                    raise Unsupported("the column loop has another effect")
                for k, v in r.env.items():
                    if k not in _names(st.target) and k in env0 and env0[k] is not v:
                        raise Unsupported("the column loop assigns " + k)
                eng.oblige(r, "partition_on_columns.remaining.invariant_preserved", "inv", inv(r, i + 1, [xP]), st,
                           note="after removing columns[i] exactly the first i+1 partition columns are gone (whole list: Skolem column)")
        ex = p.fork()
        ex.ghost["rem:arr"] = z3.Array(f"removed_after!{next(eng.counter)}", I, B)
        ex.ghost["rem:count"] = eng.fresh_int("removed_count_after")
        ex.pc.append(inv(ex, W.NC, [W.xS]))
        effects(ex).append(("columns_loop",))
        for k in _names(st.target):
            ex.env[k] = Opaque(("after_loop", k))
        return outs + [ex]


class RemList:
    """list(data) minus the removed labels (ghost: rem:arr, rem:count).  ASSUMED list.remove(x): removes the first element equal to x,
    ValueError if absent; column labels of a frame written by fastparquet are distinct"""
    tracked = False

    def truth(self, eng, p):
        return W.NCOLS - p.ghost["rem:count"] > 0

    def len(self, eng, p):
        return PyI(W.NCOLS - p.ghost["rem:count"])

    def call_method(self, eng, p, name, args, kw, node):
        if name == "remove" and len(args) == 1 and isinstance(args[0], Custom) and isinstance(args[0].h, NameV):
            x = W.PCOL(args[0].h.i)
            eng.oblige(p, "partition_on_columns.remaining.remove_finds_column", "safety",
                       z3.And(0 <= x, x < W.NCOLS, z3.Not(z3.Select(p.ghost["rem:arr"], x))), node,
                       note="list.remove raises ValueError unless the partition column is (still) among the frame's columns")
            p.ghost["rem:arr"] = z3.Store(p.ghost["rem:arr"], x, True)
            p.ghost["rem:count"] = p.ghost["rem:count"] + 1
            effects(p).append(("remove", x))
            return [(p, NONE)]
        raise Unsupported("remaining." + name)


class DataV:
    """the row-group frame handed to partition_on_columns"""
    tracked = False

    def call_method(self, eng, p, name, args, kw, node):
        if name == "groupby":
            effects(p).append(("groupby", list(args), dict(kw), list(p.pc)))
            by = args[0] if args else kw.get("by")
            # ASSUMED pandas: grouping by a LIST of labels yields tuple keys (one element per label), by one label scalar keys
            if isinstance(by, Custom) and isinstance(by.h, ColList):
                p.ghost["groupby_list"] = True
            elif isinstance(by, Custom) and isinstance(by.h, NameV):
                p.ghost["groupby_list"] = False
            else:
                raise Unsupported("groupby by something else than the partition columns")
            return [(p, Custom(GroupByV()))]
        raise Unsupported("data." + name)

    def getitem(self, eng, p, i, node):
        return Custom(SubFrame("data", None, i, p))

    def attr(self, eng, p, name):
        raise Unsupported("data." + name)


class GroupByV:
    tracked = False


class GroupsV:
    """sorted(gb): every (key, group) pair exactly once (ASSUMED pandas groupby, see ASSUMED)"""
    tracked = False

    def for_loop(self, eng, p, st):
        n0 = len(effects(p))
        body = p.fork()
        # havoc: every local the body assigns, the accumulated list's earlier content is arbitrary (it is only appended to)
        for k in _stored(st.body) | _names(st.target):
            body.env[k] = Opaque(("havoc", k))
        body.ghost["in_group_loop"] = n0
        outs = []
        key = Custom(KeyV(W.g)) if p.ghost["groupby_list"] else KeyV(W.g).scalar()
        for q in eng.assign(st.target, Tup([key, Custom(GroupFrame(W.g))]), body):
            for r in eng.block(st.body, [q]):
                r.ghost["iteration"] = (n0, r.ctl)
                if r.ctl in (None, "continue"):
                    r.ctl = None
                outs.append(r)
        ex = p.fork()
        effects(ex).append(("group_loop",))
        for k in _stored(st.body) | _names(st.target):
            ex.env[k] = Opaque(("after_loop", k))
        done = [r for r in outs if r.ctl is None]
        for r in done:
            r.ctl = ("iteration_done", None)
        return outs + [ex]


class KeyV:
    """the group key as pandas hands it out: a scalar for one grouping label, a tuple (one element per label, in label order) for a
    list of labels (ASSUMED)"""
    tracked = False

    def __init__(self, g):
        self.g = g

    def isinstance(self, eng, p, tn):
        if tn == "tuple":
            return z3.BoolVal(True)
        raise Unsupported("isinstance(key, " + tn + ")")

    def len(self, eng, p):
        return PyI(W.NC)

    def arbitrary(self, eng, p):
        p.pc.append(W.iS < W.NC)
        p.ghost["zip_lens"] = (W.NC, W.NC)
        return self.at(eng, p, W.iS)

    def nonempty(self, eng, p):
        return z3.BoolVal(True)

    def at(self, eng, p, k):
        return Custom(ValV(W.KEYVAL(self.g, k)))

    def scalar(self):
        return Custom(ValV(W.KEYVAL(self.g, z3.IntVal(0))))


class GroupFrame:
    tracked = False

    def __init__(self, g):
        self.g = g

    def attr(self, eng, p, name):
        if name == "empty":
            return PyB(W.EMPTY(self.g))
        raise Unsupported("group." + name)

    def getitem(self, eng, p, i, node):
        return Custom(SubFrame("group", self.g, i, p))


class SubFrame:
    """frame[selector]: rows of `origin`, columns = selector"""
    tracked = False

    def __init__(self, origin, g, sel, p):
        self.origin, self.g, self.sel = origin, g, sel
        self.rem = p.ghost.get("rem:arr") if isinstance(sel, Custom) and isinstance(sel.h, RemList) else None


class ZipV:
    """zip(a, b) of two positional collections: pairs (a[i], b[i]) for i < min(len)  (ASSUMED)"""
    tracked = False

    def __init__(self, a, b):
        self.a, self.b = a, b

    def arbitrary(self, eng, p):
        i = W.iS
        la, lb = self.length(eng, p, self.a), self.length(eng, p, self.b)
        p.pc += [i < la, i < lb]
        p.ghost["zip_lens"] = (la, lb)
        return Tup([self.item(eng, p, self.a, i), self.item(eng, p, self.b, i)])

    def length(self, eng, p, v):
        if isinstance(v, Tup):
            return z3.IntVal(len(v.items))
        return eng.as_int(v.h.len(eng, p))

    def item(self, eng, p, v, i):
        if isinstance(v, Tup):
            if len(v.items) != 1:
                raise Unsupported("zip over a longer concrete tuple")
            p.pc.append(i == 0)
            return v.items[0]
        return v.h.at(eng, p, i)

    def nonempty(self, eng, p):
        return z3.BoolVal(True)

    def len(self, eng, p):
        la, lb = self.length(eng, p, self.a), self.length(eng, p, self.b)
        return PyI(z3.If(la <= lb, la, lb))


class DirV(TextV):
    """join_path(*<one text per partition column>): the relative directory of the group; component iS is `lvl` (kept iff `guard`),
    there are min(la, lb) of them"""

    def __init__(self, z, lvl, guard, la, lb):
        TextV.__init__(self, z)
        self.lvl, self.guard, self.la, self.lb = lvl, guard, la, lb


DIRTEXT = z3.Function("DirectoryTextOfGroup", I, S)


class RgOut:
    tracked = False

    def __init__(self, g, file, frame):
        self.g, self.file, self.frame = g, file, frame

    def attr(self, eng, p, name):
        if name == "columns":
            return Custom(ChunkList(self))
        raise Unsupported("rg." + name)


class ChunkList:
    tracked = False

    def __init__(self, rg):
        self.rg = rg

    def for_loop(self, eng, p, st):
        n0 = len(effects(p))
        env0 = dict(p.env)
        outs = []
        for q in eng.assign(st.target, Custom(ChunkV(self.rg)), p):
            for r in eng.block(st.body, [q]):
                if r.ctl not in (None, "continue"):
                    raise Unsupported("chunk loop leaves early")
                r.ctl = None
                for e in effects(r)[n0:]:
                    if e[0] != "set_file_path":
                        raise Unsupported("chunk loop has another effect: " + e[0])
                for k, v in r.env.items():
                    if k not in _names(st.target) and env0.get(k) is not v:
                        raise Unsupported("chunk loop assigns " + k)
                outs.append(r)
        return outs


class ChunkV:
    tracked = False

    def __init__(self, rg):
        self.rg = rg

    def setattr(self, eng, p, name, v):
        if name != "file_path":
            raise Unsupported("store to chunk." + name)
        effects(p).append(("set_file_path", self.rg, v))

    def attr(self, eng, p, name):
        raise Unsupported("chunk." + name)


class ListV:
    """a list created empty by the function: only append is allowed; the appends are effects"""
    tracked = False

    def __init__(self, lid):
        self.lid = lid

    def call_method(self, eng, p, name, args, kw, node):
        if name == "append" and len(args) == 1:
            effects(p).append(("append", self.lid, args[0]))
            return [(p, NONE)]
        raise Unsupported("list." + name)


class FileV:
    tracked = False

    def __init__(self, name, mode):
        self.name, self.mode = name, mode


class WEng(Eng):
    def e_List(self, e, p):
        if not e.elts:
            lid = f"list@L{e.lineno}"
            effects(p).append(("new_list", lid))
            return [(p, Custom(ListV(lid)))]
        return super().e_List(e, p)


def run_partition_on_columns(ctx, funcs, timeout, hive):
    res = Results()
    tag = "[hive]" if hive else "[drill]"
    P = "partition_on_columns" + tag + "."

    def h_list(eng, p, args, kw, node):
        if args and isinstance(args[0], Custom) and isinstance(args[0].h, DataV):
            p.ghost["rem:arr"] = z3.K(I, z3.BoolVal(False))
            p.ghost["rem:count"] = z3.IntVal(0)
            effects(p).append(("list(data)",))
            return [(p, Custom(RemList()))]
        raise Unsupported("list() of " + type(getattr(args[0], "h", args[0])).__name__ if args else "list()")

    def h_sorted(eng, p, args, kw, node):
        if len(args) == 1 and not kw and isinstance(args[0], Custom) and isinstance(args[0].h, GroupByV):
            return [(p, Custom(GroupsV()))]
        raise Unsupported("sorted")

    def h_zip(eng, p, args, kw, node):
        if len(args) == 2:
            return [(p, Custom(ZipV(args[0], args[1])))]
        raise Unsupported("zip")

    def h_strmod(eng, p, a, b, node):
        """ASSUMED: '%s' % x == str(x); the literal parts of the format are copied"""
        items = b.items if isinstance(b, Tup) else [b]
        parts = a.s.split("%s")
        if len(parts) != len(items) + 1 or "%" in "".join(parts):
            return None
        zs = []
        for k, x in enumerate(items):
            if parts[k]:
                zs.append(sv(parts[k]))
            z = text_of(x)
            if z is None and isinstance(x, Custom) and hasattr(x.h, "as_text"):
                z = x.h.as_text(eng, p)
            if z is None:
                return None
            zs.append(z)
        if parts[-1]:
            zs.append(sv(parts[-1]))
        return Custom(TextV(z3.Concat(*zs) if len(zs) > 1 else zs[0]))

    def h_join_path(eng, p, args, kw, node):
        if len(args) == 1 and isinstance(args[0], Custom) and isinstance(args[0].h, StarArgs):
            comp = args[0].h.v
            if isinstance(comp, Tup) and len(comp.items) == 1 and text_of(comp.items[0]) is not None:
                # one partition column, the key wrapped into a 1-tuple by the code itself
                p.pc.append(W.iS == 0)
                return [(p, Custom(DirV(join_term(eng, p, comp.items), text_of(comp.items[0]), z3.BoolVal(True), z3.IntVal(1), z3.IntVal(1))))]
            if not (isinstance(comp, Custom) and isinstance(comp.h, AbstractComp) and isinstance(comp.h.coll, Custom)
                    and isinstance(comp.h.coll.h, (ZipV, KeyV)) and text_of(comp.h.elt) is not None and "zip_lens" in p.ghost):
                raise Unsupported("join_path(*<not one text per (partition column, key element)>)")
            la, lb = p.ghost["zip_lens"]
            return [(p, Custom(DirV(DIRTEXT(W.g), text_of(comp.h.elt), comp.h.guard, la, lb)))]
        if any(isinstance(a, Custom) and isinstance(a.h, StarArgs) for a in args):
            raise Unsupported("join_path(x, *xs)")
        return [(p, Custom(TextV(join_term(eng, p, args))))]

    def h_mkdirs(eng, p, args, kw, node):
        effects(p).append(("mkdirs", args[1] if len(args) > 1 else None))
        return [(p, NONE)]

    def h_open_with(eng, p, args, kw, node):
        mode = args[2] if len(args) > 2 else kw.get("mode")
        f = FileV(args[1] if len(args) > 1 else None, mode.s if isinstance(mode, Str) else None)
        effects(p).append(("open", f))
        return [(p, Custom(f))]

    def h_make_part_file(eng, p, args, kw, node):
        f, df = args[0], args[1]
        rg = RgOut(W.g, f, df)
        effects(p).append(("make_part_file", f, df, rg, dict(kw), args[2:]))
        # contract of make_part_file (writer.py): None iff the frame has no rows
        return [(p, Opt(z3.Bool("make_part_file_returns_None"), Custom(rg)))]

    handlers = {"list": h_list, "sorted": h_sorted, "zip": h_zip, "str%": h_strmod, "join_path": h_join_path, "var:mkdirs": h_mkdirs,
                "var:open_with": h_open_with, "make_part_file": h_make_part_file, "str": h_str, "with_exit": lambda e, q, st: [q]}
    eng = WEng(funcs=funcs, handlers=handlers, inline=("path_string",), opaque_calls=True)
    p = Path()
    p.pc += W.pre()
    if solve(list(p.pc) + [W.NC > 1, W.NCOLS > W.NC, clean(W.ROOT), z3.Length(W.ROOT) > 0], timeout)[0] == REFUTED:
        ctx.vacuity["requires_sat"] += 1
    else:
        ctx.engine_error("partition_on_columns: precondition unsatisfiable")
    data, cols = DataV(), ColList()
    outs = eng.run("partition_on_columns", p, [Custom(data), Custom(cols), Custom(TextV(W.ROOT)), Custom(TextV(W.PARTNAME)), Opaque("fmd"),
                                              Opaque("compression"), Opaque("func:open_with"), Opaque("func:mkdirs")],
                   {"with_field": PyB(hive), "stats": Opaque("stats")})
    discharge_engine(eng, res, P, timeout, (W.NC, W.NCOLS, W.iS, W.xS))
    iters = [q for q in outs if isinstance(q.ctl, tuple) and q.ctl[0] == "iteration_done"]
    rets = [q for q in outs if isinstance(q.ctl, tuple) and q.ctl[0] == "ret"]
    raises = [q for q in outs if isinstance(q.ctl, tuple) and q.ctl[0] == "raise"]
    other = [q for q in outs if q not in iters and q not in rets and q not in raises]
    if other or not iters or not rets:
        res.add(P + "out_of_reach", UNKNOWN, None, 0.0, "engine", f"unexpected path shapes: {[q.ctl for q in other][:3]}, iterations={len(iters)}, returns={len(rets)}")
        return res

    # ---- before the loop: grouping + the remaining columns --------------------------------------------------------------------
    for q in rets + iters:
        gb = [e for e in effects(q) if e[0] == "groupby"]
        ok = len(gb) == 1
        if ok:
            _, a, kw, pc = gb[0]
            by = a[0] if a else kw.get("by")
            many = solve(pc + [W.NC <= 1], timeout)[0] == PROVED        # this path groups by the list
            one = solve(pc + [W.NC > 1], timeout)[0] == PROVED
            if many:
                ok = isinstance(by, Custom) and by.h is cols
            elif one:
                ok = isinstance(by, Custom) and isinstance(by.h, NameV) and z3.simplify(by.h.i).eq(z3.IntVal(0))
            else:
                ok = False
            ob = kw.get("observed")
            dn = kw.get("dropna")
            extra = {k for k in kw if k not in ("observed", "dropna", "by", "sort")}
            srt = kw.get("sort")
            ok = ok and not extra and (srt is None or (isinstance(srt, PyB) and z3.is_true(z3.simplify(srt.z))))
            trace(res, P + "groupby_drops_null_keys", dn is None or (isinstance(dn, PyB) and z3.is_true(z3.simplify(dn.z))),
                  "groupby is called with dropna at its default (True): a row with a null in any partition key is in no group "
                  "(ASSUMED pandas contract); the property speaks about rows with non-null keys only")
        trace(res, P + "groups_by_the_partition_columns_in_order", ok,
              "the frame is grouped by `columns` itself (the ordered list) when there are several, by columns[0] when there is one: "
              "key element i belongs to partition column i", {"groupby": str([type(getattr(x, 'h', x)).__name__ for x in (gb[0][1] if gb else [])])})
    for q in raises:
        ok = not [e for e in effects(q) if e[0] in ("mkdirs", "open", "make_part_file", "append", "set_file_path")]
        trace(res, P + "raise_before_any_effect", ok, "a rejected call (every column is a partition column) has written nothing")
        pose(res, timeout, P + "raises_only_when_no_data_column_left", q, [], W.NCOLS == W.NC,
             "ValueError exactly when the partition columns are all the columns", (W.NC, W.NCOLS))
    for q in iters + rets:
        pose(res, timeout, P + "all_partition_columns_raises", q, [], W.NCOLS > W.NC, "no call with nothing left to store gets past the check",
             (W.NC, W.NCOLS))

    # ---- the arbitrary group ---------------------------------------------------------------------------------------------------
    must_fail = 0
    for q in iters:
        n0, _ = q.ghost["iteration"]
        ef = effects(q)[n0:]
        kinds = [e[0] for e in ef]
        empty = solve(list(q.pc) + [z3.Not(W.EMPTY(W.g))], timeout)[0] == PROVED
        if empty:
            trace(res, P + "empty_group_writes_nothing", not ef, "an empty group (unobserved category combination) creates no directory, no file, no row group",
                  {"effects": str(kinds)})
            continue
        pose(res, timeout, P + "non_empty_group_is_written", q, [], z3.Not(W.EMPTY(W.g)), "only empty groups are skipped")
        base = [k for k in kinds if k != "set_file_path"]
        shape = base in (["mkdirs", "open", "make_part_file", "append"], ["mkdirs", "open", "make_part_file"])
        trace(res, P + "one_file_per_group", kinds.count("open") == 1 and kinds.count("make_part_file") == 1 and kinds.count("mkdirs") == 1
              and shape, "per non-empty group: mkdirs once, then exactly one file opened, one make_part_file into it", {"effects": str(kinds)})
        if not shape:
            continue
        mk = ef[kinds.index("mkdirs")]
        op = ef[kinds.index("open")][1]
        mp = ef[kinds.index("make_part_file")]
        trace(res, P + "file_opened_for_writing_wb", op.mode == "wb", "the part file is opened 'wb' (created / truncated, never appended to)", {"mode": op.mode})
        # who is the directory? the local `path` after the iteration
        loc = q.ghost.get("locals:partition_on_columns", {})
        dirv = loc.get("path")
        d = dirv.h if isinstance(dirv, Custom) and isinstance(dirv.h, DirV) else None
        if d is None:
            res.add(P + "out_of_reach", UNKNOWN, None, 0.0, "engine", "the group's directory is not join_path(*<one text per partition column>)")
            continue
        la, lb = d.la, d.lb
        cs = list(q.pc) + list(q.axioms)
        pose(res, timeout, P + "one_level_per_partition_column", q, [], z3.And(z3.If(la <= lb, la, lb) == W.NC, z3.simplify(d.guard)),
             "the directory has one component per partition column: the comprehension is unfiltered and ranges over zip(columns, key) "
             "with len(key) == len(columns)", (W.NC,))
        lvl = d.lvl
        name, val = W.NAME(W.iS), W.KEYVAL(W.g, W.iS)
        # ORACLE (property): the directory of a row is named by its key values: level i == name_i=text (hive) / text (drill) where
        # `text` NAMES the value (parsing it by the value's kind gives the value back).  ASSUMED about Python/pandas: str(v) names v,
        # and isoformat() names a Timestamp.  The existential `text` is discharged by these two candidate witnesses.
        names_facts = [NAMES_VALUE(STR(val), val), z3.Implies(KIND(val) == K_TS, NAMES_VALUE(ISO(val), val))]

        def spec(w):
            return z3.Concat(name, EQ, w) if hive else w
        wit = z3.Or(*[z3.And(lvl == spec(w), NAMES_VALUE(w, val)) for w in (STR(val), ISO(val))])
        mt = (W.iS, lvl, name, STR(val), ISO(val), KIND(val))
        pose(res, timeout, P + "level_text_is_name_and_value_text_of_same_column", q, names_facts, wit,
             "component i of the directory is built from partition column i's NAME and the text of the group's key value FOR THAT "
             "COLUMN (" + ("'name=text'" if hive else "'text'") + "), the text naming the value (str(v); isoformat for timestamps)", mt)
        if solve(cs + names_facts + [z3.Not(lvl == name)], timeout)[0] == REFUTED:
            must_fail += 1
        w = next((w for w in (STR(val), ISO(val)) if solve(cs + [lvl != spec(w)], timeout)[0] == PROVED), None)
        if w is None:
            continue                      # (reported by the obligation above)
        # the level as it ends up in the path: normalised by join_path (cut: join_path.component_is_normalised_text)
        L = spec(w)
        mt = (W.iS, name, w)
        no_bs = [z3.Not(z3.Contains(name, BS)), z3.Not(z3.Contains(w, BS))]
        legal = [segment(w)] + ([segment(name), z3.Not(z3.Contains(name, EQ))] if hive else [])
        verb = z3.And(norm(L) == L, z3.Length(norm(L)) > 0, z3.Not(z3.Contains(norm(L), SL)))
        pose_s(res, timeout, P + "level_reaches_the_path_verbatim[names and texts without backslash]", legal + no_bs, verb,
               "for column names / value texts that are legal directory names (non-empty, no '/', not '.' / '..') without backslash, join_path "
               "keeps the level unchanged, keeps it (non-empty) and it stays ONE directory level", mt)
        pose_s(res, timeout, P + "level_reaches_the_path_verbatim[any legal directory name]", legal, verb,
               "the same for ANY legal single directory name - REFUTED inside the region of " + FID_BACKSLASH + " (a backslash in the text)", mt)
        dots = z3.And(norm(L) != sv(".."), norm(L) != sv("."))
        if hive:
            pose_s(res, timeout, P + "level_is_not_a_dot_segment[any value text]", [], dots, "hive: a level contains '=' and can never be '.' or '..'", mt)
        else:
            pose_s(res, timeout, P + "level_is_not_a_dot_segment[value texts that are legal directory names]", legal + no_bs, dots,
                   "the file stays under the dataset root", mt)
            pose_s(res, timeout, P + "level_is_not_a_dot_segment[any value text]", [], dots,
                   "drill: NO value text may turn into the directory '..' or '.' (the file would be written outside / at the dataset root)", mt)
        # ---- paths: relname / mkdirs / fullname, in terms of the directory text D and the components ---------------------------
        D = d.z
        Dv, Rv, Pv = Custom(TextV(D)), Custom(TextV(W.ROOT)), Custom(TextV(W.PARTNAME))
        rel_spec = join_term(eng, q, [Dv, Pv])
        full_spec = join_term(eng, q, [Rv, Dv, Pv])
        mkdir_spec = join_term(eng, q, [Rv, Dv])
        opened = text_of(op.name) if op.name is not None else None
        mkd = text_of(mk[1]) if mk[1] is not None else None
        mt2 = (W.ROOT, D, W.PARTNAME)
        if opened is None or mkd is None:
            res.add(P + "out_of_reach", UNKNOWN, None, 0.0, "engine", "file / directory name is not a text")
            continue
        # CUT (join_path.no_backslash_in_result_component / trailing_separator_dropped / equals_sign_survives): the joined directory has no
        # backslash; it is non-empty and does not end with '/' when every level is non-empty after normalisation - hive: every level
        # contains '=' (checked: structurally); drill: for value texts that are legal directory names without backslash (hypothesis)
        if hive:
            ok = solve(cs + [z3.Not(z3.Contains(lvl, EQ))], timeout)[0] == PROVED
            trace(res, P + "every_level_contains_equals", ok, "each component is 'name=...': never dropped as empty by join_path")
            if not ok:
                continue
        dfacts = [clean(D), z3.Length(D) > 0]
        dtag = "" if hive else "[value texts that are legal directory names]"
        # the case split over which components join_path keeps is done here (root may be ''), the solver sees plain concatenations
        for root_kept in (True, False):
            case = [(z3.Length(W.ROOT) > 0, z3.BoolVal(root_kept)), (z3.Length(D) > 0, z3.BoolVal(True)), (z3.Length(W.PARTNAME) > 0, z3.BoolVal(True))]
            ch = dfacts + [z3.Length(W.ROOT) > 0 if root_kept else z3.Length(W.ROOT) == 0]
            ctag = dtag + ("" if root_kept else "[root_path == '']")

            def u(t):
                return z3.simplify(z3.substitute(t, *case))
            pose_s(res, timeout, P + "file_is_root_dir_partname" + ctag, cs + ch, u(opened) == u(full_spec),
                   "the file opened is join_path(root_path, <directory of the group>, partname)", mt2)
            pose_s(res, timeout, P + "directory_created_is_root_dir" + ctag, cs + ch, u(mkd) == u(mkdir_spec),
                   "mkdirs gets join_path(root_path, <directory of the group>) - before the file is opened", mt2)
            if root_kept:
                pose_s(res, timeout, P + "file_is_inside_the_created_directory" + ctag, cs + ch + [z3.Length(norm(W.ROOT)) > 0],
                       u(opened) == z3.Concat(u(mkd), SL, W.PARTNAME), "file name == created directory + '/' + partname", mt2)
            q.ghost["case:" + str(root_kept)] = (case, ch, ctag)
        # make_part_file(f2, group[remaining])
        f_ok = isinstance(mp[1], Custom) and mp[1].h is op
        trace(res, P + "part_written_into_the_opened_file", f_ok, "make_part_file writes into the file object just opened for this group")
        fr = mp[2].h if isinstance(mp[2], Custom) and isinstance(mp[2].h, SubFrame) else None
        rows_ok = fr is not None and fr.origin == "group" and fr.g is not None and z3.simplify(fr.g).eq(W.g)
        trace(res, P + "file_holds_exactly_the_rows_of_this_group", rows_ok,
              "the frame written is group[...]: the rows of THIS group (all of them, nothing of another group or of the whole row group)",
              {"frame": (fr.origin if fr else type(getattr(mp[2], 'h', mp[2])).__name__)})
        if fr is not None and fr.rem is not None:
            pose(res, timeout, P + "file_columns_are_the_non_partition_columns", q, [], z3.Select(fr.rem, W.xS) == (W.IDX(W.xS) >= 0),
                 "the columns written are the frame's columns minus exactly the partition columns (whole list: posed at a Skolem column)", (W.xS, W.IDX(W.xS)))
        else:
            trace(res, P + "file_columns_are_the_non_partition_columns", False, "the column selector is list(data) minus the partition columns", {})
        # metadata: every chunk of the returned row group gets file_path = relname; appended once iff not None
        sets = [e for e in ef if e[0] == "set_file_path"]
        apps = [e for e in ef if e[0] == "append"]
        isnone = solve(list(q.pc) + [z3.Not(z3.Bool("make_part_file_returns_None"))], timeout)[0] == PROVED
        rg = mp[3]
        if isnone:
            trace(res, P + "no_row_group_recorded_when_nothing_was_written", not sets and not apps,
                  "make_part_file returned None (no rows): nothing is appended", {"effects": str(kinds)})
            continue
        app = apps[0][2] if apps else None
        app = app.val if isinstance(app, Opt) else app
        ok = len(apps) == 1 and isinstance(app, Custom) and app.h is rg and kinds[-1] == "append"
        trace(res, P + "row_group_recorded_exactly_once", ok,
              "the row group returned by make_part_file for this group is appended exactly once to the list that is returned, after its "
              "chunks got their file_path", {"effects": str(kinds)})
        ok = len(sets) == 1 and sets[0][1] is rg
        trace(res, P + "every_chunk_gets_the_file_path", ok, "file_path is stored on every column chunk of this row group (loop over rg.columns)",
              {"effects": str(kinds)})
        if ok:
            fp = text_of(sets[0][2])
            if fp is None:
                trace(res, P + "metadata_path_is_dir_partname", False, "chunk.file_path is a text", {})
            else:
                for root_kept in (True, False):
                    case, ch, ctag = q.ghost["case:" + str(root_kept)]

                    def u(t):
                        return z3.simplify(z3.substitute(t, *case))
                    if root_kept:
                        pose_s(res, timeout, P + "metadata_path_is_dir_partname" + ctag, cs + ch, u(fp) == u(rel_spec),
                               "chunk.file_path == join_path(<directory of the group>, partname): relative to the dataset root", mt2)
                    # the reader opens join_path(basepath, file_path) (api.row_group_filename): that must be the file written
                    fpu = u(fp)
                    reader = z3.Concat(norm(W.ROOT), SL, norm(fpu)) if root_kept else norm(fpu)
                    pose_s(res, timeout, P + "reader_finds_the_file_written" + ctag, cs + ch + [z3.Length(fpu) > 0], reader == u(opened),
                           "join_path(root, chunk.file_path) - what api.row_group_filename opens - is exactly the file this group was written to",
                           mt2)
    for q in rets:
        v = q.ctl[1]
        news = [e for e in effects(q) if e[0] == "new_list"]
        ok = isinstance(v, Custom) and isinstance(v.h, ListV) and any(e[1] == v.h.lid for e in news)
        later = [e for e in effects(q) if e[0] == "append"]
        trace(res, P + "returns_the_accumulated_row_groups", ok and not later,
              "the list returned is the one the loop appends to, created empty, not touched outside the loop", {"returned": type(getattr(v, 'h', v)).__name__})
    if must_fail:
        ctx.vacuity["must_fail_sat"] += 1
    else:
        ctx.engine_error("partition_on_columns vacuity: 'level == bare column name' is not refutable")
    ctx.vacuity["covers"] += len(iters)
    return res


def check(ctx, timeout):
    u, _, _ = parse_module("fastparquet/util.py")
    w, _, _ = parse_module("fastparquet/writer.py")
    out = []
    ctx.function("util.join_path", u["join_path"].sha, u["join_path"].report)
    out.append(guard("join_path", lambda: run_join_path(ctx, u, timeout)))
    funcs = dict(w)
    funcs["path_string"] = u["path_string"]
    ctx.function("writer.partition_on_columns", w["partition_on_columns"].sha, w["partition_on_columns"].report)
    ctx.function("util.path_string", u["path_string"].sha, u["path_string"].report)
    for hive in (True, False):
        out.append(guard("partition_on_columns" + ("[hive]" if hive else "[drill]"), lambda: run_partition_on_columns(ctx, funcs, timeout, hive)))
    return out


def guard(name, fn):
    """a function the engine cannot lower is out of reach: one UNKNOWN obligation, never a violation"""
    try:
        return fn()
    except Unsupported as ex:
        r = Results()
        r.add(name + ".out_of_reach", UNKNOWN, None, 0.0, "engine", str(ex))
        return r


ASSUMED = []
