"""Integer / byte-layout lemmas of the Python layer that the write->read round trip depends on (C01), discharged
on the real source for ALL sizes (the bounded layer only reaches pages of a few thousand rows).

  deflevels.v1_skip_exact     core.skip_definition_bytes(io, num) advances by exactly the number of bytes the writer's
                              no-null definition block occupies: 4 (length) + uleb_len(num << 1) + 1, for 0 <= num < 2**31
  check_32.fits_i32           writer.check_32 returns only values that fit a signed 32-bit thrift field
  dictidx.fastpath_length     the header writer.encode_dict emits makes the reader's fast path take >= len(data) indices:
                              ((len + 7) // 8 << 1 | 1) >> 1) * 8 >= len, and the bytes it takes are a multiple of itemsize
"""
import z3

from vc.front_py import parse_module
from vc.symexec import Engine, Path, PyI, PyB, Custom, Opaque, LoopSpec, NONE, Unsupported
from vlib.common import PROVED, REFUTED, UNKNOWN
from .util import Results, solve
from vc import backends


class SeekIO:
    """io object of which only relative seeks are used: records the total advance"""
    tracked = True

    def call_method(self, eng, p, name, args, kw, node):
        if name == "seek":
            off = eng.as_int(args[0])
            wh = z3.simplify(eng.as_int(args[1])) if len(args) > 1 else z3.IntVal(0)
            if not (z3.is_int_value(wh) and wh.as_long() == 1):
                raise Unsupported("skip_definition_bytes: non-relative seek")
            p.ghost["advance"] = p.ghost.get("advance", z3.IntVal(0)) + off
            return [(p, NONE)]
        raise Unsupported("io." + name)


def uleb_len(x):
    """ULEB128 length of a non-negative Int (x < 2**35)"""
    return z3.If(x < 128, 1, z3.If(x < 128 ** 2, 2, z3.If(x < 128 ** 3, 3, z3.If(x < 128 ** 4, 4, 5))))


def check(ctx, timeout):
    res = Results()
    core, _, _ = parse_module("fastparquet/core.py")
    writer, _, _ = parse_module("fastparquet/writer.py")
    for mod, fn in (("core", core["skip_definition_bytes"]), ("writer", writer["check_32"]), ("writer", writer["encode_dict"]),
                    ("writer", writer["make_definitions"])):
        ctx.function(f"{mod}.{fn.name}", fn.sha, fn.report)
    # ---- skip_definition_bytes ----
    eng = Engine(funcs=core, loops={("skip_definition_bytes", 0): LoopSpec("unroll", 5)})
    p = Path()
    num = z3.Int("num")
    p.pc += [num >= 0, num < 2 ** 31]
    outs = eng.run("skip_definition_bytes", p, [Custom(SeekIO()), PyI(num)])
    for ob in eng.oblig:
        st, be, secs, m = backends.discharge(ob, timeout)
        res.add("skip_definition_bytes." + ob.name.split(".", 1)[-1], st, {"num": backends.model_value(m, num)} if m else None, secs, be,
                ob.note or ob.kind)
    for q in outs:
        adv = q.ghost.get("advance", z3.IntVal(0))
        st, m, secs = solve([*q.pc, adv != 4 + uleb_len(2 * num) + 1], timeout)
        res.add("deflevels.v1_skip_exact", st, {"num": backends.model_value(m, num), "advance": backends.model_value(m, adv)} if m else None,
                secs, "z3", "cursor advance == 4 + uleb_len(num << 1) + 1 (the block make_definitions writes for a page without nulls)")
    # the writer side of the same lemma, structurally: make_definitions(no_nulls) emits struct.pack('<I', tell) + varint(l << 1) + byte 1
    import ast
    md = writer["make_definitions"].tree
    src = ast.unparse(md)
    ok = ("cencoding.encode_unsigned_varint(l << 1, temp)" in src and "temp.write_byte(1)" in src
          and "struct.pack('<I', temp.tell()) + temp.so_far()" in src)
    res.add("deflevels.writer_block_shape", PROVED if ok else UNKNOWN, None, 0.0, "ast",
            "make_definitions (no nulls, v1) emits le32(len) ++ uleb(l << 1) ++ 0x01: the shape the skip lemma is stated against")
    # ---- check_32 ----
    eng = Engine(funcs=writer)
    x = z3.Int("x")
    outs = eng.run("check_32", Path(), [PyI(x)])
    n_ret = 0
    for q in outs:
        if q.ctl[0] == "ret":
            n_ret += 1
            st, m, secs = solve([*q.pc, z3.Not(eng.as_int(q.ctl[1]) <= 2 ** 31 - 1)], timeout)
            res.add("check_32.fits_i32", st, {"x": backends.model_value(m, x)} if m else None, secs, "z3",
                    "a returned value is <= 2**31 - 1")
            st, m, secs = solve([*q.pc, z3.Not(eng.as_int(q.ctl[1]) == x)], timeout)
            res.add("check_32.identity", st, {"x": backends.model_value(m, x)} if m else None, secs, "z3", "returns its argument unchanged")
    if n_ret == 0:
        res.add("check_32.fits_i32", UNKNOWN, None, 0.0, "engine", "no returning path")
    # ---- dictionary index fast path ----
    # writer: bit_packed_count = (len(data) + 7) // 8 ; header varint = bit_packed_count << 1 | 1
    # reader (core.read_data_page, selfmade fast path): num = (header >> 1) * 8 ; takes num * bit_width // 8 bytes
    enc_src = ast.unparse(writer["encode_dict"].tree)
    rd_src = ast.unparse(core["read_data_page"].tree)
    shape = ("bit_packed_count = (len(data) + 7) // 8" in enc_src and "bit_packed_count << 1 | 1" in enc_src
             and "num = (encoding.read_unsigned_var_int(io_obj) >> 1) * 8" in rd_src and "io_obj.read(num * bit_width // 8)" in rd_src)
    res.add("dictidx.fastpath_shape", PROVED if shape else UNKNOWN, None, 0.0, "ast",
            "encode_dict writes header ((len+7)//8) << 1 | 1; the fast path reads num = (header >> 1) * 8 indices")
    n, bw = z3.Int("n"), z3.Int("bit_width")
    hdr = ((n + 7) / 8) * 2 + 1
    numv = (hdr / 2) * 8
    for w in (8, 16, 32):
        item = w // 8
        nbytes = (numv * w) / 8
        st, m, secs = solve([n >= 0, z3.Not(z3.And(numv >= n, nbytes % item == 0, nbytes >= n * item))], timeout)
        res.add(f"dictidx.fastpath_length[width={w}]", st, {"n": backends.model_value(m, n)} if m else None, secs, "z3",
                "indices taken by the fast path >= indices written; byte count is a whole number of items")
    return res
