"""C03 / C15 / C02 - the schema as a PRE-ORDER list with child counts, and the codec tables.

The Parquet footer stores the schema as a depth-first (pre-order) flat list of SchemaElement; `num_children` of an element says how
many of the following subtrees are its children (parquet.thrift, FileMetaData.schema: "a depth-first traversal of the schema tree; the
first element is the root").  fastparquet/schema.py turns that list into a tree (`schema_tree`), a flat name map (`flatten`) and a
path lookup (`SchemaHelper.schema_element`); writer.make_metadata emits the list; compression.py holds the codec tables that connect
ColumnMetaData.codec (CompressionCodec enum of the IDL) to the functions applied to page bytes.

Specification (from the format, not from the code).  A list of N elements; for element j:  NUM_CHILDREN(j) (None or an int),
NAME(j), repetition / converted type.  nch(j) = NUM_CHILDREN(j) if it is a positive int, else 0 (None, 0 and - defensively - negative
counts make a leaf).  The *demanded* shape of the list is given by recursion on the child position:
    CHILD(j, 0)   = j + 1                       index of the first child of j (if any)
    CHILD(j, k+1) = END(CHILD(j, k))            the next child starts right after the subtree of the previous one
    END(j)        = CHILD(j, nch(j))            index right after j's subtree  ( = j + 1 + sizes of the subtrees of its children )
    FITS(j)      <=> for all k < nch(j):  CHILD(j, k) < N  and  FITS(CHILD(j, k))          (no count runs past the end of the list)
    well-formed  <=> NUM_CHILDREN(0) is not None  and  FITS(0)  and  END(0) == N  and  no two children of one element share a name
                     ("the counts describe ONE tree that uses the WHOLE list")
All formulas posed to the solver are quantifier-free: the recursive definitions are instantiated at the child position k of the
arbitrary loop iteration (and at nch(j)), FITS additionally as the universal statement it is, at that same k.

Part 1  schema.schema_tree(schema, i)   real source, the `while` loop run for ONE ARBITRARY iteration (every local the body assigns
        and the length of the children dict are havoc'd under the invariant  len(children) == k <= nch(i0), i + 1 == CHILD(i0, k),
        i0 <= i < N, the first k children fit), the recursive call replaced by THIS contract (induction hypothesis; the induction is
        well founded because the callee's index is larger and below N: obligation `recursion.variant_decreases`):
          returns r  => FITS(i0) and the caller continues at END(i0): (r + 1 if num_children else r) == END(i0) <= N; children(i0) is a
                        fresh ordered dict holding exactly CHILD(i0, 0..nch-1), in that order, each under its own name
          raises     => IndexError, and not FITS(i0)          (so: well-formed subtree <=> no exception; an overrun is refused)
        NOTE the code's own convention: for a group the function returns the index of the LAST element of the subtree (the caller's
        loop adds 1), for a leaf the index after it; the value returned for the root is discarded by SchemaHelper.
Part 2  SchemaHelper.__init__            root is element 0, schema_tree is called once on the whole list at index 0 and before flatten;
        `root.whole_list_consumed`; `schema_tree.ill_formed_list_is_refused[...]` (overrun / leftover / root without count).
Part 3  schema.flatten(schema, root, name_parts)   one arbitrary child of an arbitrary group, recursion by contract: entries of the flat
        name map (key == '.'.join(path from below the root), value == that element, stored in the ROOT's map), LIST / MAP groups kept
        whole under their own path, plain groups expanded and marked `isflat`, nothing else touched.
Part 4  SchemaHelper.schema_element(name)  one arbitrary step of the path walk: starts at the root, each step descends to the child
        named by the part, unknown names raise (KeyError; TypeError below a leaf).
Part 5  writer.make_metadata  emits [root(num_children = number of appended columns), flat columns...]: structural (ast) + the lemma
        that such a list satisfies the reader's precondition (base / step / conclusion of the induction over the columns, SMT).
Part 6  EXECUTED ENUMERATION on the module of the tree under check (backend `enumeration`, bounded, never `proved` beyond the bound):
        every ordered tree with <= 7 nodes through the real SchemaHelper against an independently built tree; every count vector over
        {None,0,1,2,3} with <= 5 elements classified (well-formed / overrun / leftover) against raise / accept; flat maps, leaf order,
        dotted names; make_metadata on small frames.
        Call sites (structural, backend ast): ParquetFile._dtypes / .columns take the unexpanded entries of the root map in map order;
        core.read_row_group_arrays matches column chunks to columns by dotted name, not by position.
Part 7  compression.py tables (EXECUTED ENUMERATION): compressors <-> decompressors, rev_map == CompressionCodec of the IDL,
        write_column's number -> _read_page's decompressor is the same algorithm, decompress(compress(x)) == x on boundary payloads,
        unknown names refused.
        OWNERSHIP of the buffer decompress_data returns (STRUCTURAL data-flow analysis of the real source, backend `ast`, not symbolic):
        `codec.decompress_data.result_is_a_fresh_buffer` - every returned value is either the value of a call (the codec's own return
        value) or a local every binding of which is an allocation of THIS call (np.empty / np.zeros / bytearray ...), and that local is
        never stored into - nor bound from - module-level / default-argument / closure state; `codec.module_state_not_mutated[fn]` - no
        global / nonlocal, no store or mutating method call through a name that is not a local of this call (or through a local that may
        alias such a name), no mutable default argument.  Plus EXECUTED (backend `enumeration`): per codec, two successive calls with
        equal uncompressed sizes return arrays that do not share memory and the first result is unchanged after the second call
        (what core.read_col needs: a numeric dictionary is a zero-copy view of the decompressed dictionary page).
"""
import ast
import itertools
import os
import time

import z3

from vc.front_py import parse_module
from vc.symexec import Engine, Path, PyI, PyB, NONE, Opaque, Custom, Str, Tup, Opt, LoopSpec, Unsupported
from vlib.common import PROVED, REFUTED, UNKNOWN, REPO, sha
from .util import Results, solve

ASSUMED = [
    "schema tree: the recursive call of schema_tree inside schema_tree (and of flatten inside flatten) is replaced by the contract "
    "being proved - induction hypothesis; well-foundedness is the obligation `recursion.variant_decreases` (callee index > caller "
    "index, both < len(schema))",
    "schema tree: the lifting from ONE arbitrary iteration (child position k) to the whole children dict / whole flat map is the loop "
    "invariant (posed on entry and after the body); the partition of [i+1, END(i)) into the children's subtrees is argued, and executed "
    "for every ordered tree with <= 7 nodes (Part 6)",
    "OrderedDict / dict keep insertion order; assigning an existing key keeps its position and the length; a new key is appended",
    "children dict under construction: before iteration k its keys are the names of the first k children (loop invariant), so the key of "
    "child k is already present iff its name repeats an earlier sibling's (predicate DUP); sibling names are distinct by the precondition "
    "(a repeated sibling name under well-formed counts is executed in Part 6: it ends in IndexError)",
    "ThriftObject item / attribute protocol: x['children'] = d stores d, x['children'] (and getattr(x, 'children', default), "
    "hasattr(x, 'children')) see it afterwards; an element nobody stored 'children' into answers None / default / False "
    "(executed in Part 6 on the real class)",
    "bytes.decode of a name gives the text the names are compared by; names are compared as whole strings",
    "'.'.join(parts) / str.split('.') are inverse on paths whose names contain no '.'; what happens with a '.' inside a name is only "
    "executed (Part 6: `dotted_names`), not modelled",
    "flatten / schema_element are stated over the tree schema_tree built (children(j) == the direct children of j by name, only "
    "elements with a positive child count - and the root - have a children dict)",
    "codec tables: EXECUTED enumeration on the module imported from the tree under check; decompress(compress(x)) == x is bounded in "
    "the payload dimension (4 boundary payloads per codec: empty, 1 byte, 4096 incompressible bytes, 1 MiB of zeros), not a proof "
    "about cramjam",
    "buffer ownership (structural): a function taken from the codec tables (cramjam / lambda x: x) neither keeps a reference to its "
    "output argument nor returns module state: its return value is its own (or, for UNCOMPRESSED, the caller's input); np.empty / "
    "np.zeros / np.ndarray / bytearray / bytes allocate a new object on every call",
    "codec LZ4 (number 5, DEPRECATED in the format, Hadoop framing 'undocumented' per Compression.md): fastparquet reads and writes the "
    "raw LZ4 block format under both 5 and 7 (source comment in compression.py); the table obligations only demand that reader and "
    "writer agree per number (same policy as spec/pqread.py)",
]

I, B = z3.IntSort(), z3.BoolSort()
N = z3.Int("len_schema")
NCN = z3.Function("NUM_CHILDREN_IS_NONE", I, B)
NCV = z3.Function("NUM_CHILDREN", I, I)
NAME = z3.Function("NAME", I, I)
RTN = z3.Function("REPETITION_TYPE_IS_NONE", I, B)
RT = z3.Function("REPETITION_TYPE", I, I)
CTN = z3.Function("CONVERTED_TYPE_IS_NONE", I, B)
CT = z3.Function("CONVERTED_TYPE", I, I)
CH = z3.Function("CHILD", I, I, I)
END = z3.Function("END", I, I)
FITS = z3.Function("FITS", I, B)
PFITS = z3.Function("FIRST_K_CHILDREN_FIT", I, I, B)
DUP = z3.Function("NAME_OF_CHILD_K_REPEATS_AN_EARLIER_SIBLING", I, I, B)
NODUP = z3.Function("NO_DUPLICATE_SIBLING_NAMES_IN_SUBTREE", I, B)
KEYPRESENT = z3.Function("KEY_ALREADY_IN_DICT", I, I, I, B)          # (owner, position, element whose name is the key)
PARENT = z3.Function("PARENT", I, I)
HASCH = z3.Function("HAS_CHILDREN_DICT", I, B)
HASKEY = z3.Function("HAS_CHILD_NAMED", I, I, B)
CBN = z3.Function("CHILD_NAMED", I, I, I)
PART = z3.Function("PART", I, I)
FOLLOW = z3.Function("FOLLOW", I, I)
PATHLEN = z3.Int("len_path")

FORMAT_CODECS = {"UNCOMPRESSED": 0, "SNAPPY": 1, "GZIP": 2, "LZO": 3, "BROTLI": 4, "LZ4": 5, "ZSTD": 6, "LZ4_RAW": 7}   # parquet-format


def nch(j):
    return z3.If(z3.Or(NCN(j), NCV(j) <= 0), 0, NCV(j))


def defs_at(j, k):
    """the recursive definitions instantiated at child position k of element j (and at nch(j))"""
    n = nch(j)
    return [CH(j, 0) == j + 1,
            CH(j, k + 1) == END(CH(j, k)),
            END(j) == CH(j, n),
            PFITS(j, 0),
            PFITS(j, k + 1) == z3.And(PFITS(j, k), CH(j, k) < N, FITS(CH(j, k))),
            FITS(j) == PFITS(j, n),
            # FITS as the universal statement it is, instantiated at k
            z3.Implies(z3.And(FITS(j), 0 <= k, k < n), z3.And(CH(j, k) < N, FITS(CH(j, k)))),
            # sibling names are distinct in the whole subtree (hereditary), instantiated at k
            z3.Implies(z3.And(NODUP(j), 0 <= k, k < n), z3.And(z3.Not(DUP(j, k)), NODUP(CH(j, k)))),
            z3.Implies(z3.And(0 <= k, k < n), PARENT(CH(j, k)) == j)]


def next_after(r, j):
    """the index the caller of schema_tree continues with: the code returns the LAST index of a group's subtree, the index AFTER a leaf"""
    return z3.If(z3.And(z3.Not(NCN(j)), NCV(j) != 0), r + 1, r)


def mv(m, t):
    from vc import backends
    return backends.model_value(m, t)


def post(res, name, constraints, goal, timeout, detail, model_fn=None, prefer=()):
    st, m, secs = solve(list(constraints) + [z3.Not(goal)], timeout)
    if st == REFUTED and prefer:                      # a more readable counter-model of the same refuted obligation (display only)
        st2, m2, _ = solve(list(constraints) + list(prefer) + [z3.Not(goal)], 2000)
        if st2 == REFUTED:
            m = m2
    res.add(name, st, (model_fn(m) if model_fn else {"z3_model": str(m)[:300]}) if m is not None else None, secs, "z3", detail)
    return st


def assigned_names(stmts):
    names = set()
    for n in ast.walk(ast.Module(body=list(stmts), type_ignores=[])):
        if isinstance(n, (ast.Assign, ast.AugAssign, ast.AnnAssign, ast.For)):
            tg = n.targets if isinstance(n, ast.Assign) else [n.target]
            for t in tg:
                for m in ast.walk(t):
                    if isinstance(m, ast.Name) and isinstance(m.ctx, ast.Store):
                        names.add(m.id)
    return names


def same(a, b):
    return z3.is_true(z3.simplify(a == b))


# =====================================================================================================================
# proof-script objects
# =====================================================================================================================
class H:
    tracked = False
    mine = True

    def attr(self, eng, p, name):
        raise Unsupported(f"{type(self).__name__}.{name}")

    def call_method(self, eng, p, name, args, kw, node):
        raise Unsupported(f"{type(self).__name__}.{name}()")

    def is_none(self, eng, p):
        return z3.BoolVal(False)

    def isinstance(self, eng, p, tn):
        return z3.BoolVal(False)


def raise_path(eng, p, cond, exc, node):
    """-> path on which `cond` holds and the exception is raised, or None when infeasible"""
    bad = p.fork(cond)
    if not eng.feasible(bad):
        return None
    bad.ctl = ("raise", exc)
    bad.trace.append(("raise", getattr(node, "lineno", 0)))
    bad.ghost["raise_kind"] = exc
    return bad


class ListV(H):
    """the schema list: N elements"""

    def len(self, eng, p):
        return PyI(N)

    def isinstance(self, eng, p, tn):
        return z3.BoolVal("list" in tn)

    def getitem_paths(self, eng, p, i, node):
        k = z3.simplify(eng.as_int(i, p))
        out = []
        bad = raise_path(eng, p, z3.Or(k >= N, k < -N), "IndexError", node)
        if bad is not None:
            out.append((bad, Opaque("raised")))
        for cond, idx in ((z3.And(0 <= k, k < N), k), (z3.And(k < 0, k >= -N), z3.simplify(N + k))):      # Python wraps negative indices
            ok = p.fork(cond)
            if eng.feasible(ok):
                ok.ghost.setdefault("events", []).append(("read", idx))
                out.append((ok, Custom(ElemV(idx))))
        return out

    def slice(self, eng, p, lo, hi, node):
        raise Unsupported("slice of the schema list")

    def arbitrary(self, eng, p):
        x = eng.fresh_int("any_element")
        p.pc += [0 <= x, x < N]
        return Custom(ElemV(x))

    def for_loop(self, eng, p, st):
        """`for se in schema_elements:` - ONE arbitrary element; every local the body assigns is havoc'd afterwards"""
        x = eng.fresh_int("loop_element")
        q = p.fork(z3.And(0 <= x, x < N))
        out = []
        if eng.feasible(q):
            for r in eng.assign(st.target, Custom(ElemV(x)), q):
                for b in eng.block(st.body, [r]):
                    if b.ctl in (None, "continue", "break"):
                        p.ghost.setdefault("iter_events", []).append((list(b.pc), list(b.ghost.get("events", []))[len(p.ghost.get("events", [])):], x))
                    else:
                        out.append(b)
        ex = p.fork()
        for nm in sorted(assigned_names(st.body) | assigned_names([st])):
            if nm in ex.env:
                ex.env[nm] = Opaque(f"{nm}_after_loop!{next(eng.counter)}")
        ex.ghost["iter_events"] = list(p.ghost.get("iter_events", []))
        return [ex] + out


class NameV(H):
    """the name of element idx"""

    def __init__(self, idx):
        self.idx = idx

    def isinstance(self, eng, p, tn):
        return z3.BoolVal("str" in tn)

    def call_method(self, eng, p, name, args, kw, node):
        if name == "decode" and not args:
            # bytes -> the text ; str has no decode (AttributeError)
            isb = eng.fresh("name_is_bytes", B)
            out = []
            bad = raise_path(eng, p, z3.Not(isb), "AttributeError", node)
            if bad is not None:
                out.append((bad, Opaque("raised")))
            ok = p.fork(isb)
            if eng.feasible(ok):
                out.append((ok, Custom(NameV(self.idx))))
            return out
        raise Unsupported("name." + name)

    def eq(self, eng, p, other):
        if isinstance(other, Custom) and isinstance(other.h, NameV):
            return NAME(self.idx) == NAME(other.h.idx)
        if isinstance(other, Custom) and isinstance(other.h, PartV):
            return NAME(self.idx) == PART(other.h.d)
        raise Unsupported("name compared with " + type(other).__name__)


class PartV(H):
    """name[d] of the path handed to schema_element"""

    def __init__(self, d):
        self.d = d

    def isinstance(self, eng, p, tn):
        return z3.BoolVal("str" in tn)


class ElemV(H):
    """schema element number idx"""

    def __init__(self, idx):
        self.idx = idx

    def attr(self, eng, p, name):
        for kind, x, a, v in reversed(p.ghost.get("attr_stores", [])):
            if a == name and same(x, self.idx):
                return v
        if name == "num_children":
            return Opt(NCN(self.idx), PyI(NCV(self.idx)))
        if name == "name":
            return Custom(NameV(self.idx))
        if name == "repetition_type":
            return Opt(RTN(self.idx), PyI(RT(self.idx)))
        if name == "converted_type":
            return Opt(CTN(self.idx), PyI(CT(self.idx)))
        raise Unsupported("SchemaElement." + name)

    def setattr(self, eng, p, name, v):
        p.ghost.setdefault("events", []).append(("set_attr", self.idx, name, v))
        p.ghost.setdefault("attr_stores", []).append(("attr", self.idx, name, v))

    def children_value(self, eng, p):
        for x, d in reversed(p.ghost.get("children_of", [])):
            if same(x, self.idx):
                return Custom(d)
        mode = p.ghost.get("mode")
        if mode == "built":
            # the tree schema_tree built: only the root and elements with a positive child count carry a children dict
            if not eng.feasible(p, z3.Not(HASCH(self.idx))):
                return Custom(ChildrenV(self.idx))
            return Opt(z3.Not(HASCH(self.idx)), Custom(ChildrenV(self.idx)))
        raise Unsupported("SchemaElement['children'] read before it was stored")

    def getitem(self, eng, p, i, node=None):
        if isinstance(i, Str) and i.s == "children":
            return self.children_value(eng, p)
        raise Unsupported("SchemaElement[%r]" % getattr(i, "s", i))

    def setitem(self, eng, p, i, v, node=None):
        if not isinstance(i, Str):
            raise Unsupported("SchemaElement[<non-literal>] = ...")
        p.ghost.setdefault("events", []).append(("set_item", self.idx, i.s, v))
        if i.s == "children":
            if isinstance(v, Custom) and isinstance(v.h, DictV):
                p.ghost.setdefault("children_of", []).append((self.idx, v.h))
            else:
                raise Unsupported("children set to a " + type(getattr(v, "h", v)).__name__)

    def eq(self, eng, p, other):
        if isinstance(other, Custom) and isinstance(other.h, ElemV):
            return self.idx == other.h.idx
        return z3.BoolVal(False)

    def truth(self, eng, p):
        return z3.BoolVal(True)


class DictV(H):
    """a dict created during the run (schema_tree's OrderedDict()): ghost length, insert events"""
    _ids = itertools.count()

    def __init__(self, ordered):
        self.oid = f"dict{next(DictV._ids)}"
        self.ordered = ordered

    def n(self, p):
        return p.ghost["dict_len"][self.oid]

    def owner(self, p):
        for x, d in reversed(p.ghost.get("children_of", [])):
            if d is self:
                return x
        return None

    def len(self, eng, p):
        return PyI(self.n(p))

    def truth(self, eng, p):
        return self.n(p) > 0

    def setitem(self, eng, p, key, v, node=None):
        if not (isinstance(key, Custom) and isinstance(key.h, NameV) and isinstance(v, Custom) and isinstance(v.h, ElemV)):
            kd = f"key {type(getattr(key, 'h', key)).__name__} / value {type(getattr(v, 'h', v)).__name__}"
            p.ghost.setdefault("events", []).append(("insert_other", self.oid, kd))
            p.ghost["dict_len"][self.oid] = eng.fresh_int("len_after_foreign_insert")
            return
        k = self.n(p)
        own = self.owner(p)
        p.ghost.setdefault("events", []).append(("insert", self.oid, k, key.h.idx, v.h.idx))
        j = own if own is not None else z3.IntVal(-1)
        present = KEYPRESENT(j, k, key.h.idx)
        # the keys present are the names of the first k children (invariant): the key is present iff this name repeats an earlier sibling
        p.pc.append(z3.Implies(key.h.idx == CH(j, k), present == DUP(j, k)))
        p.ghost["dict_len"][self.oid] = z3.simplify(k + z3.If(present, 0, 1))

    def getitem(self, eng, p, i, node=None):
        raise Unsupported("lookup in a dict under construction")

    def call_method(self, eng, p, name, args, kw, node):
        raise Unsupported("dict." + name)


class ChildrenV(H):
    """children dict of element idx in the BUILT tree: exactly CHILD(idx, 0..nch-1) by name (the root's also holds the flat entries)"""

    def __init__(self, idx, snapshot=False):
        self.idx, self.snapshot = idx, snapshot

    def len(self, eng, p):
        return PyI(nch(self.idx))

    def call_method(self, eng, p, name, args, kw, node):
        if name == "copy" and not args:
            return [(p, Custom(ChildrenV(self.idx, True)))]
        if name == "items" and not args:
            return [(p, Custom(ItemsV(self.idx, self.snapshot, "items")))]
        if name == "values" and not args:
            return [(p, Custom(ItemsV(self.idx, self.snapshot, "values")))]
        if name == "keys" and not args:
            return [(p, Custom(ItemsV(self.idx, self.snapshot, "keys")))]
        raise Unsupported("children." + name)

    def for_loop(self, eng, p, st):
        return ItemsV(self.idx, self.snapshot, "keys").for_loop(eng, p, st)

    def setitem(self, eng, p, key, v, node=None):
        p.ghost.setdefault("events", []).append(("map_store", self.idx, key, v))

    def getitem_paths(self, eng, p, key, node):
        if isinstance(key, Custom) and isinstance(key.h, PartV):
            s_ = PART(key.h.d)
        elif isinstance(key, Custom) and isinstance(key.h, NameV):
            s_ = NAME(key.h.idx)
        else:
            raise Unsupported("children[<%s>]" % type(getattr(key, "h", key)).__name__)
        out = []
        bad = raise_path(eng, p, z3.Not(HASKEY(self.idx, s_)), "KeyError", node)
        if bad is not None:
            out.append((bad, Opaque("raised")))
        ok = p.fork(HASKEY(self.idx, s_))
        if eng.feasible(ok):
            c = CBN(self.idx, s_)
            ok.pc += [PARENT(c) == self.idx, NAME(c) == s_, c > self.idx, c < N]
            out.append((ok, Custom(ElemV(c))))
        return out


class ItemsV(H):
    def __init__(self, idx, snapshot, what):
        self.idx, self.snapshot, self.what = idx, snapshot, what

    def for_loop(self, eng, p, st):
        """ONE arbitrary child k of element idx; the locals the body assigns are havoc'd for the code after the loop"""
        k = eng.fresh_int("child_position")
        j = self.idx
        c = CH(j, k)
        q = p.fork(z3.And(0 <= k, k < nch(j)))
        q.pc += defs_at(j, k) + [c > j, c < N]
        q.ghost["iter"] = {"k": k, "child": c, "snapshot": self.snapshot, "owner": j}
        item = {"items": Tup([Custom(NameV(c)), Custom(ElemV(c))]), "values": Custom(ElemV(c)), "keys": Custom(NameV(c))}[self.what]
        out = []
        if eng.feasible(q):
            for r in eng.assign(st.target, item, q):
                for b in eng.block(st.body, [r]):
                    if b.ctl in (None, "continue", "break"):
                        p.ghost.setdefault("iterations", []).append(b)
                    else:
                        out.append(b)
        ex = p.fork()
        for nm in sorted(assigned_names(st.body) | assigned_names([st])):
            if nm in ex.env:
                ex.env[nm] = Opaque(f"{nm}_after_loop!{next(eng.counter)}")
        ex.ghost["iterations"] = list(p.ghost.get("iterations", []))
        return [ex] + out


class PathVal(H):
    """a list of names that equals the path (below the root) of element `node` provided every condition in `ok` holds"""

    def __init__(self, node, ok=()):
        self.node, self.ok = node, list(ok)

    def binop(self, eng, p, op, other, node):
        if isinstance(op, ast.Add) and isinstance(other, Tup):
            cur = self
            for it in other.items:
                if not (isinstance(it, Custom) and isinstance(it.h, NameV)):
                    raise Unsupported("path + [<not a name>]")
                cur = PathVal(it.h.idx, cur.ok + [PARENT(it.h.idx) == cur.node])
            return Custom(cur)
        raise Unsupported("operation on a name list")

    def isinstance(self, eng, p, tn):
        return z3.BoolVal("list" in tn)


def as_pathval(v):
    if isinstance(v, Custom) and isinstance(v.h, PathVal):
        return v.h
    if isinstance(v, Tup):
        cur = PathVal(z3.IntVal(0))
        for it in v.items:
            if not (isinstance(it, Custom) and isinstance(it.h, NameV)):
                return None
            cur = PathVal(it.h.idx, cur.ok + [PARENT(it.h.idx) == cur.node])
        return cur
    return None


class KeyV(H):
    """'.'.join(path): the dotted key of element `node` when `ok` holds"""

    def __init__(self, node, ok):
        self.node, self.ok = node, list(ok)


class PathArgV(H):
    """the `name` argument of schema_element as a list of PATHLEN parts"""

    def isinstance(self, eng, p, tn):
        return z3.BoolVal("list" in tn and "str" not in tn.replace("list", ""))

    def len(self, eng, p):
        return PyI(PATHLEN)

    def for_loop(self, eng, p, st):
        body_assigned = sorted(assigned_names(st.body))
        holder = [nm for nm in body_assigned if nm in p.env and isinstance(p.env[nm], Custom) and isinstance(p.env[nm].h, ElemV)]
        if len(holder) != 1:
            raise Unsupported("schema_element: the path loop does not carry exactly one element variable")
        var = holder[0]
        p.ghost["walk_entry"] = (list(p.pc), p.env[var].h.idx)
        d = eng.fresh_int("path_position")
        q = p.fork(z3.And(0 <= d, d < PATHLEN))
        for nm in body_assigned:
            if nm in q.env and nm != var:
                q.env[nm] = Opaque(f"{nm}_havoc!{next(eng.counter)}")
        q.env[var] = Custom(ElemV(FOLLOW(d)))
        q.pc += [FOLLOW(d) >= 0, FOLLOW(d) < N]
        q.ghost["walk"] = {"d": d, "var": var}
        out = []
        if eng.feasible(q):
            for r in eng.assign(st.target, Custom(PartV(d)), q):
                for b in eng.block(st.body, [r]):
                    if b.ctl in (None, "continue"):
                        p.ghost.setdefault("walk_steps", []).append(b)
                    else:
                        out.append(b)
        ex = p.fork()
        for nm in body_assigned:
            if nm in ex.env and nm != var:
                ex.env[nm] = Opaque(f"{nm}_after_loop!{next(eng.counter)}")
        ex.env[var] = Custom(ElemV(FOLLOW(PATHLEN)))
        ex.pc += [FOLLOW(PATHLEN) >= 0, FOLLOW(PATHLEN) < N]
        ex.ghost["walk_steps"] = list(p.ghost.get("walk_steps", []))
        return [ex] + out


class DottedStrV(H):
    """the `name` argument given as ONE str: '.'.join of the path (names without '.': ASSUMED)"""

    def isinstance(self, eng, p, tn):
        return z3.BoolVal("str" in tn)

    def call_method(self, eng, p, name, args, kw, node):
        if name == "split" and len(args) == 1 and isinstance(args[0], Str) and args[0].s == ".":
            return [(p, Custom(PathArgV()))]
        raise Unsupported("str." + name)


class SelfV(H):
    """a SchemaHelper instance: attribute stores are recorded"""

    def __init__(self, preset=None):
        self.preset = dict(preset or {})

    def attr(self, eng, p, name):
        for a, v in reversed(p.ghost.get("self_attrs", [])):
            if a == name:
                return v
        if name in self.preset:
            return self.preset[name]
        raise Unsupported("self." + name + " read before it is set")

    def setattr(self, eng, p, name, v):
        p.ghost.setdefault("self_attrs", []).append((name, v))
        p.ghost.setdefault("events", []).append(("self_attr", name, v))


class NS(H):
    def __init__(self, d, name):
        self.d, self.name = d, name

    def attr(self, eng, p, name):
        if name not in self.d:
            raise Unsupported(f"{self.name}.{name}")
        return self.d[name]


def enums_from_source():
    src = open(os.path.join(REPO, "fastparquet", "parquet_thrift", "parquet", "ttypes.py")).read()
    out = {}
    for n in ast.parse(src).body:
        if isinstance(n, ast.ClassDef) and n.name in ("FieldRepetitionType", "ConvertedType", "CompressionCodec"):
            out[n.name] = {t.id: st.value.value for st in n.body if isinstance(st, ast.Assign) and isinstance(st.value, ast.Constant)
                           and isinstance(st.value.value, int) for t in st.targets if isinstance(t, ast.Name)}
    return out


def thrift_ns(en):
    return Custom(NS({k: Custom(NS({n: PyI(v, lit=False) for n, v in vals.items()}, k)) for k, vals in en.items()}, "parquet_thrift"))


class TEngine(Engine):
    """Engine + subscripts that can raise (IndexError / KeyError / TypeError paths) + identity of schema elements;
    nothing is evaluated or stored on a path that has already raised inside the current statement"""

    def ev(self, e, p):
        if p.ctl is not None:
            return [(p, Opaque("dead"))]
        return super().ev(e, p)

    def assign(self, t, v, p):
        if p.ctl is not None:
            return [p]
        return super().assign(t, v, p)

    def e_Subscript(self, e, p):
        out = []
        for q, o in self.ev(e.value, p):
            if q.ctl is not None:
                out.append((q, Opaque("raised")))
                continue
            if isinstance(e.slice, ast.Slice):
                out += self.slice(o, e.slice, q, e)
                continue
            for r, i in self.ev(e.slice, q):
                out += self.sub_paths(o, i, r, e)
        return out

    def sub_paths(self, o, i, r, e):
        if r.ctl is not None:
            return [(r, Opaque("raised"))]
        if isinstance(o, Opt) and isinstance(o.val, Custom) and getattr(o.val.h, "mine", False):
            out = []
            bad = raise_path(self, r, o.isnone, "TypeError", e)
            if bad is not None:
                out.append((bad, Opaque("raised")))
            ok = r.fork(z3.Not(o.isnone))
            if self.feasible(ok):
                out += self.sub_paths(o.val, i, ok, e)
            return out
        if isinstance(o, Custom) and hasattr(o.h, "getitem_paths"):
            return o.h.getitem_paths(self, r, i, e)
        return [(r, self.load_sub(o, i, r, e))]

    def store_sub(self, o, i, v, p, node):
        if p.ctl is not None:
            return [p]
        if isinstance(o, Opt) and isinstance(o.val, Custom) and getattr(o.val.h, "mine", False):
            out = []
            bad = raise_path(self, p, o.isnone, "TypeError", node)
            if bad is not None:
                out.append(bad)
            ok = p.fork(z3.Not(o.isnone))
            if self.feasible(ok):
                out += super().store_sub(o.val, i, v, ok, node)
            return out
        return super().store_sub(o, i, v, p, node)

    def identical(self, a, b, p):
        if isinstance(a, Custom) and isinstance(b, Custom) and isinstance(a.h, ElemV) and isinstance(b.h, ElemV):
            return a.h.idx == b.h.idx
        return super().identical(a, b, p)


def h_ordered_dict(ordered):
    def h(eng, p, args, kw, node):
        if args or kw:
            raise Unsupported("dict constructor with arguments")
        d = DictV(ordered)
        p.ghost.setdefault("dict_len", {})[d.oid] = z3.IntVal(0)
        p.ghost.setdefault("events", []).append(("new_dict", d.oid, ordered))
        return [(p, Custom(d))]
    return h


def tree_model(m, j=None):
    out = {"len_schema": mv(m, N)}
    n = out["len_schema"]
    try:
        if isinstance(n, int) and 0 <= n <= 8:
            out["num_children"] = [None if mv(m, NCN(z3.IntVal(x))) else mv(m, NCV(z3.IntVal(x))) for x in range(n)]
        if j is not None:
            out["i"] = mv(m, j)
            out["END(i)"] = mv(m, END(j))
            out["FITS(i)"] = mv(m, FITS(j))
    except Exception:
        pass
    return out


# =====================================================================================================================
# Part 1: schema_tree
# =====================================================================================================================
def check_schema_tree(funcs, timeout):
    res = Results()
    j = z3.Int("i0")
    pre = [N >= 1, 0 <= j, j < N, z3.Not(NCN(j)), NODUP(j)]
    mf = lambda m: tree_model(m, j)
    state = {"iter": [], "calls": []}
    r_ = solve(pre + defs_at(j, z3.IntVal(0)) + [NCV(j) == 1, N == 2, j == 0, z3.Or(NCN(1), NCV(1) == 0), FITS(0), END(0) == 2], timeout)
    res.add("schema_tree.precondition_satisfiable", PROVED if r_[0] == REFUTED else UNKNOWN, None, r_[2], "z3", "vacuity guard: [root/1, leaf] satisfies the precondition")

    def dict_of_root(q):
        for x, d in reversed(q.ghost.get("children_of", [])):
            if same(x, j):
                return d
        return None

    def inv(q, i_, k_):
        return [("children_count_within_declared_count", z3.And(0 <= k_, k_ <= nch(j))),
                ("next_index_is_the_next_child", i_ + 1 == CH(j, k_)),
                ("cursor_inside_the_list", z3.And(j <= i_, i_ < N)),
                ("children_so_far_fit", PFITS(j, k_))]

    def h_rec(eng, p, args, kw, node):
        """recursive call: the contract being proved (induction hypothesis)"""
        lst = args[0] if args else kw.get("schema")
        iv = args[1] if len(args) > 1 else kw.get("i", PyI(0))
        c = eng.as_int(iv, p)
        ok_list = isinstance(lst, Custom) and isinstance(lst.h, ListV)
        eng.oblige(p, "schema_tree.recursive_call.same_list", "pre", z3.BoolVal(ok_list), node, "the recursion works on the same list")
        eng.oblige(p, "schema_tree.recursive_call.precondition", "pre", z3.And(0 <= c, c < N, z3.Not(NCN(c)), NODUP(c)), node,
                   "callee precondition: a valid index of an element with a child count, sibling names distinct below it")
        eng.oblige(p, "schema_tree.recursion.variant_decreases", "inv", z3.And(N - c >= 0, N - c < N - j), node,
                   "termination of the recursion: len(schema) - index decreases and stays >= 0")
        p.ghost.setdefault("events", []).append(("rec", c))
        out = []
        bad = raise_path(eng, p, z3.Not(FITS(c)), "IndexError", node)
        if bad is not None:
            out.append((bad, Opaque("raised")))
        ok = p.fork(FITS(c))
        if eng.feasible(ok):
            r = eng.fresh_int("ret_rec")
            ok.pc += [next_after(r, c) == END(c), END(c) <= N, r >= c]
            out.append((ok, PyI(r)))
        return out

    def hook(eng, st, p):
        d = dict_of_root(p)
        if d is None:
            raise Unsupported("schema_tree: no children dict stored in the element before the loop")
        i0v = p.env.get("i")
        if not isinstance(i0v, PyI):
            raise Unsupported("schema_tree: cursor `i` is not an int at the loop head")
        base = list(p.pc) + defs_at(j, z3.IntVal(0))
        for nm, g in inv(p, i0v.z, d.n(p)):
            post(res, f"schema_tree.loop.invariant_on_entry[{nm}]", base, g, timeout, "before the first iteration: no child yet, cursor on the element itself", mf)
        names = sorted(assigned_names(st.body))

        def arbitrary(q):
            iH, kH = eng.fresh_int("i_iter"), eng.fresh_int("k_iter")
            for nm in names:
                if nm in q.env:
                    v = q.env[nm]
                    if nm == "i":
                        q.env[nm] = PyI(iH)
                    elif isinstance(v, (PyI, PyB, Opaque, Opt)):
                        q.env[nm] = eng.havoc_like(v, nm + "_havoc", q)
                    elif isinstance(v, Custom) and isinstance(v.h, ElemV):
                        x = eng.fresh_int(nm + "_havoc")
                        q.env[nm] = Custom(ElemV(x))
                    else:
                        raise Unsupported(f"schema_tree: loop assigns `{nm}` ({type(getattr(v, 'h', v)).__name__})")
            if "i" not in names:
                q.pc.append(iH == q.env["i"].z)
            if "root" in names or "schema" in names:
                raise Unsupported("schema_tree: the loop re-assigns root / schema")
            q.ghost["dict_len"] = dict(q.ghost["dict_len"])
            q.ghost["dict_len"][d.oid] = kH
            q.pc += [g for _, g in inv(q, iH, kH)] + defs_at(j, kH)
            return iH, kH

        q = p.fork()
        iH, kH = arbitrary(q)
        n_ev = len(q.ghost.get("events", []))
        outs = []
        for r, c in eng.cond(st.test, q):
            t = r.fork(c)
            if not eng.feasible(t):
                continue
            for b in eng.block(st.body, [t]):
                if b.ctl in (None, "continue"):
                    i1 = b.env["i"]
                    if not isinstance(i1, PyI):
                        raise Unsupported("schema_tree: cursor is not an int after the body")
                    k1 = b.ghost["dict_len"][d.oid]
                    hyp = list(b.pc) + defs_at(j, kH) + defs_at(CH(j, kH), z3.IntVal(0))       # the child's own definitions (a leaf: END == index + 1)
                    for nm, g in inv(b, i1.z, k1):
                        post(res, f"schema_tree.loop.invariant_preserved[{nm}]", hyp, g, timeout,
                             "after one arbitrary iteration (child position k): one more child, cursor on the last element of its subtree", mf)
                    post(res, "schema_tree.loop.variant_decreases", hyp, z3.And(N - iH >= 0, N - i1.z < N - iH), timeout,
                         "termination of the loop: the cursor strictly advances and stays below len(schema)", mf)
                    evs = b.ghost.get("events", [])[n_ev:]
                    ins = [e for e in evs if e[0] == "insert"]
                    other = [e for e in evs if e[0] in ("insert_other", "set_item", "set_attr", "map_store", "new_dict")]
                    good = z3.BoolVal(False)
                    if len(ins) == 1 and not other:
                        _, oid, pos, kx, vx = ins[0]
                        good = z3.And(z3.BoolVal(oid == d.oid), pos == kH, kx == CH(j, kH), vx == CH(j, kH))
                    post(res, "schema_tree.children_are_the_direct_children_in_order_keyed_by_name", hyp, good, timeout,
                         "iteration k stores exactly one entry into children(i0): position k, key NAME(CHILD(i0,k)), value the element CHILD(i0,k); "
                         "nothing else is stored anywhere (frame)", mf)
                    state["iter"].append(b)
                elif b.ctl == "break":
                    raise Unsupported("schema_tree: break in the child loop")
                else:
                    outs.append(b)
        e = p.fork()
        iE, kE = arbitrary(e)
        for r, c in eng.cond(st.test, e):
            x = r.fork(z3.Not(c))
            if eng.feasible(x):
                outs.append(x)
        return outs

    eng = TEngine(funcs=funcs, handlers={"schema_tree": h_rec, "OrderedDict": h_ordered_dict(True), "dict": h_ordered_dict(True)},
                  loops={("schema_tree", 0): LoopSpec("hook", inv=hook)})
    p = Path()
    p.pc += pre + defs_at(j, z3.IntVal(0))
    try:
        outs = eng.run("schema_tree", p, [Custom(ListV()), PyI(j)])
    except Unsupported as ex:
        res.add("schema_tree.out_of_reach", UNKNOWN, None, 0.0, "engine", str(ex))
        return res
    res.add_engine_obligations(eng, "schema_tree.", timeout, mf)
    n_ret = n_raise = 0
    for q in outs:
        hyp = list(q.pc) + defs_at(j, z3.IntVal(0))
        if q.ctl[0] == "ret":
            n_ret += 1
            try:
                r = eng.as_int(q.ctl[1], q)
            except Unsupported:
                res.add("schema_tree.consumes_exactly_its_subtree", UNKNOWN, None, 0.0, "engine", "the returned value is not an int")
                continue
            post(res, "schema_tree.consumes_exactly_its_subtree", hyp, z3.And(next_after(r, j) == END(j), END(j) <= N, r >= j), timeout,
                 "on return the caller continues at END(i0) = i0 + 1 + sizes of the children's subtrees (the code returns the last index of a "
                 "group's subtree, the index after a leaf), and END(i0) <= len(schema)", mf)
            post(res, "schema_tree.returns_only_when_the_subtree_fits", hyp, FITS(j), timeout,
                 "a normal return means no count below i0 runs past the end of the list (ill-formed: overrun is never accepted)", mf)
            evs = q.ghost.get("events", [])
            sets = [e for e in evs if e[0] == "set_item"]
            news = [e for e in evs if e[0] == "new_dict"]
            d = dict_of_root(q)
            ok = (len(sets) == 1 and sets[0][2] == "children" and same(sets[0][1], j) and d is not None and len(news) == 1 and news[0][1] == d.oid
                  and not [e for e in evs if e[0] in ("set_attr", "map_store", "insert_other")])
            post(res, "schema_tree.children_is_a_fresh_ordered_dict_of_the_element_itself", hyp, z3.BoolVal(bool(ok)), timeout,
                 "children(i0) is ONE new empty order-preserving dict stored in element i0; no other element is written (frame)", mf)
            if d is not None:
                post(res, "schema_tree.children_count_is_declared_count", hyp, d.n(q) == nch(j), timeout, "len(children(i0)) == num_children on return", mf)
        elif q.ctl[0] == "raise":
            n_raise += 1
            post(res, "schema_tree.raises_only_when_a_count_runs_past_the_end", hyp, z3.And(z3.BoolVal(q.ctl[1] == "IndexError"), z3.Not(FITS(j))), timeout,
                 "an exception is an IndexError and implies not FITS(i0): a subtree that fits is never refused (well-formed => no exception)", mf)
    if n_ret == 0:
        res.add("schema_tree.consumes_exactly_its_subtree", UNKNOWN, None, 0.0, "engine", "no returning path")
    # must-fail guard: the negated postcondition is satisfiable on some returning path when the invariant is dropped
    for q in outs:
        if q.ctl[0] == "ret":
            try:
                r = eng.as_int(q.ctl[1], q)
            except Unsupported:
                continue
            g = solve(pre + [next_after(r, j) != END(j)], 2000)
            res.add("schema_tree.must_fail_guard", PROVED if g[0] == REFUTED else UNKNOWN, None, g[2], "z3", "without the path condition the postcondition is falsifiable")
            break
    return res


# =====================================================================================================================
# Part 2: SchemaHelper.__init__
# =====================================================================================================================
def wellformed():
    z = z3.IntVal(0)
    return [z3.Not(NCN(z)), FITS(z), END(z) == N, NODUP(z), N >= 1]


def check_init(funcs, timeout):
    res = Results()
    mf = lambda m: tree_model(m, z3.IntVal(0))
    calls = []

    def h_tree(eng, p, args, kw, node):
        lst = args[0] if args else kw.get("schema")
        iv = args[1] if len(args) > 1 else kw.get("i", PyI(0))
        c = eng.as_int(iv, p)
        whole = isinstance(lst, Custom) and isinstance(lst.h, ListV)
        p.ghost.setdefault("events", []).append(("call_schema_tree", whole, c))
        out = []
        bad = raise_path(eng, p, z3.Or(c >= N, c < 0), "IndexError", node)
        if bad is not None:
            out.append((bad, Opaque("raised")))
        bad = raise_path(eng, p, z3.And(0 <= c, c < N, NCN(c)), "TypeError", node)          # len(...) < None
        if bad is not None:
            out.append((bad, Opaque("raised")))
        bad = raise_path(eng, p, z3.And(0 <= c, c < N, z3.Not(NCN(c)), z3.Not(FITS(c))), "IndexError", node)
        if bad is not None:
            out.append((bad, Opaque("raised")))
        ok = p.fork(z3.And(0 <= c, c < N, z3.Not(NCN(c)), FITS(c)))
        if eng.feasible(ok):
            r = eng.fresh_int("ret_schema_tree")
            ok.pc += [next_after(r, c) == END(c), END(c) <= N]
            ok.ghost["tree"] = (c, r)
            out.append((ok, PyI(r)))
        return out

    def h_flatten(eng, p, args, kw, node):
        p.ghost.setdefault("events", []).append(("call_flatten", list(args), dict(kw)))
        return [(p, NONE)]

    eng = TEngine(funcs=funcs, handlers={"schema_tree": h_tree, "flatten": h_flatten}, opaque_calls=True)
    p = Path()
    p.pc += [N >= 0, z3.Implies(N >= 1, NODUP(z3.IntVal(0)))]
    p.ghost["mode"] = "init"
    try:
        outs = eng.run("SchemaHelper.__init__", p, [Custom(SelfV()), Custom(ListV())])
    except Unsupported as ex:
        res.add("init.out_of_reach", UNKNOWN, None, 0.0, "engine", str(ex))
        return res
    res.add_engine_obligations(eng, "init.", timeout, mf)
    W = wellformed()
    z = z3.IntVal(0)
    n_ret = 0
    for q in outs:
        hyp = list(q.pc)
        if q.ctl[0] == "ret":
            n_ret += 1
            evs = q.ghost.get("events", [])
            attrs = dict((a, v) for a, v in q.ghost.get("self_attrs", []))
            root = attrs.get("root")
            root_idx = root.h.idx if isinstance(root, Custom) and isinstance(root.h, ElemV) else None
            post(res, "init.root_is_element_0", hyp, (root_idx == 0) if root_idx is not None else z3.BoolVal(False), timeout,
                 "self.root is the FIRST element of the list (the format: 'the first element is the root')", mf)
            tc = [e for e in evs if e[0] == "call_schema_tree"]
            fc = [e for e in evs if e[0] == "call_flatten"]
            order_ok = bool(tc and fc) and evs.index(tc[0]) < evs.index(fc[0])
            post(res, "init.schema_tree_called_once_on_the_whole_list_at_element_0", hyp,
                 z3.And(z3.BoolVal(len(tc) == 1 and bool(tc[0][1])), tc[0][2] == 0) if tc else z3.BoolVal(False), timeout,
                 "the tree is built by exactly one call schema_tree(<the whole list>, 0)", mf)
            fl_ok = z3.BoolVal(False)
            if len(fc) == 1 and order_ok:
                a = fc[0][1]
                if len(a) >= 2 and all(isinstance(x, Custom) and isinstance(x.h, ElemV) for x in a[:2]) and len(a) == 2 and not fc[0][2]:
                    fl_ok = z3.And(a[0].h.idx == 0, a[1].h.idx == 0)
            post(res, "init.flatten_called_after_schema_tree_on_the_root_with_the_root_map", hyp, fl_ok, timeout,
                 "flatten(root, root) with the default (empty) name prefix, after the children dicts exist", mf)
            ren = [e for pc_, es, x in q.ghost.get("iter_events", []) for e in es if e[0] == "set_attr"]
            ok_ren = all(e[2] == "name" and isinstance(e[3], Custom) and isinstance(e[3].h, NameV) and same(e[3].h.idx, e[1]) for e in ren)
            others = [e for e in evs if e[0] in ("set_item", "set_attr", "map_store")]
            post(res, "init.elements_only_get_their_own_decoded_name", hyp, z3.BoolVal(bool(ok_ren and not others)), timeout,
                 "the only store into an element before the tree is built is its own name, decoded", mf)
            tree = q.ghost.get("tree")
            if tree is not None and root_idx is not None:
                c, r = tree
                post(res, "root.whole_list_consumed", hyp + W + defs_at(z, z), z3.And(root_idx == 0, c == 0, next_after(r, c) == N), timeout,
                     "well-formed list: the tree rooted at element 0 covers [0, END(0)) == [0, len(schema)): every element exactly once", mf)
            else:
                res.add("root.whole_list_consumed", UNKNOWN, None, 0.0, "engine", "no schema_tree call / root on this path")
            post(res, "schema_tree.ill_formed_list_is_refused[a count runs past the end]", hyp, FITS(z), timeout,
                 "SchemaHelper(...) returns normally only if no count runs past the end of the list (else IndexError)", mf)
            post(res, "schema_tree.ill_formed_list_is_refused[root without num_children]", hyp, z3.Not(NCN(z)), timeout,
                 "a root element without a child count is refused (TypeError)", mf)
            post(res, "schema_tree.ill_formed_list_is_refused[empty schema list]", hyp, N >= 1, timeout, "an empty schema is refused (IndexError)", mf)
            small = [N == 3, NCV(z) == 1] + [z3.And(NCN(z3.IntVal(x_)), NCV(z3.IntVal(x_)) == 0) for x_ in (1, 2)] + defs_at(z3.IntVal(1), z)
            post(res, "schema_tree.ill_formed_list_is_refused[leftover elements after the root's subtree]", hyp + defs_at(z, z), z3.Not(END(z) < N), timeout,
                 "elements after END(0) belong to no tree: the list does not describe ONE tree using the whole list and must be refused", mf, prefer=small)
        else:
            post(res, "init.wellformed_list_is_accepted", hyp + W + defs_at(z, z), z3.BoolVal(False), timeout,
                 "no exception for a well-formed list (this raising path is infeasible under the precondition)", mf)
    if n_ret == 0:
        res.add("root.whole_list_consumed", UNKNOWN, None, 0.0, "engine", "no returning path")
    return res


# =====================================================================================================================
# Part 3: flatten
# =====================================================================================================================
def check_flatten(funcs, en, timeout):
    res = Results()
    RTv, CTv = en["FieldRepetitionType"], en["ConvertedType"]
    x = z3.Int("group")

    def mf(m):
        g = mv(m, x)
        out = {"len_schema": mv(m, N), "group": g}
        try:
            gi = z3.IntVal(g)
            out["group.repetition_type"] = None if mv(m, RTN(gi)) else mv(m, RT(gi))
            out["group.num_children"] = None if mv(m, NCN(gi)) else mv(m, NCV(gi))
        except Exception:
            pass
        return out

    def built_facts(j):
        """the tree schema_tree built (Part 1), for the element j flatten is called on"""
        return [N >= 1, 0 <= j, j < N, HASCH(z3.IntVal(0)),
                z3.Implies(j != 0, HASCH(j) == z3.And(z3.Not(NCN(j)), NCV(j) != 0))]

    for run in ("root", "inner group"):
        tag = "[top level]" if run == "root" else "[nested group]"
        calls = []

        def h_rec(eng, p, args, kw, node, calls=calls):
            p.ghost.setdefault("events", []).append(("rec_flatten", list(args), dict(kw)))
            return [(p, NONE)]

        def h_hasattr(eng, p, args, kw, node):
            o, a = args
            if isinstance(o, Custom) and isinstance(o.h, ElemV) and isinstance(a, Str) and a.s == "children":
                return [(p, PyB(HASCH(o.h.idx)))]
            raise Unsupported("hasattr(...)")

        def h_getattr(eng, p, args, kw, node):
            o, a = args[0], args[1]
            if isinstance(o, Custom) and isinstance(o.h, ElemV) and isinstance(a, Str) and a.s == "children" and len(args) == 3:
                c = o.h.idx
                out = []
                yes = p.fork(HASCH(c))
                if eng.feasible(yes):
                    out.append((yes, Custom(ChildrenV(c))))
                no = p.fork(z3.Not(HASCH(c)))
                if eng.feasible(no):
                    out.append((no, args[2]))
                return out
            if isinstance(o, Custom) and isinstance(o.h, ElemV) and isinstance(a, Str) and len(args) == 2:
                return [(p, o.h.attr(eng, p, a.s))]
            raise Unsupported("getattr(...)")

        def h_join(eng, p, args, kw, node):
            sep, lst = args[0], args[1]
            pv = as_pathval(lst)
            if not (isinstance(sep, Str) and sep.s == "." and pv is not None):
                raise Unsupported("join")
            return [(p, Custom(KeyV(pv.node, pv.ok)))]

        eng = TEngine(funcs=funcs, handlers={"flatten": h_rec, "hasattr": h_hasattr, "getattr": h_getattr, ".join": h_join})
        p = Path()
        p.ghost["mode"] = "built"
        root = Custom(ElemV(z3.IntVal(0)))
        try:
            if run == "root":
                j = z3.IntVal(0)
                p.pc += built_facts(j)
                outs = eng.run("flatten", p, [root, root], closure={"parquet_thrift": thrift_ns(en)})
            else:
                j = x
                p.pc += built_facts(j) + [j >= 1, PARENT(j) >= 0, PARENT(j) < j]
                outs = eng.run("flatten", p, [Custom(ElemV(j)), root, Custom(PathVal(PARENT(j)))], closure={"parquet_thrift": thrift_ns(en)})
        except Unsupported as ex:
            res.add(f"flatten{tag}.out_of_reach", UNKNOWN, None, 0.0, "engine", str(ex))
            continue
        res.add_engine_obligations(eng, f"flatten{tag}.", timeout, mf)
        iters = []
        for q in outs:
            if q.ctl[0] == "raise":
                post(res, f"flatten.no_exception{tag}", list(q.pc), z3.BoolVal(False), timeout, "flatten of a built tree never raises", mf)
            iters = q.ghost.get("iterations", iters) or iters
        leaf_seen = False
        for b in iters:
            it = b.ghost["iter"]
            k, c = it["k"], it["child"]
            hyp = list(b.pc)
            evs = b.ghost.get("events", [])
            stores = [e for e in evs if e[0] == "map_store"]
            recs = [e for e in evs if e[0] == "rec_flatten"]
            flags = [e for e in evs if e[0] == "set_item"]
            other = [e for e in evs if e[0] in ("set_attr", "insert", "insert_other", "new_dict")]
            # the spec's three kinds of child (format + the documented LIST / MAP handling)
            is_leaf = z3.Or(z3.Not(HASCH(c)), nch(c) == 0)
            is_wrapped = z3.And(z3.Not(is_leaf), z3.Not(CTN(c)), z3.Or(CT(c) == CTv["LIST"], CT(c) == CTv["MAP"]))
            is_plain = z3.And(z3.Not(is_leaf), z3.Not(is_wrapped))
            parent_repeated = z3.And(z3.Not(RTN(j)), RT(j) == RTv["REPEATED"])

            def entry_ok():
                if len(stores) != 1 or recs or flags or other:
                    return z3.BoolVal(False)
                _, owner, key, val = stores[0]
                if isinstance(key, Custom) and isinstance(key.h, NameV):
                    key = Custom(KeyV(key.h.idx, [PARENT(key.h.idx) == 0]))      # a bare name is the dotted path exactly for a child of the root
                if not (isinstance(key, Custom) and isinstance(key.h, KeyV) and isinstance(val, Custom) and isinstance(val.h, ElemV)):
                    return z3.BoolVal(False)
                return z3.And(owner == 0, key.h.node == c, val.h.idx == c, *key.h.ok)

            def expand_ok():
                if stores or len(recs) != 1 or len(flags) != 1 or other:
                    return z3.BoolVal(False)
                a, kw_ = recs[0][1], recs[0][2]
                if len(a) != 3 or kw_:
                    return z3.BoolVal(False)
                pv = as_pathval(a[2])
                if not (isinstance(a[0], Custom) and isinstance(a[0].h, ElemV) and isinstance(a[1], Custom) and isinstance(a[1].h, ElemV) and pv is not None):
                    return z3.BoolVal(False)
                f = flags[0]
                flag_ok = z3.And(f[1] == c, z3.BoolVal(f[2] == "isflat"), eng.truth(f[3], b) if isinstance(f[3], (PyB, PyI)) else z3.BoolVal(False))
                return z3.And(a[0].h.idx == c, a[1].h.idx == 0, pv.node == j, *pv.ok, flag_ok)

            silent = z3.BoolVal(not stores and not recs and not flags and not other)
            post(res, f"flatten.leaf_paths{tag}[leaf: entry under its dotted path]", hyp + [z3.Not(parent_repeated), is_leaf], entry_ok(), timeout,
                 "a child without children gets exactly one entry in the ROOT's map: key '.'.join(names from below the root), value the child itself", mf)
            post(res, f"flatten.leaf_paths{tag}[LIST / MAP group: kept whole under its own dotted path]", hyp + [z3.Not(parent_repeated), is_wrapped], entry_ok(), timeout,
                 "a group annotated LIST or MAP is one column, addressed by the group's path (core.read_row_group_arrays: path_in_schema[:-2])", mf)
            post(res, f"flatten.leaf_paths{tag}[plain group: expanded with its own path, marked isflat]", hyp + [z3.Not(parent_repeated), is_plain], expand_ok(), timeout,
                 "a plain group is expanded by flatten(child, root, <path of the group being flattened>) and marked isflat (so ParquetFile._dtypes skips it); "
                 "no entry of its own", mf)
            if run != "root":                       # the format gives the root no repetition type
                post(res, f"flatten.children_of_a_repeated_group_are_offered_or_refused{tag}", hyp + [parent_repeated], z3.Not(silent), timeout,
                     "leaves below a REPEATED group without LIST / MAP annotation are outside the supported set: they must be offered or the file refused, "
                     "not dropped silently", mf, prefer=[N == 4, x == 2, k == 0, c == 3, z3.Not(NCN(x)), NCV(x) == 1])
            live = z3.BoolVal(not it["snapshot"])
            post(res, f"flatten.iterates_over_a_snapshot_of_the_map_it_fills{tag}", hyp, z3.Not(z3.And(live, j == 0)), timeout,
                 "the root's children dict is the map being filled: iterating it needs a copy", mf)
            leaf_seen = True
        if not leaf_seen:
            res.add(f"flatten.leaf_paths{tag}", UNKNOWN, None, 0.0, "engine", "the child loop produced no iteration path")
        # the early return: only an element without children dict is left alone
        for q in outs:
            if q.ctl[0] == "ret" and "iterations" not in q.ghost:
                post(res, f"flatten.only_an_element_without_children_is_left_alone{tag}", list(q.pc), z3.And(z3.Not(HASCH(j)), z3.BoolVal(not q.ghost.get("events"))), timeout,
                     "the early return (before the child loop) is taken only for an element without a children dict, and stores nothing", mf)
    return res


# =====================================================================================================================
# Part 4: SchemaHelper.schema_element
# =====================================================================================================================
def check_schema_element(funcs, timeout):
    res = Results()

    def mf(m):
        return {"len_schema": mv(m, N), "len_path": mv(m, PATHLEN)}

    for form, arg in (("list", PathArgV()), ("dotted str", DottedStrV())):
        tag = f"[{form}]"
        eng = TEngine(funcs=funcs, handlers={})
        p = Path()
        p.ghost["mode"] = "built"
        p.pc += [N >= 1, PATHLEN >= 0, FOLLOW(0) == 0, HASCH(z3.IntVal(0))]
        selfv = Custom(SelfV({"root": Custom(ElemV(z3.IntVal(0)))}))
        try:
            outs = eng.run("SchemaHelper.schema_element", p, [selfv, Custom(arg)])
        except Unsupported as ex:
            res.add(f"schema_element{tag}.out_of_reach", UNKNOWN, None, 0.0, "engine", str(ex))
            continue
        res.add_engine_obligations(eng, f"schema_element{tag}.", timeout, mf)
        n_ret = 0
        for q in outs:
            hyp = list(q.pc)
            entry = q.ghost.get("walk_entry")
            if q.ctl[0] == "ret":
                n_ret += 1
                v = q.ctl[1]
                got = v.h.idx if isinstance(v, Custom) and isinstance(v.h, ElemV) else None
                post(res, f"schema_element.result_is_the_element_at_the_path{tag}", hyp, (got == FOLLOW(PATHLEN)) if got is not None else z3.BoolVal(False), timeout,
                     "returns FOLLOW(len(path)): the element reached from the root by descending to the child named by each part in turn", mf)
                if entry is not None:
                    post(res, f"schema_element.starts_at_the_root{tag}", entry[0], entry[1] == FOLLOW(0), timeout, "the walk starts at self.root (element 0)", mf)
                steps = q.ghost.get("walk_steps", [])
                for b in steps:
                    w = b.ghost["walk"]
                    d = w["d"]
                    cur = b.env[w["var"]]
                    nxt = cur.h.idx if isinstance(cur, Custom) and isinstance(cur.h, ElemV) else None
                    spec_next = CBN(FOLLOW(d), PART(d))
                    post(res, f"schema_element.step_descends_to_the_child_named_by_the_part{tag}", list(b.pc) + [FOLLOW(d + 1) == spec_next],
                         (nxt == FOLLOW(d + 1)) if nxt is not None else z3.BoolVal(False), timeout,
                         "one arbitrary step: from FOLLOW(d) to its child named name[d]", mf)
                    post(res, f"schema_element.step_needs_a_child_of_that_name{tag}", list(b.pc), z3.And(HASCH(FOLLOW(d)), HASKEY(FOLLOW(d), PART(d))), timeout,
                         "a step completes only if the current element has a child of that name", mf)
                if not steps:
                    res.add(f"schema_element.step_descends_to_the_child_named_by_the_part{tag}", UNKNOWN, None, 0.0, "engine", "no completed step path")
            else:
                w = q.ghost.get("walk")
                if w is None:
                    post(res, f"schema_element.unknown_name_raises{tag}", hyp, z3.BoolVal(False), timeout, "an exception outside the path walk", mf)
                    continue
                d = w["d"]
                post(res, f"schema_element.unknown_name_raises{tag}", hyp,
                     z3.And(z3.BoolVal(q.ctl[1] in ("KeyError", "TypeError")), z3.Not(z3.And(HASCH(FOLLOW(d)), HASKEY(FOLLOW(d), PART(d))))), timeout,
                     "an exception is a KeyError (no child of that name) or a TypeError (below a leaf) and is raised only for a name that does not exist", mf)
        if n_ret == 0:
            res.add(f"schema_element.result_is_the_element_at_the_path{tag}", UNKNOWN, None, 0.0, "engine", "no returning path")
    return res


# =====================================================================================================================
# call sites of the flat name map (structural, backend ast)
# =====================================================================================================================
def check_callsites(timeout):
    res = Results()
    api, _, _ = parse_module("fastparquet/api.py")
    core, _, _ = parse_module("fastparquet/core.py")
    src = ast.unparse(api["ParquetFile._dtypes"].tree)
    ok = ("self.schema.root['children'].items()" in src and "getattr(f, 'isflat', False) is False" in src and "f.num_children in [None, 0]" in src)
    res.add("callsite._dtypes.columns_are_the_unexpanded_entries_of_the_root_map_in_map_order", PROVED if ok else UNKNOWN, None, 0.0, "ast",
            "ParquetFile._dtypes (hence .columns and the DataFrame's column order) takes the entries of root['children'] that are not marked isflat, in the "
            "map's order; typemap for an entry without children, object for a LIST / MAP group")
    src = ast.unparse(api["ParquetFile.columns"].tree)
    ok = "for _ in self.dtypes" in src
    res.add("callsite.columns.order_is_dtypes_order", PROVED if ok else UNKNOWN, None, 0.0, "ast", "ParquetFile.columns lists self.dtypes in order (minus partition columns)")
    src = ast.unparse(core["read_row_group_arrays"].tree)
    ok = ("for column in rg.columns" in src and "name = '.'.join(column.meta_data.path_in_schema[:-2])" in src
          and "name = '.'.join(column.meta_data.path_in_schema)" in src and "if name not in columns or name in cats" in src
          and "_is_list_like(schema_helper, column) or _is_map_like(schema_helper, column)" in src)
    res.add("callsite.read_row_group_arrays.chunks_matched_to_columns_by_dotted_name", PROVED if ok else UNKNOWN, None, 0.0, "ast",
            "a column chunk is matched to a requested column BY NAME ('.'.join(path_in_schema), path[:-2] for the LIST / MAP layouts) - the key of the flat map - "
            "not by its position: values do not depend on map order vs chunk order")
    src = ast.unparse(api["ParquetFile._set_attrs"].tree)
    ok = "self.schema = schema.SchemaHelper(self._schema)" in src and "self._schema = fmd.schema" in src
    res.add("callsite._set_attrs.helper_built_from_the_footer_schema_list", PROVED if ok else UNKNOWN, None, 0.0, "ast",
            "the SchemaHelper of a ParquetFile is built from fmd.schema, the whole list as parsed from the footer")
    return res


# =====================================================================================================================
# driver
# =====================================================================================================================
FAMILIES = ("tree", "init", "flatten", "element", "callsites", "native", "meta", "nativemeta", "codec")
FUNCTION_OF = {"tree": "schema.schema_tree", "init": "schema.SchemaHelper.__init__", "flatten": "schema.flatten", "element": "schema.SchemaHelper.schema_element",
               "native": "schema.SchemaHelper (executed)", "callsites": "api.ParquetFile._dtypes / core.read_row_group_arrays (call sites)", "meta": "writer.make_metadata", "nativemeta": "writer.make_metadata",
               "codec": "compression (tables, compress_data, decompress_data)"}


def register(ctx, families):
    """functions under contract -> evidence (hash of the extracted text)"""
    sf, _, _ = parse_module("fastparquet/schema.py")
    wf, _, _ = parse_module("fastparquet/writer.py")
    want = set()
    if {"tree", "native"} & set(families):
        want |= {("schema.schema_tree", sf["schema_tree"])}
    if {"init", "native"} & set(families):
        want |= {("schema.SchemaHelper.__init__", sf["SchemaHelper.__init__"])}
    if {"flatten", "native"} & set(families):
        want |= {("schema.flatten", sf["flatten"])}
    if {"element", "native"} & set(families):
        want |= {("schema.SchemaHelper.schema_element", sf["SchemaHelper.schema_element"])}
    if {"meta", "nativemeta"} & set(families):
        want |= {("writer.make_metadata", wf["make_metadata"]), ("writer.find_type", wf["find_type"])}
    for q, f in sorted(want, key=lambda t: t[0]):
        ctx.function(q, f.sha, f.report)
    if "codec" in families:
        cf, _, csrc = parse_module("fastparquet/compression.py")
        ctx.function("compression (tables, compress_data, decompress_data)", sha(csrc), {"lines_in": csrc.count("\n") + 1, "executed": True})
        kf, _, _ = parse_module("fastparquet/core.py")
        ctx.function("core._read_page", kf["_read_page"].sha, kf["_read_page"].report)



def _family(name, timeout):
    if name in ("tree", "init", "flatten", "element"):
        funcs, _, _ = parse_module("fastparquet/schema.py")
        if name == "tree":
            return check_schema_tree(funcs, timeout)
        if name == "init":
            return check_init(funcs, timeout)
        if name == "flatten":
            return check_flatten(funcs, enums_from_source(), timeout)
        return check_schema_element(funcs, timeout)
    if name == "meta":
        return check_make_metadata(timeout)
    if name == "callsites":
        return check_callsites(timeout)
    if name == "native":
        return check_native(timeout)
    if name == "nativemeta":
        return check_native_meta(timeout)
    if name == "codec":
        return check_codecs(timeout)
    raise KeyError(name)


def run_families(which, timeout):
    """each family on its own: an unmodelled construct in one of them makes THAT family out_of_reach (unknown), never the others"""
    names = FAMILIES if which == "all" else tuple(which.split(","))
    for name in names:
        try:
            yield name, _family(name, timeout)
        except Unsupported as ex:
            r = Results()
            r.add(f"schematree[{name}].out_of_reach", UNKNOWN, None, 0.0, "engine", str(ex))
            yield name, r
        except Exception as ex:                               # the proof script failed on this source: undecided, never a violation
            import traceback
            r = Results()
            r.add(f"schematree[{name}].out_of_reach", UNKNOWN, None, 0.0, "engine",
                  f"{type(ex).__name__}: {ex} | " + " | ".join(x.strip() for x in traceback.format_exc().splitlines()[-4:-1]))
            yield name, r


# =====================================================================================================================
# Part 5: writer.make_metadata emits a well-formed pre-order list (structural) + the lemma that this shape is well-formed
# =====================================================================================================================
def _is_name(n, s_):
    return isinstance(n, ast.Name) and n.id == s_


def _body_paths(stmts, effect):
    """all control paths through a statement list: [(effects, terminator)]; `effect(stmt)` -> effect tag or None; a compound
    statement (other than if) that contains an effect is not modelled (None)"""
    paths = [([], None)]
    for st in stmts:
        nxt = []
        for effs, term in paths:
            if term is not None:
                nxt.append((effs, term))
                continue
            if isinstance(st, ast.If):
                for sub in (st.body, st.orelse):
                    r = _body_paths(sub, effect)
                    if r is None:
                        return None
                    nxt += [(effs + e2, t2) for e2, t2 in r]
            elif isinstance(st, ast.Continue):
                nxt.append((effs, "continue"))
            elif isinstance(st, ast.Break):
                nxt.append((effs, "break"))
            elif isinstance(st, ast.Return):
                nxt.append((effs, "return"))
            elif isinstance(st, ast.Raise):
                nxt.append((effs, "raise"))
            elif isinstance(st, (ast.For, ast.While, ast.With, ast.Try)):
                if any(effect(s2) for s2 in ast.walk(st) if isinstance(s2, ast.stmt)):
                    return None
                nxt.append((effs, None))
            else:
                e = effect(st)
                nxt.append((effs + [e] if e else effs, None))
        paths = nxt
    return paths


def check_make_metadata(timeout):
    res = Results()
    funcs, _, _ = parse_module("fastparquet/writer.py")
    f, ft = funcs["make_metadata"], funcs["find_type"]
    tree = f.tree
    problems = []
    root_var = schema_var = None
    try:
        from spec import thrift_idl
        nc_id = {x.name: x.id for x in thrift_idl.load().structs["SchemaElement"]}["num_children"]
    except Exception:
        nc_id = 5
    for st in ast.walk(tree):
        if isinstance(st, ast.Assign) and len(st.targets) == 1 and isinstance(st.targets[0], ast.Name) and isinstance(st.value, ast.Call):
            if ast.unparse(st.value.func) == "parquet_thrift.SchemaElement":
                kws = {k.arg: k.value for k in st.value.keywords}
                if "num_children" in kws:
                    root_var = st.targets[0].id
                    if not (isinstance(kws["num_children"], ast.Constant) and kws["num_children"].value == 0):
                        problems.append("the root is not created with num_children=0")
    if root_var is None:
        problems.append("no SchemaElement created with a num_children (the root) found")
    for st in ast.walk(tree):
        if isinstance(st, ast.Assign) and len(st.targets) == 1 and isinstance(st.targets[0], ast.Name) and isinstance(st.value, ast.List) \
                and len(st.value.elts) == 1 and root_var and _is_name(st.value.elts[0], root_var):
            schema_var = st.targets[0].id
    if schema_var is None:
        problems.append("no `<list> = [root]` found: the root is not the first element")

    def is_append(st):
        return (isinstance(st, ast.Expr) and isinstance(st.value, ast.Call) and isinstance(st.value.func, ast.Attribute)
                and _is_name(st.value.func.value, schema_var) and st.value.func.attr == "append" and len(st.value.args) == 1)

    def count_target(t):
        if isinstance(t, ast.Subscript) and _is_name(t.value, root_var) and isinstance(t.slice, ast.Constant) and t.slice.value == nc_id:
            return True
        return isinstance(t, ast.Attribute) and _is_name(t.value, root_var) and t.attr == "num_children"

    def effect(st):
        if is_append(st):
            return ("append", ast.unparse(st.value.args[0]))
        if isinstance(st, ast.AugAssign) and count_target(st.target):
            ok = isinstance(st.op, ast.Add) and isinstance(st.value, ast.Constant) and st.value.value == 1
            return ("count+1",) if ok else ("count?", ast.unparse(st))
        if isinstance(st, ast.Assign) and any(count_target(t) for t in st.targets):
            return ("count?", ast.unparse(st))
        if isinstance(st, (ast.Expr, ast.Assign, ast.AugAssign)) and schema_var:
            # any other mutation of the schema list
            for n in ast.walk(st):
                if isinstance(n, ast.Call) and isinstance(n.func, ast.Attribute) and _is_name(n.func.value, schema_var) and n.func.attr in (
                        "insert", "extend", "pop", "remove", "clear", "reverse", "sort"):
                    return ("list?", ast.unparse(st))
            tg = st.targets if isinstance(st, ast.Assign) else [st.target] if isinstance(st, ast.AugAssign) else []
            for t in tg:
                if (isinstance(t, ast.Subscript) and _is_name(t.value, schema_var)) or (isinstance(st, ast.AugAssign) and _is_name(t, schema_var)):
                    return ("list?", ast.unparse(st))
        return None

    loops = [n for n in ast.walk(tree) if isinstance(n, ast.For) and any(is_append(s2) for s2 in ast.walk(n) if isinstance(s2, ast.stmt))] if schema_var else []
    appended = set()
    if len(loops) != 1:
        problems.append(f"{len(loops)} loops append to the schema list (expected the one loop over data.columns)")
    else:
        lp = loops[0]
        if ast.unparse(lp.iter) != "data.columns":
            problems.append("the loop that appends schema elements does not run over data.columns: " + ast.unparse(lp.iter))
        paths = _body_paths(lp.body, effect)
        if paths is None:
            problems.append("an append / count update sits inside a nested compound statement (not modelled)")
        else:
            for effs, term in paths:
                apps = [e for e in effs if e[0] == "append"]
                incs = [e for e in effs if e[0] == "count+1"]
                bad = [e for e in effs if e[0] in ("count?", "list?")]
                appended |= {e[1] for e in apps}
                if bad:
                    problems.append("unmodelled update of the root count / schema list: " + "; ".join(e[-1] for e in bad))
                elif term in ("return", "break"):
                    problems.append(f"a path of the column loop ends with {term}")
                elif not (len(apps) == len(incs) and len(apps) <= 1):
                    problems.append(f"a path of the column loop appends {len(apps)} element(s) but adds {len(incs)} to root.num_children")
                elif term == "continue" and apps:
                    pass
        # effects outside the loop
        for st in ast.walk(tree):
            if isinstance(st, ast.stmt) and not any(st is s2 for s2 in ast.walk(lp)):
                e = effect(st)
                if e and not (isinstance(st, ast.Assign) and st.value and isinstance(st.value, ast.List)):
                    problems.append("schema list / root count updated outside the column loop: " + ast.unparse(st)[:80])
    # the list becomes fmd.schema
    if schema_var and not any(isinstance(st, ast.Assign) and any(ast.unparse(t).endswith(".schema") for t in st.targets) and _is_name(st.value, schema_var)
                              for st in ast.walk(tree)):
        problems.append("the list is not stored as fmd.schema")
    # appended elements are flat: they come from find_type, nothing sets their num_children
    flat_problems = []
    for v in appended:
        srcs = [st for st in ast.walk(tree) if isinstance(st, ast.Assign)
                and any(v in {n.id for n in ast.walk(t) if isinstance(n, ast.Name) and isinstance(n.ctx, ast.Store)} for t in st.targets)]
        if not srcs or any(not isinstance(st.value, ast.Call) or ast.unparse(st.value.func) != "find_type" for st in srcs):
            flat_problems.append(f"`{v}` is not (only) the element returned by find_type")
    for st in ast.walk(tree):
        tg = st.targets if isinstance(st, ast.Assign) else [st.target] if isinstance(st, ast.AugAssign) else []
        for t in tg:
            if (isinstance(t, ast.Attribute) and t.attr == "num_children") or (isinstance(t, ast.Subscript) and isinstance(t.slice, ast.Constant) and t.slice.value == nc_id):
                if not count_target(t):
                    flat_problems.append("num_children of a column element is set: " + ast.unparse(st)[:60])
    for n in ast.walk(ft.tree):
        if isinstance(n, ast.Call) and ast.unparse(n.func) == "parquet_thrift.SchemaElement":
            if any(k.arg in (None, "num_children") for k in n.keywords):
                flat_problems.append("find_type creates a SchemaElement with num_children / **kwargs")
        if isinstance(n, (ast.Assign, ast.AugAssign)):
            for t in (n.targets if isinstance(n, ast.Assign) else [n.target]):
                if (isinstance(t, ast.Attribute) and t.attr == "num_children") or (isinstance(t, ast.Subscript) and isinstance(t.slice, ast.Constant) and t.slice.value == nc_id):
                    flat_problems.append("find_type sets num_children")
    res.add("make_metadata.schema_is_wellformed_preorder", PROVED if not problems else REFUTED, None if not problems else {"problems": problems}, 0.0, "ast",
            "structural: root created first with num_children=0, `schema = [root]`; every path through the one loop over data.columns either skips the "
            "column or appends exactly one element AND adds exactly 1 to root.num_children (field id %d); nothing else touches either; the list "
            "becomes fmd.schema  =>  root.num_children == number of top-level columns emitted" % nc_id)
    res.add("make_metadata.columns_are_flat_leaves", PROVED if not flat_problems else REFUTED, None if not flat_problems else {"problems": flat_problems}, 0.0, "ast",
            "structural: every appended element is the SchemaElement find_type built (no num_children, no **kwargs) and nothing sets a count on it")
    dup_guard = any(isinstance(n, ast.If) and "is_unique" in ast.unparse(n.test) and any(isinstance(s2, ast.Raise) for s2 in n.body) for n in tree.body)
    res.add("make_metadata.duplicate_column_names_are_refused", PROVED if dup_guard else REFUTED, None if dup_guard else {"problem": "no is_unique guard"}, 0.0, "ast",
            "structural: `if not data.columns.is_unique: raise` at the top level of make_metadata (sibling names distinct = reader precondition; the "
            "rejection itself is C18's write.rejects[make_metadata:duplicate_column_names])")
    # lemma: [root/n, n leaves] satisfies the reader's precondition  (induction over the column position k)
    z, k, n = z3.IntVal(0), z3.Int("k_col"), z3.Int("n_cols")
    leaf = lambda x: nch(x) == 0
    shape = [n >= 0, N == n + 1, z3.Not(NCN(z)), NCV(z) == n]
    post(res, "make_metadata.schema_is_wellformed_preorder[lemma: induction base]", shape + defs_at(z, z), z3.And(CH(z, 0) == 1, PFITS(z, 0)), timeout,
         "CHILD(0, 0) == 1: the first column follows the root")
    post(res, "make_metadata.schema_is_wellformed_preorder[lemma: induction step]",
         shape + [0 <= k, k < n, CH(z, k) == k + 1, PFITS(z, k), leaf(k + 1)] + defs_at(z, k) + defs_at(k + 1, z),
         z3.And(CH(z, k + 1) == k + 2, PFITS(z, k + 1)), timeout, "column k is a leaf at index k + 1 => column k + 1 starts at k + 2, and the first k + 1 children fit")
    post(res, "make_metadata.schema_is_wellformed_preorder[lemma: conclusion]", shape + [CH(z, n) == n + 1, PFITS(z, n)] + defs_at(z, z),
         z3.And(END(z) == N, FITS(z)), timeout, "with k = n: END(0) == len(schema) and FITS(0): the list the writer emits satisfies the reader's precondition")
    return res


# =====================================================================================================================
# Part 6: EXECUTED ENUMERATION on the real schema module
# =====================================================================================================================
def ordered_trees(n):
    """all ordered rooted trees with n nodes as nested tuples of children"""
    if n == 1:
        return [()]
    out = []

    def forests(m):                      # ordered forests with m nodes in total
        if m == 0:
            return [()]
        r = []
        for first in range(1, m + 1):
            for t in ordered_trees(first):
                for rest in forests(m - first):
                    r.append((t,) + rest)
        return r
    return [f for f in forests(n - 1)]


def preorder(tree):
    """-> list of (count, parent index) in pre-order"""
    out = []

    def rec(t, parent):
        me = len(out)
        out.append([len(t), parent])
        for c in t:
            rec(c, me)
    rec(tree, -1)
    return out


def demanded_end(counts):
    """reference reading of a count vector: ('root_none',) | ('overrun',) | ('end', END(0)) - written from the format, independent of schema.py"""
    n = len(counts)
    if counts[0] is None:
        return ("root_none",)

    def end(j):
        c = counts[j] if counts[j] is not None and counts[j] > 0 else 0
        nxt = j + 1
        for _ in range(c):
            if nxt >= n:
                raise IndexError
            nxt = end(nxt)
        return nxt
    try:
        return ("end", end(0))
    except IndexError:
        return ("overrun",)


def check_native(timeout):
    res = Results()
    from runtime.harness import import_fastparquet
    fp = import_fastparquet()
    from fastparquet import parquet_thrift as pt, schema as sch
    t0 = time.time()
    I32 = pt.Type.INT32

    def mk(name, count=None, leaf_type=True, **kw):
        d = dict(name=name, **kw)
        if count is not None:
            d["num_children"] = count
        if leaf_type and not count:
            d["type"] = I32
        return pt.SchemaElement(i32=True, **d)

    def ch(e):
        c = e["children"]
        return c if c is not None else None

    # ---- protocol facts the symbolic model assumes
    a = mk("a")
    proto = (not hasattr(a, "children")) and a["children"] is None and getattr(a, "children", 7) == 7
    a["children"] = {"q": 1}
    proto = proto and hasattr(a, "children") and a["children"] == {"q": 1} and getattr(a, "children", 7) == {"q": 1}
    res.add("thriftobject.children_item_protocol", PROVED if proto else REFUTED, None, 0.0, "enumeration",
            "x['children'] is None / hasattr False / getattr default until stored, the stored dict afterwards (assumption of Parts 1-4, executed)")

    # ---- X1: every ordered tree with <= 7 nodes
    bad, n_trees = [], 0
    all_trees = {n: ordered_trees(n) for n in range(1, 8)}
    for n in range(1, 8):
        for t in all_trees[n]:
            n_trees += 1
            po = preorder(t)
            elems = [mk(f"n{x}", (c if c else (0 if x % 2 else None)) if x else c) for x, (c, par) in enumerate(po)]
            try:
                r = sch.schema_tree(elems, 0)
            except Exception as ex:
                bad.append({"tree": str(t), "raised": type(ex).__name__})
                continue
            size = [0] * n
            for x in range(n - 1, -1, -1):
                size[x] += 1
                if po[x][1] >= 0:
                    size[po[x][1]] += size[x]
            want_r = (n - 1) if po[0][0] else 1
            ok = r == want_r
            for x in range(n):
                kids = [y for y in range(n) if po[y][1] == x]
                c = ch(elems[x])
                if x == 0 or po[x][0]:
                    ok = ok and c is not None and list(c) == [f"n{y}" for y in kids] and all(c[f"n{y}"] is elems[y] for y in kids)
                    if po[x][0]:
                        ok = ok and sch.schema_tree(elems, x) == x + size[x] - 1
                else:
                    ok = ok and c is None
            if not ok:
                bad.append({"tree": str(t), "returned": r})
    res.add("schema_tree.native_tree_is_the_spec_tree[all ordered trees with <= 7 nodes]", PROVED if not bad else REFUTED, None if not bad else {"first": bad[:3], "n": len(bad)},
            0.0, "enumeration", f"{n_trees} trees: children dicts == direct children in order by name (identity), leaves get none, "
            "the value returned for a group is the last index of its subtree - bounded: <= 7 nodes")

    # ---- X2: every count vector over {None,0,1,2,3} with <= 5 elements
    classes = {"wellformed": [], "overrun": [], "leftover": [], "root_none": []}
    for n in range(1, 6):
        for counts in itertools.product((None, 0, 1, 2, 3), repeat=n):
            d = demanded_end(counts)
            kind = "root_none" if d[0] == "root_none" else "overrun" if d[0] == "overrun" else "wellformed" if d[1] == n else "leftover"
            elems = [mk(f"n{x}", c) for x, c in enumerate(counts)]
            try:
                h = sch.SchemaHelper(elems)
                got = "accepted"
            except Exception as ex:
                got = type(ex).__name__
            classes[kind].append((counts, got))
    for kind, want_raise, name, why in (
            ("overrun", True, "schema_tree.ill_formed_list_is_refused[native: a count runs past the end]", "every such vector raises"),
            ("root_none", True, "schema_tree.ill_formed_list_is_refused[native: root without num_children]", "every such vector raises"),
            ("leftover", True, "schema_tree.ill_formed_list_is_refused[native: leftover elements after the root's subtree]", "every such vector raises"),
            ("wellformed", False, "init.wellformed_list_is_accepted[native]", "every well-formed vector is accepted")):
        wrong = sorted([(c, g) for c, g in classes[kind] if (g == "accepted") == want_raise], key=lambda w: (not w[0][0], None in w[0][:1], len(w[0])))
        res.add(name, PROVED if not wrong else REFUTED,
                None if not wrong else {"num_children": list(wrong[0][0]), "SchemaHelper": wrong[0][1], "vectors_in_class": len(classes[kind]), "misbehaving": len(wrong)},
                0.0, "enumeration", f"{len(classes[kind])} count vectors of this class over (None,0,1,2,3)^n, n <= 5: {why} - bounded")
    # duplicate sibling names in an otherwise well-formed list
    dup_bad, n_dup = [], 0
    for n in range(2, 7):
        for t in all_trees[n]:
            po = preorder(t)
            for x in range(n):
                kids = [y for y in range(n) if po[y][1] == x]
                for a_, b_ in itertools.combinations(kids, 2):
                    names = [f"n{y}" for y in range(n)]
                    names[b_] = names[a_]
                    elems = [mk(names[y], po[y][0] if po[y][0] or y == 0 else None) for y in range(n)]
                    n_dup += 1
                    try:
                        sch.SchemaHelper(elems)
                        dup_bad.append({"num_children": [c for c, _ in po], "names": names})
                    except Exception:
                        pass
    res.add("schema_tree.duplicate_sibling_names_are_refused[native: well-formed counts, <= 6 nodes]", PROVED if not dup_bad else REFUTED,
            None if not dup_bad else {"first": dup_bad[0], "accepted": len(dup_bad)}, 0.0, "enumeration",
            f"{n_dup} lists with one repeated sibling name: the name-keyed dict is one entry short, the loop over-reads and ends in IndexError - bounded")

    # ---- X3 / X4: flat map, leaf order, schema_element, on every tree with <= 6 nodes x plain / LIST annotation of each group
    LIST = pt.ConvertedType.LIST
    fl_bad, ord_flat_bad, ord_nest_bad, se_bad = [], [], [], []
    n_fl = n_flat = n_nest = n_se = 0
    for n in range(2, 7):
        for t in all_trees[n]:
            po = preorder(t)
            groups = [x for x in range(1, n) if po[x][0]]
            for ann in itertools.product((False, True), repeat=len(groups)):
                is_list = dict(zip(groups, ann))
                elems = []
                for x, (c, par) in enumerate(po):
                    kw = {} if x == 0 else {"repetition_type": 1}
                    if is_list.get(x):
                        kw["converted_type"] = LIST
                    elems.append(mk(f"n{x}", c if (c or x == 0) else None, **kw))
                try:
                    h = sch.SchemaHelper(elems)
                except Exception as ex:
                    fl_bad.append({"num_children": [c for c, _ in po], "raised": type(ex).__name__})
                    continue
                n_fl += 1
                path = {0: []}
                for x in range(1, n):
                    path[x] = path[po[x][1]] + [f"n{x}"]
                entries, expanded = [], set()

                def walk(g):
                    for y in [y for y in range(n) if po[y][1] == g]:
                        if not po[y][0] or is_list.get(y):
                            entries.append(y)
                        else:
                            expanded.add(y)
                            walk(y)
                walk(0)
                want = {}
                for y in [y for y in range(n) if po[y][1] == 0]:
                    want[f"n{y}"] = y
                for y in entries:
                    want[".".join(path[y])] = y
                got = h.root["children"]
                ok = set(got) == set(want) and all(got[k_] is elems[v] for k_, v in want.items())
                ok = ok and all(bool(getattr(elems[y], "isflat", False)) == (y in expanded) for y in range(1, n))
                if not ok:
                    fl_bad.append({"num_children": [c for c, _ in po], "LIST": [x for x in groups if is_list[x]], "map_keys": list(got)})
                offered = [k_ for k_, f_ in got.items() if getattr(f_, "isflat", False) is False]
                schema_order = [".".join(path[y]) for y in sorted(entries)]
                if expanded:
                    n_nest += 1
                    if offered != schema_order:
                        ord_nest_bad.append({"num_children": [c for c, _ in po], "schema_order": schema_order, "offered": offered})
                else:
                    n_flat += 1
                    if offered != schema_order:
                        ord_flat_bad.append({"num_children": [c for c, _ in po], "schema_order": schema_order, "offered": offered})
                # schema_element: every node by list path and by dotted str; unknown names raise
                for y in range(1, n):
                    n_se += 1
                    try:
                        o1 = h.schema_element(path[y]) is elems[y]
                        o2 = h.schema_element(".".join(path[y])) is elems[y]
                    except Exception as ex:
                        o1 = o2 = False
                    r_unknown = []
                    for bad_path in (path[y][:-1] + ["zz"], path[y] + ["zz"]):
                        try:
                            h.schema_element(bad_path)
                            r_unknown.append("returned")
                        except (KeyError, TypeError):
                            r_unknown.append("raised")
                    if not (o1 and o2 and r_unknown == ["raised", "raised"]):
                        se_bad.append({"num_children": [c for c, _ in po], "path": path[y], "list": o1, "str": o2, "unknown": r_unknown})
    res.add("flatten.native_map_is_the_spec_map[trees <= 6 nodes x plain/LIST groups]", PROVED if not fl_bad else REFUTED, None if not fl_bad else {"first": fl_bad[0], "n": len(fl_bad)},
            0.0, "enumeration", f"{n_fl} annotated trees: root map == top-level children + one entry per leaf / LIST group under its dotted path (identity); isflat == expanded groups - bounded")
    res.add("flatten.leaf_order_is_schema_order[flat schemas]", PROVED if not ord_flat_bad else REFUTED, None if not ord_flat_bad else {"first": ord_flat_bad[0], "n": len(ord_flat_bad)},
            0.0, "enumeration", f"{n_flat} schemas without plain groups (what fastparquet writes): the columns offered (entries not marked isflat, the order ParquetFile._dtypes / "
            ".columns take) are in schema = column-chunk order - bounded")
    res.add("flatten.leaf_order_is_schema_order[schemas with plain groups]", PROVED if not ord_nest_bad else REFUTED,
            None if not ord_nest_bad else {"first": ord_nest_bad[0], "n": len(ord_nest_bad), "of": n_nest}, 0.0, "enumeration",
            f"{n_nest} schemas with at least one plain (struct) group: columns offered in schema = column-chunk order - bounded")
    res.add("schema_element.native_path_walk[trees <= 6 nodes]", PROVED if not se_bad else REFUTED, None if not se_bad else {"first": se_bad[0], "n": len(se_bad)},
            0.0, "enumeration", f"{n_se} (tree, node) pairs: schema_element(list path) and schema_element(dotted str) return that node; an unknown name / a step below a leaf "
            "raises KeyError / TypeError - bounded")

    # ---- REPEATED group without annotation
    elems = [mk("schema", 2), mk("id", repetition_type=0), mk("g", 1, repetition_type=2), mk("x", repetition_type=0)]
    h = sch.SchemaHelper(elems)
    offered = [k_ for k_, f_ in h.root["children"].items() if getattr(f_, "isflat", False) is False]
    silent = "g.x" not in h.root["children"] and "g" not in offered
    res.add("flatten.children_of_a_repeated_group_are_offered_or_refused[native]", REFUTED if silent else PROVED,
            {"schema": "[schema/2, id, g/1 REPEATED, x]", "columns_offered": offered, "exception": None} if silent else None, 0.0, "enumeration",
            "a leaf below a REPEATED group without LIST / MAP annotation: offered as a column, or the schema refused")

    # ---- names containing '.'
    elems = [mk("schema", 1), mk("a.x", repetition_type=0)]
    h = sch.SchemaHelper(elems)
    try:
        ok = h.schema_element("a.x") is elems[1]
        detail = None
    except Exception as ex:
        ok, detail = False, {"schema": "[schema/1, 'a.x']", "schema_element('a.x')": f"{type(ex).__name__}: {ex}", "schema_element(['a.x'])": h.schema_element(["a.x"]).name}
    res.add("schema_element.str_name_resolves_every_column[names containing '.']", PROVED if ok else REFUTED, detail, 0.0, "enumeration",
            "schema_element(<name as str>) - how api.filter_out_stats asks - reaches the column called so, also when the name contains a '.'")
    elems = [mk("schema", 2), mk("a.x", repetition_type=0), mk("a", 1, repetition_type=0), pt.SchemaElement(name="x", type=pt.Type.INT64, repetition_type=0, i32=True)]
    h = sch.SchemaHelper(elems)
    ok = h.root["children"].get("a.x") is elems[1] and sum(1 for v in h.root["children"].values() if v is elems[3]) == 1
    res.add("flatten.dotted_key_identifies_one_element[names containing '.']", PROVED if ok else REFUTED,
            None if ok else {"schema": "[schema/2, 'a.x' INT32, a/1, x INT64]", "map_keys": list(h.root["children"]),
                             "map['a.x']": "the nested INT64 leaf a/x (the top-level INT32 column 'a.x' is gone from the map)" if h.root["children"].get("a.x") is elems[3] else "?"},
            0.0, "enumeration", "two different leaves never share a key of the flat map")

    res.add("native.enumeration_seconds", PROVED, None, time.time() - t0, "enumeration", "wall time of Part 6 (reader side)")
    return res


def check_native_meta(timeout):
    """X5: make_metadata executed on small frames, its output read by the reference reading and by the real SchemaHelper"""
    res = Results()
    from runtime.harness import import_fastparquet
    fp = import_fastparquet()
    from fastparquet import schema as sch
    try:
        import numpy as np
        import pandas as pd
        from fastparquet import writer
        frames = {"0 columns": pd.DataFrame(index=range(3)), "1 column": pd.DataFrame({"a": [1, 2]}),
                  "3 mixed columns": pd.DataFrame({"a": [1, 2], "b": ["x", None], "c": pd.Categorical(["u", "v"])}),
                  "1 of 3 ignored (partition column)": pd.DataFrame({"a": [1, 2], "p": [0, 1], "b": [1.5, 2.5]})}
        mm_bad = []
        for nm, df in frames.items():
            kw = {"ignore_columns": ["p"], "partition_cols": ["p"]} if "ignored" in nm else {}
            fmd = writer.make_metadata(df, **kw)
            counts = [e.num_children for e in fmd.schema]
            names = [e.name.decode() if isinstance(e.name, bytes) else e.name for e in fmd.schema]
            want_cols = [c for c in df.columns if c not in kw.get("ignore_columns", [])]
            d = demanded_end(counts)
            ok = d == ("end", len(counts)) and counts[0] == len(want_cols) and all(c in (None, 0) for c in counts[1:]) and names[1:] == want_cols
            try:
                h = sch.SchemaHelper(list(fmd.schema))
                ok = ok and list(h.root["children"]) == want_cols
            except Exception as ex:
                ok = False
            if not ok:
                mm_bad.append({"frame": nm, "num_children": counts, "names": names})
        res.add("make_metadata.native_schema_accepted_by_reader[4 small frames]", PROVED if not mm_bad else REFUTED, None if not mm_bad else {"first": mm_bad[0]}, 0.0, "enumeration",
                "the list make_metadata emits is well-formed by the reference reading, root.num_children == number of emitted columns, columns flat, "
                "and the real SchemaHelper offers exactly those columns in order - bounded: 4 frames")
    except Exception as ex:
        res.add("make_metadata.native_schema_accepted_by_reader[4 small frames]", UNKNOWN, None, 0.0, "enumeration", f"{type(ex).__name__}: {ex}")
    return res


# =====================================================================================================================
# Part 7a: ownership of the buffers compress_data / decompress_data hand out (structural data flow on the real source)
# =====================================================================================================================
ALLOCATORS = {"np.empty", "np.zeros", "np.ones", "np.ndarray", "numpy.empty", "numpy.zeros", "bytearray", "bytes", "np.empty_like", "np.zeros_like"}
MUTATORS = {"append", "extend", "insert", "pop", "remove", "clear", "update", "setdefault", "popitem", "add", "discard", "sort", "reverse", "__setitem__",
            "__delitem__", "fill", "resize", "put", "itemset", "setfield", "setflags"}


def _root_name(n):
    while isinstance(n, (ast.Subscript, ast.Attribute, ast.Starred)):
        n = n.value
    return n.id if isinstance(n, ast.Name) else None


def ownership(fn_tree):
    """-> (state_problems, return_problems): structural facts about ONE function's body"""
    a = fn_tree.args
    params = {x.arg for x in a.args + a.kwonlyargs + getattr(a, "posonlyargs", [])} | ({a.vararg.arg} if a.vararg else set()) | ({a.kwarg.arg} if a.kwarg else set())
    state, rets = [], []
    for d in list(a.defaults) + [d for d in a.kw_defaults if d is not None]:
        if not (isinstance(d, ast.Constant) or (isinstance(d, ast.Name) and d.id in ("None", "True", "False", "COMPRESSION_LEVEL"))
                or (isinstance(d, ast.UnaryOp) and isinstance(d.operand, ast.Constant))):
            state.append(f"default argument `{ast.unparse(d)}` is an object shared between calls")
    binds = {}                              # local name -> list of value expressions bound to it by plain assignment
    stores = []                             # (target expression, value expression, statement)
    for n in ast.walk(fn_tree):
        if isinstance(n, (ast.Global, ast.Nonlocal)):
            state.append(f"`{type(n).__name__.lower()} {', '.join(n.names)}`")
        if isinstance(n, (ast.FunctionDef, ast.Lambda)) and n is not fn_tree:
            state.append("nested function / lambda (closure state is not modelled)")
        tg, val = [], None
        if isinstance(n, ast.Assign):
            tg, val = list(n.targets), n.value
        elif isinstance(n, (ast.AugAssign, ast.AnnAssign)):
            tg, val = [n.target], n.value
        elif isinstance(n, ast.NamedExpr):
            tg, val = [n.target], n.value
        elif isinstance(n, (ast.For, ast.comprehension)):
            tg, val = [n.target], n.iter
        elif isinstance(n, ast.With):
            tg, val = [i.optional_vars for i in n.items if i.optional_vars is not None], None
        elif isinstance(n, ast.Delete):
            for t in n.targets:
                if not isinstance(t, ast.Name):
                    stores.append((t, None, n))
        flat = []
        for t in tg:
            flat += list(t.elts) if isinstance(t, (ast.Tuple, ast.List)) else [t]
        for t in flat:
            if isinstance(t, ast.Name):
                binds.setdefault(t.id, []).append(val if len(flat) == len(tg) else None)
            else:
                stores.append((t, val, n))
    locals_ = params | set(binds)

    def names_in(e):
        return {m.id for m in ast.walk(e) if isinstance(m, ast.Name)} if e is not None else set()

    def may_alias_outside(name, seen=()):
        """a local that may refer to an object living outside this call: bound from an expression rooted at a non-local name
        (not through a call), or from another such local"""
        if name in params:
            return False                    # the caller's object, not module state
        for v in binds.get(name, []):
            if v is None:
                return True
            if isinstance(v, ast.Call):
                continue                    # a call's value: the callee's (see ASSUMED)
            if isinstance(v, ast.Constant):
                continue
            r = _root_name(v)
            if r is None:
                if any(m not in locals_ for m in names_in(v)):
                    return True
                continue
            if r not in locals_:
                return True
            if r != name and r not in seen and may_alias_outside(r, seen + (name,)):
                return True
        return False

    for t, val, st in stores:
        r = _root_name(t)
        if r is None or r not in locals_:
            state.append(f"L{st.lineno}: store through the non-local `{r}`: `{ast.unparse(st)[:70]}`")
        elif may_alias_outside(r):
            state.append(f"L{st.lineno}: store through `{r}`, which may alias state outside this call: `{ast.unparse(st)[:70]}`")
    for n in ast.walk(fn_tree):
        if isinstance(n, ast.Call) and isinstance(n.func, ast.Attribute) and n.func.attr in MUTATORS:
            r = _root_name(n.func.value)
            if r is None or r not in locals_ or may_alias_outside(r):
                state.append(f"L{n.lineno}: mutating call on state outside this call: `{ast.unparse(n)[:70]}`")
    # ---- what is returned
    kept = {}                               # local -> places where it is stored into something that outlives the call
    for t, val, st in stores:
        for nm in names_in(val) & set(binds):
            r = _root_name(t)
            if r is None or r not in locals_ or may_alias_outside(r):
                kept.setdefault(nm, []).append(f"L{st.lineno} `{ast.unparse(st)[:60]}`")
    for n in ast.walk(fn_tree):
        if isinstance(n, ast.Call) and isinstance(n.func, ast.Attribute) and n.func.attr in MUTATORS:
            r = _root_name(n.func.value)
            if r is None or r not in locals_ or may_alias_outside(r):
                for arg in n.args:
                    for nm in names_in(arg) & set(binds):
                        kept.setdefault(nm, []).append(f"L{n.lineno} `{ast.unparse(n)[:60]}`")
    n_ret = 0
    for n in ast.walk(fn_tree):
        if not isinstance(n, ast.Return) or n.value is None:
            continue
        n_ret += 1
        v = n.value
        if isinstance(v, ast.Call):
            continue                        # the codec's own return value
        if isinstance(v, ast.Name) and v.id in binds:
            bad = [b for b in binds[v.id] if not (isinstance(b, ast.Call) and ast.unparse(b.func) in ALLOCATORS)]
            if bad:
                rets.append(f"L{n.lineno}: `{v.id}` is returned but bound from " + "; ".join("`%s`" % (ast.unparse(b)[:50] if b is not None else "<unpacking>") for b in bad)
                            + " - not an allocation of this call")
            if v.id in kept:
                rets.append(f"L{n.lineno}: the returned buffer `{v.id}` is also stored where it outlives the call: " + "; ".join(kept[v.id]))
            continue
        if isinstance(v, ast.Name) and v.id in params:
            continue                        # the caller's own object
        rets.append(f"L{n.lineno}: returns `{ast.unparse(v)[:60]}`: neither a call's value nor a buffer allocated in this call")
    if n_ret == 0:
        rets.append("no return statement with a value")
    return sorted(set(state)), rets


def check_codec_ownership(res, C, np, FORMAT, comp, rev):
    cfuncs, _, _ = parse_module("fastparquet/compression.py")
    for fn in ("decompress_data", "compress_data"):
        if fn not in cfuncs:
            res.add(f"codec.module_state_not_mutated[{fn}]", UNKNOWN, None, 0.0, "ast", "function not found")
            continue
        try:
            state, rets = ownership(cfuncs[fn].tree)
        except Exception as ex:
            res.add(f"codec.ownership[{fn}].out_of_reach", UNKNOWN, None, 0.0, "ast", f"{type(ex).__name__}: {ex}")
            continue
        res.add(f"codec.module_state_not_mutated[{fn}]", PROVED if not state else REFUTED, None if not state else {"problems": state}, 0.0, "ast",
                "structural: no global / nonlocal, no store or mutating method call through a name that is not a local of this call (or a local that may alias "
                "one), no shared default argument: nothing survives from one call to the next")
        if fn == "decompress_data":
            res.add("codec.decompress_data.result_is_a_fresh_buffer", PROVED if not rets else REFUTED, None if not rets else {"problems": rets}, 0.0, "ast",
                    "structural: every returned value is a call's own return value (the codec's) or a local bound ONLY by allocations of this call "
                    "(np.empty ...), never taken from nor stored into module-level / default-argument / closure state - the caller owns the buffer "
                    "(core.read_col keeps a zero-copy view of a decompressed dictionary page while the next pages are decompressed)")
        else:
            res.add("codec.compress_data.result_is_the_codecs_return_value", PROVED if not rets else REFUTED, None if not rets else {"problems": rets}, 0.0, "ast",
                    "structural: compress_data returns the value of the codec call")
    # ---- executed: successive results of equal size do not alias
    rng = np.random.default_rng(11)
    n = 4096
    xa = rng.integers(0, 256, n, dtype="uint8").tobytes()
    xb = bytes((b ^ 0x5A) for b in xa)
    for name in sorted(comp):
        num = FORMAT.get(name)
        for how, alg in (("number", num), ("name", name.lower())):
            if alg is None:
                continue
            t1 = time.time()
            prob = None
            try:
                ca, cb = bytes(C.compress_data(xa, name)), bytes(C.compress_data(xb, name))
                # every call gets its OWN input object, as every page is its own read (UNCOMPRESSED hands the input back: the caller's object)
                r1 = C.decompress_data(bytes(bytearray(ca)), n, alg)
                first = bytes(r1)
                r2 = C.decompress_data(bytes(bytearray(cb)), n, alg)
                after_second = bytes(r1)
                r3 = C.decompress_data(bytes(bytearray(ca)), n, alg)                   # same size AND same content as the first call
                v1, v2, v3 = (np.frombuffer(memoryview(r), dtype="uint8") if not isinstance(r, np.ndarray) else r for r in (r1, r2, r3))
                shared = bool(np.shares_memory(v1, v2) or np.shares_memory(v1, v3) or np.shares_memory(v2, v3))
                same_obj = r1 is r2 or r1 is r3 or r2 is r3
                ok = (not shared) and (not same_obj) and after_second == first == xa and bytes(r1) == xa and bytes(r2) == xb and bytes(r3) == xa
                if not ok:
                    prob = {"codec": name, "codec_given_as": how, "uncompressed_size": n, "results_share_memory": shared, "same_object": same_obj,
                            "first_result_unchanged_after_second_call": after_second == first, "first_result_holds_second_payload_after_second_call": after_second == xb,
                            "first_result_is_first_payload": first == xa}
            except Exception as ex:
                prob = {"codec": name, "raised": f"{type(ex).__name__}: {ex}"}
            res.add(f"codec.decompress_data.successive_results_do_not_alias[{name}]", PROVED if prob is None else REFUTED, prob, time.time() - t1, "enumeration",
                    "two (three) successive decompress_data calls with EQUAL uncompressed size return arrays that do not share memory (np.shares_memory), and the "
                    "first result still holds the first payload after the later calls - executed, bounded: 4096-byte payloads, codec given by number and by name")


# =====================================================================================================================
# Part 7: codec tables
# =====================================================================================================================
def check_codecs(timeout):
    res = Results()
    from runtime.harness import import_fastparquet
    fp = import_fastparquet()
    import numpy as np
    from fastparquet import compression as C, parquet_thrift as pt
    t0 = time.time()
    try:
        from spec import thrift_idl
        idl = dict(thrift_idl.load().enums["CompressionCodec"])
    except Exception:
        idl = None
    res.add("codec.idl_enum_is_the_format_enum", PROVED if idl == FORMAT_CODECS else REFUTED, None if idl == FORMAT_CODECS else {"idl": idl, "format": FORMAT_CODECS}, 0.0, "enumeration",
            "CompressionCodec of the shipped parquet.thrift == the enum of the Parquet format (0..7)")
    comp, decomp, into, rev = dict(C.compressions), dict(C.decompressions), dict(C.decom_into), dict(C.rev_map)
    res.add("codec.tables.every_compressor_has_a_decompressor_and_vice_versa", PROVED if set(comp) == set(decomp) else REFUTED,
            None if set(comp) == set(decomp) else {"only_compress": sorted(set(comp) - set(decomp)), "only_decompress": sorted(set(decomp) - set(comp))}, 0.0, "enumeration",
            "keys(compressions) == keys(decompressions)")
    ok = set(into) <= set(decomp)
    res.add("codec.tables.decompress_into_only_for_known_codecs", PROVED if ok else REFUTED, None if ok else {"extra": sorted(set(into) - set(decomp))}, 0.0, "enumeration",
            "keys(decom_into) is a subset of keys(decompressions)")
    want_rev = {v: k for k, v in FORMAT_CODECS.items()}
    res.add("codec.rev_map.matches_idl", PROVED if rev == want_rev else REFUTED,
            None if rev == want_rev else {"rev_map": {str(k): v for k, v in rev.items()}, "format": {str(k): v for k, v in want_rev.items()}}, 0.0, "enumeration",
            "rev_map maps exactly the CompressionCodec numbers of the format, each to the enum member's name (the name the tables use)")
    bad = sorted(k for k in comp if k not in FORMAT_CODECS)
    res.add("codec.tables.names_are_enum_member_names", PROVED if not bad else REFUTED, None if not bad else {"names_not_in_enum": bad}, 0.0, "enumeration",
            "every codec name compress_data accepts is a CompressionCodec member: the number lookup in write_column, which runs AFTER the pages were written, cannot fail")
    # the writer's number expression and the reader's argument, from the real sources
    wfuncs, _, _ = parse_module("fastparquet/writer.py")
    cfuncs, _, _ = parse_module("fastparquet/core.py")
    expr = None
    for n in ast.walk(wfuncs["write_column"].tree):
        if isinstance(n, ast.keyword) and n.arg == "codec":
            expr = n.value
    rd_ok = False
    for n in ast.walk(cfuncs["_read_page"].tree):
        if isinstance(n, ast.Call) and ast.unparse(n.func) == "decompress_data":
            a3 = n.args[2] if len(n.args) > 2 else next((k.value for k in n.keywords if k.arg == "algorithm"), None)
            rd_ok = a3 is not None and ast.unparse(a3) == "column_metadata.codec"
    res.add("codec.read_page_passes_the_chunk_codec", PROVED if rd_ok else REFUTED, None, 0.0, "ast", "core._read_page hands column_metadata.codec to decompress_data")
    if expr is None:
        res.add("codec.roundtrip_table.out_of_reach", UNKNOWN, None, 0.0, "ast", "no `codec=` keyword in write_column")
        return res
    code = compile(ast.Expression(expr), "<write_column codec>", "eval")
    rng = np.random.default_rng(7)
    payloads = {"empty": b"", "1 byte": b"\x07", "4096 incompressible bytes": rng.integers(0, 256, 4096, dtype="uint8").tobytes(), "1 MiB of zeros": bytes(1 << 20)}
    for name in sorted(comp):
        for spelled in (name, name.lower()):
            tag = name if spelled == name else f"{name} given as '{spelled}'"
            try:
                num = eval(code, {"parquet_thrift": pt, "algorithm": spelled, "getattr": getattr})
            except Exception as ex:
                res.add(f"codec.roundtrip_table[{tag}]", REFUTED, {"name": spelled, "write_column": f"{type(ex).__name__}: {ex}"}, 0.0, "enumeration",
                        "the number write_column records for the name exists")
                continue
            back = rev.get(num)
            ok = num == FORMAT_CODECS.get(name) and back is not None and back.upper() == name and back.upper() in decomp
            same_fn = ok and ((decomp[back.upper()] is C.decompressions[name]))
            res.add(f"codec.roundtrip_table[{tag}]", PROVED if (ok and same_fn) else REFUTED,
                    None if (ok and same_fn) else {"name": spelled, "number_recorded": num, "format_number": FORMAT_CODECS.get(name), "rev_map[number]": back}, 0.0, "enumeration",
                    "the number write_column records (its real `codec=` expression, evaluated) is the format's number for that algorithm, and _read_page maps it "
                    "back (rev_map) to the decompressor registered under the SAME name")
            if spelled != name or not ok:
                continue
            for pn, x in payloads.items():
                t1 = time.time()
                prob = None
                try:
                    c = bytes(C.compress_data(x, spelled))
                    r1 = bytes(C.decompress_data(c, len(x), num))
                    r2 = bytes(decomp[name](c, len(x)))
                    r3 = None
                    if name in into:
                        out = np.empty(len(x), dtype="uint8")
                        into[rev[num]](np.frombuffer(c, dtype="uint8"), out)
                        r3 = out.tobytes()
                    if not (r1 == x and r2 == x and r3 in (None, x)):
                        prob = {"codec": name, "payload": pn, "decompress_data": r1 == x, "decompressions[name]": r2 == x, "decom_into": None if r3 is None else r3 == x}
                except Exception as ex:
                    prob = {"codec": name, "payload": pn, "raised": f"{type(ex).__name__}: {ex}"}
                res.add(f"codec.roundtrip[{name}][{pn}]", PROVED if prob is None else REFUTED, prob, time.time() - t1, "enumeration",
                        "decompress(compress(x)) == x through decompress_data(bytes, len, NUMBER), through decompressions[name] and (where present) decom_into - "
                        "bounded: this one payload")
    # ownership of the returned buffers (structural + executed aliasing check); on its own so that a failure here silences nothing else
    try:
        check_codec_ownership(res, C, np, FORMAT_CODECS, comp, rev)
    except Exception as ex:
        res.add("codec.ownership.out_of_reach", UNKNOWN, None, 0.0, "engine", f"{type(ex).__name__}: {ex}")
    # refusals
    absent = [k for k in FORMAT_CODECS if k not in comp]
    refused = {}
    for nm in ["FOO", "", "GZIP2", "snappy "] + absent:
        try:
            C.compress_data(b"abc", nm)
            refused[repr(nm)] = "accepted"
        except RuntimeError:
            refused[repr(nm)] = "RuntimeError"
        except Exception as ex:
            refused[repr(nm)] = type(ex).__name__
    ok = all(v == "RuntimeError" for v in refused.values())
    res.add("codec.unknown_name_is_refused[compress_data]", PROVED if ok else REFUTED, None if ok else refused, 0.0, "enumeration",
            f"names outside the table ({', '.join(refused)}) raise RuntimeError in compress_data, i.e. before the page they would compress is written "
            "(bytes of earlier pages / the file header may exist already: that is C18's late-failure finding, not re-posed here)")
    refused = {}
    for nm in [99, -1, 8, "FOO"] + [FORMAT_CODECS[k] for k in absent]:
        try:
            C.decompress_data(b"\x00", 1, nm)
            refused[repr(nm)] = "accepted"
        except (RuntimeError, KeyError) as ex:
            refused[repr(nm)] = type(ex).__name__
        except Exception as ex:
            refused[repr(nm)] = "other:" + type(ex).__name__
    ok = all(v in ("RuntimeError", "KeyError") for v in refused.values())
    res.add("codec.unknown_number_is_refused[decompress_data]", PROVED if ok else REFUTED, None if ok else refused, 0.0, "enumeration",
            f"a codec number outside the enum / an enum member without library ({', '.join(refused)}) is refused (KeyError / RuntimeError), never decoded as something else")
    res.add("codec.enumeration_seconds", PROVED, None, time.time() - t0, "enumeration", f"wall time of Part 7; codecs available: {sorted(comp)}; enum members without library: {absent}")
    return res
