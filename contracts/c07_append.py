"""C07 / C18 / C02 - writer.write_simple.write_to_file on the byte-file model (real source, nested function extracted by ast).

append=True  (file opened 'rb+'; requires content == body ++ F_old ++ le32(|F_old|) ++ "PAR1"):
   append.prefix_preserved        every byte before the OLD footer (all existing row groups) is unchanged
   append.seeks_to_old_footer     the first byte written is at the start of the old footer
   framing.*                      the file ends  ... ++ F_new ++ le32(|F_new|) ++ "PAR1"  with |F_new| the value f.write returned
   append.on_raise_file_unchanged if make_row_group raises after writing, the file is NOT what it was  (known finding C18)
append=False (fresh file): content == "PAR1" ++ row-group bytes ++ F_new ++ le32(|F_new|) ++ "PAR1"
Callee contract used for make_row_group(f, ...): writes only at the current position (bytes before it unchanged), position
non-decreasing, may raise after writing >= 0 bytes; returns a row group or None.
"""
import ast

import z3

from vc.front_py import parse_module
from vc.symexec import Engine, Path, Custom, Opaque, Str, PyB, PyI, BytesV, NONE, Unsupported, Tup, Opt
from vlib.common import PROVED, REFUTED, UNKNOWN
from .filemodel import (FileH, Bts, concat, le32, le_value, eq_goal, prefix_goal, h_struct_pack, h_struct_unpack,
                        install_byte_constants, FILE_ASSUMED)
from .util import Results, solve

MAGIC = Bts.const(b"PAR1")
K = z3.Int("k_skolem")


class RGList:
    """fmd.row_groups: only append() and iteration for the num_rows sum are used"""
    tracked = False

    def __init__(self):
        self.appended = 0

    def call_method(self, eng, p, name, args, kw, node):
        if name == "append":
            p.ghost["rgs_appended"] = p.ghost.get("rgs_appended", 0) + 1
            p.ghost.setdefault("appended_values", []).append(args[0])
            return [(p, NONE)]
        raise Unsupported("row_groups." + name)

    def arbitrary(self, eng, p):
        return Opaque(("rg", next(eng.counter)))


class FMD:
    tracked = False

    def __init__(self, newfoot, rgs):
        self.newfoot, self.rgs = newfoot, rgs

    def attr(self, eng, p, name):
        if name == "row_groups":
            return p.ghost.get("fmd.row_groups", Custom(self.rgs))
        if name == "schema":
            return Opaque("schema")
        if name == "thrift_name":
            return Str("FileMetaData")
        if name == "key_value_metadata":
            from .c16_update import KVList
            return Custom(KVList())
        raise Unsupported("fmd." + name)

    def setattr(self, eng, p, name, v):
        p.ghost["fmd." + name] = v

    def call_method(self, eng, p, name, args, kw, node):
        if name == "to_bytes":
            return [(p, BytesV(self.newfoot))]
        raise Unsupported("fmd." + name + "()")


class DataIter:
    """`data`: an arbitrary iterable of row-group frames.  Loop invariant over the file state:
         pos >= F  and  bytes before F are the original ones  and  pos <= len"""
    tracked = False

    def __init__(self, fh, F, c0, n0):
        self.fh, self.F, self.c0, self.n0 = fh, F, c0, n0

    def enumerate(self, eng, p):
        return Custom(self)

    def inv(self, st):
        n = st["content"].n
        return z3.And(st["pos"] >= self.F, n == z3.If(st["pos"] > self.n0, st["pos"], self.n0),
                      z3.Implies(z3.And(0 <= K, K < self.F), st["content"].at(K) == self.c0.at(K)))

    def for_loop(self, eng, p, st_node):
        eng.oblige(p, "write_to_file.loop.invariant_on_entry", "inv", self.inv(self.fh.st(p)), st_node,
                   note="pos >= start of old footer; bytes before it untouched")
        outs = []
        for q in (p.fork(), p.fork()):
            k = next(eng.counter)
            f = z3.Function(f"content_at!{k}", z3.IntSort(), z3.BitVecSort(8))
            n, pos = z3.Int(f"n!{k}"), z3.Int(f"pos!{k}")
            s = dict(self.fh.st(q))
            s["content"], s["pos"] = Bts(n, lambda i, f=f: f(i)), pos
            s["writes"] = s["writes"] + 1
            q.ghost[self.fh.key] = s
            q.pc.append(self.inv(s))
            q.ghost["loop_iters"] = "some"
            outs.append(q)
        exit_path, body = outs
        res = [exit_path]
        for b in eng.assign(st_node.target, Tup([PyI(eng.fresh_int("i")), Opaque(("row_group_frame", next(eng.counter)))]), body):
            for r in eng.block(st_node.body, [b]):
                if r.ctl in (None, "continue"):
                    eng.oblige(r, "write_to_file.loop.invariant_preserved", "inv", self.inv(self.fh.st(r)), st_node)
                elif r.ctl == "break":
                    r.ctl = None
                    res.append(r)
                else:
                    res.append(r)
        return res


def run(ctx, funcs, timeout, append):
    res = Results()
    fh = FileH()
    body, Fold, Fn = Bts.sym("body"), Bts.sym("old_footer"), Bts.sym("new_footer")
    lenf = Bts.sym("old_len_field")
    if append:
        content0 = concat(body, Fold, Bts(4, lenf.at), MAGIC)
        F = body.n                 # start of the old footer: everything before it must persist
        protected, n0 = content0, content0.n
    else:
        content0 = Bts(0, lambda i: z3.BitVecVal(0, 8))
        F = z3.IntVal(4)           # the leading magic must persist
        protected, n0 = MAGIC, z3.IntVal(4)
    tag = "append" if append else "fresh"

    def h_make_row_group(eng, p, args, kw, node):
        """callee contract: writes only at/after the current position; may raise after writing >= 0 bytes; returns rg | None"""
        if not (isinstance(args[0], Custom) and args[0].h is fh):
            raise Unsupported("make_row_group called with something that is not the open file")
        outs = []
        for kind in ("ok", "none", "raise"):
            q = p.fork()
            s = dict(fh.st(q))
            k = next(eng.counter)
            f = z3.Function(f"rg_bytes_at!{k}", z3.IntSort(), z3.BitVecSort(8))
            n1, pos1 = z3.Int(f"n_rg!{k}"), z3.Int(f"pos_rg!{k}")
            old, pos0 = s["content"], s["pos"]
            q.pc += [pos1 >= pos0, n1 == z3.If(pos1 > old.n, pos1, old.n),
                     z3.Implies(z3.And(0 <= K, K < pos0), f(K) == old.at(K)),           # frame, instantiated at the goal's witness
                     z3.Implies(pos1 == pos0, z3.And(n1 == old.n, z3.Implies(0 <= K, f(K) == old.at(K))))]   # nothing written
            s["content"], s["pos"] = Bts(n1, lambda i, f=f: f(i)), pos1
            s["writes"] += 1
            q.ghost[fh.key] = s
            if kind == "raise":
                q.ctl = ("raise", "ValueError")
                q.ghost["raised_in"] = "make_row_group"
                outs.append((q, NONE))
            elif kind == "none":
                q.pc.append(pos1 == pos0)       # an empty frame: nothing is written
                outs.append((q, Opt(z3.BoolVal(True), Opaque("rg"))))
            else:
                outs.append((q, Opt(z3.BoolVal(False), Opaque(("rg", k)))))
        return outs

    def h_sum(eng, p, args, kw, node):
        p.ghost["num_rows_is_sum_over_rgs"] = True
        return [(p, PyI(eng.fresh_int("num_rows")))]
    handlers = {"make_row_group": h_make_row_group, "struct.pack": h_struct_pack, "struct.unpack": h_struct_unpack, "sum": h_sum}
    eng = Engine(funcs=funcs, handlers=handlers, inline=("write_thrift",), opaque_calls=True)
    install_byte_constants(eng)
    p = Path()
    p.pc += [body.n >= 0, Fold.n >= 0, Fn.n >= 0, Fn.n < 2 ** 32, Fold.n == le_value(Bts(4, lenf.at))]
    fh.init(p, content0, 0)
    rgs = RGList()
    fmd = FMD(Fn, rgs)
    closure = {"append": PyB(append), "fmd": Custom(fmd), "data": Custom(DataIter(fh, F, protected, n0)), "compression": Opaque("compression"),
               "stats": Opaque("stats"), "MARKER": BytesV(MAGIC)}
    outs = eng.run("write_simple.write_to_file", p, [Custom(fh)], closure=closure)
    for ob in eng.oblig:
        from vc import backends
        st, be, secs, m = backends.discharge(ob, timeout)
        res.add(f"write_to_file[{tag}]." + ob.name.split(".", 1)[-1], st, {"z3_model": str(m)[:300]} if m is not None else None, secs, be,
                ob.note or ob.kind)
    n_ok = n_raise = 0
    for q in outs:
        s = fh.st(q)
        c1 = s["content"]
        base = list(q.pc) + list(q.axioms)
        if q.ctl[0] == "raise":
            n_raise += 1
            if q.ghost.get("raised_in") == "make_row_group" and append:
                # C18: a failed append leaves the file as it was  -- content' == content0 (whole view)
                st, m, secs = solve(base + [z3.Not(eq_goal(c1, content0, K))], timeout)
                res.add(f"write_to_file[{tag}].on_raise_file_unchanged", st,
                        {"note": "make_row_group raised after writing bytes over the old footer", "z3_model": str(m)[:300]} if m is not None else None,
                        secs, "z3", "if writing a row group raises, the file content is what it was before the call")
            continue
        n_ok += 1
        if append:
            st, m, secs = solve(base + [z3.Not(prefix_goal(c1, content0, F, K))], timeout)
            res.add("append.prefix_preserved", st, {"z3_model": str(m)[:300]} if m is not None else None, secs, "z3",
                    "content'[:F] == content[:F] with F the start of the OLD footer: bytes of existing row groups never change")
        # framing: the last |Fn| + 8 bytes are  Fn ++ le32(|Fn|) ++ PAR1  ending at the final write position, which is the end of file
        end = s["pos"]
        tail = concat(Fn, le32(Fn.n), MAGIC)
        goal = z3.And(end - tail.n >= F,
                      z3.Implies(z3.And(0 <= K, K < tail.n), c1.at(end - tail.n + K) == tail.at(K)))
        st, m, secs = solve(base + [z3.Not(goal)], timeout)
        res.add(f"framing[{tag}].footer_len_magic_at_write_end", st, {"z3_model": str(m)[:300]} if m is not None else None, secs, "z3",
                "the bytes ending at the final write position are F_new ++ le32(|F_new|) ++ 'PAR1' (|F_new| = what f.write returned)")
        # assumption (listed): the rewritten tail is not shorter than what it replaces, so the write end is the end of file
        st, m, secs = solve(base + [end >= n0, z3.Not(c1.n == end)], timeout)
        res.add(f"framing[{tag}].write_end_is_end_of_file", st, {"z3_model": str(m)[:300]} if m is not None else None, secs, "z3",
                "given the new tail is at least as long as the replaced one, nothing follows the final magic")
        if not append:
            st, m, secs = solve(base + [z3.Not(prefix_goal(c1, MAGIC, 4, K))], timeout)
            res.add("framing[fresh].leading_magic", st, None, secs, "z3", "a fresh file starts with 'PAR1'")
        ok = q.ghost.get("num_rows_is_sum_over_rgs") is True and "fmd.num_rows" in q.ghost and "fmd.row_groups" in q.ghost
        res.add(f"write_to_file[{tag}].fmd_updated_before_serialisation", PROVED if ok else REFUTED, None, 0.0, "trace",
                "fmd.row_groups and fmd.num_rows (= sum over row groups) are assigned before the footer is serialised")
    if n_ok == 0:
        ctx.engine_error(f"write_to_file[{tag}]: no normally returning path")
    ctx.vacuity["covers"] += n_ok + n_raise
    return res


ASSUMED = FILE_ASSUMED + [
    "make_row_group(f, ...): writes only at/after the current position of f (bytes before it unchanged), may raise after "
    "writing >= 0 bytes, returns a row group or None without writing for an empty frame (its own bookkeeping: bounded layer C02)",
    "the new tail (row groups + re-serialised footer) is at least as long as the footer it replaces - otherwise stale bytes "
    "would follow the final magic because the file is opened 'rb+' and never truncated (not checked: needs a foreign file whose "
    "footer fastparquet re-serialises shorter, appended with zero rows)",
]


def check(ctx, timeout):
    funcs, tree, src = parse_module("fastparquet/writer.py")
    for fn in ("write_simple", "write_simple.write_to_file", "write_thrift"):
        ctx.function("writer." + fn, funcs[fn].sha, funcs[fn].report)
    out = []
    for append in (True, False):
        out.append(run(ctx, funcs, timeout, append))
    # the open mode: 'rb+' when appending (structural)
    ws = ast.unparse(funcs["write_simple"].tree)
    r = Results()
    r.add("write_simple.open_mode", PROVED if "mode = 'rb+' if append else 'wb'" in ws else UNKNOWN, None, 0.0, "ast",
          "append opens in place ('rb+'), a fresh write truncates ('wb')")
    out.append(r)
    return out
