"""C11 - two obligations ABOUT PAIRS / ABOUT FUNCTIONS AS FUNCTIONS that the per-kernel contracts do not carry.

(A) dict_index.*  -  writer.encode_dict and the reader's dictionary-index branch of core.read_data_page are inverse functions on every
    value the CALL SITE in writer.write_column can hand to encode_dict.  Everything is read from the real sources on every run:
      dict_index.call_site_dtype[write_column]      structural: the element type D of `data` when it reaches `encode[encoding](data, ..)` on
                                                    the categorical path = the chain of assignments to `data` from `data = data.cat.codes`
                                                    (pandas: signed int8/16/32/64 chosen by the number of categories) through every
                                                    `data = data.astype(X)` and the guards around them (`ncats <= K`, `str(data0.dtype) in [..]`).
                                                    UNKNOWN when the chain contains anything else.
      dict_index.reader_branches[read_data_page]    structural: the fast path `bit_width in [..] and selfmade` and its dtype expression
                                                    ('int%i' % bit_width = SIGNED items of bit_width bits); every other width goes to the hybrid
                                                    decoder (zero-extended value, widths 1..32 - contracts/kernels.py, c11_hybrid.py)
      dict_index.cast_keeps_codes[X if guard]       an astype in the chain is value preserving on [0, ncats) under its guard (bit-vector)
      dict_index.pair_roundtrip[D]                  for every v in [0, ncats) and every ncats the call-site facts allow: the width byte
                                                    8*itemsize(D) selects a reader branch that exists, and re-interpreting the little-endian
                                                    item (encode_dict.block_is_spec: payload == values.tobytes()) the way that branch does gives
                                                    v back  (bit-vector obligation: sign- or zero-extension of the low w bits == v)
(B) decoder_purity.*  -  every function of fastparquet/encoding.py computes a function of its arguments only (structural provenance analysis
    of the real AST):
      decoder_purity[f].no_global_statement         no `global` / `nonlocal`
      decoder_purity[f].no_mutable_default          no list / dict / set / call as a default value (state shared between calls)
      decoder_purity[f].module_state_untouched      module-level mutable objects are at most looked up in (read-only tables that nothing
                                                    in the module ever mutates or rebinds); never stored into, never passed on, never called on
      decoder_purity[f].result_fresh_or_from_arguments   every returned value is derived from the arguments (the `out` parameter, a view of
                                                    raw_bytes), allocated in this call, a constant, or the result of a callee that satisfies
                                                    the same obligation - never (a view of) module-level state
      decoder_purity.module_tables_never_mutated    no statement of the module mutates or rebinds a module-level container after its definition
    UNKNOWN where provenance cannot be decided (call of an unknown function, star-args, attribute tricks).
"""
import ast
import os

import z3

from vlib.common import REPO, PROVED, REFUTED, UNKNOWN
from .kernels import KResults
from .util import solve

ASSUMED = [
    "pandas: Categorical codes are stored in the smallest SIGNED type with len(categories) < its maximum (pandas.core.dtypes.cast."
    "coerce_indexer_dtype: < 127 int8, < 32767 int16, < 2**31 - 1 int32, else int64); codes of non-null rows lie in [0, ncats); "
    "str(CategoricalDtype) == 'category'; Series.astype(X) converts element-wise with C wrap-around; values.tobytes() is little endian",
    "numpy: np.frombuffer(buf, dtype='int%i' % w) re-interprets w-bit little-endian items as two's-complement signed integers, 'uint%i' as unsigned",
    "np.empty / np.zeros / np.ones / np.full / np.array / np.dtype / bytes / .copy() / .astype() / .decode() return objects allocated by that "
    "call; np.frombuffer / memoryview / np.asarray / slicing / .view() / .reshape() return views of their first operand",
    "speedups.unpack_byte_array returns a freshly allocated object array (contracts/c12_speedups.py); read_bitpacked1 / NumpyIO only touch "
    "the buffers they are handed (contracts/kernels.py)",
]

SIGNED_MAX = {8: 2 ** 7 - 1, 16: 2 ** 15 - 1, 32: 2 ** 31 - 1, 64: 2 ** 63 - 1}


def _src(rel):
    with open(os.path.join(REPO, rel)) as f:
        s = f.read()
    return s, ast.parse(s)


def _func(tree, name):
    for n in ast.walk(tree):
        if isinstance(n, ast.FunctionDef) and n.name == name:
            return n
    return None


# =================================================================================================
# (A) encode_dict <-> read_data_page dictionary-index branch
# =================================================================================================
def _np_dtype(node):
    """'uint8' / np.uint8 / 'int32' ... -> (bits, signed) or None"""
    import re
    txt = None
    if isinstance(node, ast.Constant) and isinstance(node.value, str):
        txt = node.value
    elif isinstance(node, ast.Attribute) and isinstance(node.value, ast.Name) and node.value.id in ("np", "numpy"):
        txt = node.attr
    elif isinstance(node, ast.Name) and node.id in ("int",):
        txt = "int64"
    if txt is None:
        return None
    m = re.fullmatch(r"(u?)int(8|16|32|64)", txt)
    if not m:
        return None
    return int(m.group(2)), m.group(1) == ""


def _assigns_name(st, name):
    for n in ast.walk(st):
        if isinstance(n, ast.Name) and n.id == name and isinstance(n.ctx, (ast.Store, ast.Del)):
            return True
    return False


def _is_encode_call(n, var):
    return (isinstance(n, ast.Call) and isinstance(n.func, ast.Subscript) and isinstance(n.func.value, ast.Name) and n.func.value.id == "encode"
            and n.args and isinstance(n.args[0], ast.Name) and n.args[0].id == var)


def _contains_encode(st, var):
    return any(_is_encode_call(n, var) for n in ast.walk(st))


class Undecided(Exception):
    pass


def call_site_states(fn):
    """-> (states, facts): states = list of dicts {dtype: ('codes',) | ('cast', bits, signed, text), guards: [(op, K)], trail: [text]} describing
    `data` at `encode[encoding](data, selement)` on the categorical path of write_column"""
    var = "data"
    # the statement list that holds both `data = data.cat.codes` (possibly nested in an if) and the encode call
    holder = None
    for n in ast.walk(fn):
        body = getattr(n, "body", None)
        if isinstance(body, list) and any(_contains_encode(s, var) for s in body) and any(_codes_assign_in(s, var) for s in body):
            holder = body                      # innermost wins (ast.walk is breadth first: keep overwriting)
    if holder is None:
        raise Undecided("no statement list holds both `data = data.cat.codes` and `encode[encoding](data, ...)`")
    facts = {"ncats_is_len_categories": any(
        isinstance(n, ast.Assign) and len(n.targets) == 1 and isinstance(n.targets[0], ast.Name) and n.targets[0].id == "ncats"
        and ast.unparse(n.value) == "len(data.cat.categories)" for n in ast.walk(fn)),
        "ncats_checked_i32": any(isinstance(n, ast.Call) and isinstance(n.func, ast.Name) and n.func.id == "check_32" and n.args
                                 and ast.unparse(n.args[0]) == "len(data.cat.categories)" for n in ast.walk(fn)),
        "data_is_slice_of_data0": any(isinstance(n, ast.Assign) and ast.unparse(n.targets[0]) == var and ast.unparse(n.value).startswith("data0.iloc[")
                                      for n in ast.walk(fn))}

    def run(stmts, states, started):
        """abstractly execute stmts; states: list of state dicts (only meaningful once `started`); -> (states, started, done)"""
        for st in stmts:
            if _contains_encode(st, var):
                if not started:
                    raise Undecided("`encode[encoding](data, ..)` is reached before `data = data.cat.codes`")
                return states, started, True
            if not started:
                if isinstance(st, ast.If) and _codes_assign_in(st, var):
                    t = ast.unparse(st.test)
                    if "CategoricalDtype" not in t or "isinstance(data.dtype" not in t:
                        raise Undecided("`data = data.cat.codes` is not under `isinstance(data.dtype, pd.CategoricalDtype)`: " + t)
                    states, started, done = run(st.body, states, False)
                    if done:
                        return states, started, True
                    continue
                if _is_codes_assign(st, var):
                    states, started = [{"dtype": ("codes",), "guards": [], "trail": ["data = data.cat.codes"]}], True
                    continue
                if _codes_assign_in(st, var):
                    raise Undecided("`data = data.cat.codes` sits in a construct that is not modelled: " + type(st).__name__)
                continue                                             # before the codes are taken: irrelevant for their type
            # ---- after `data = data.cat.codes`
            if not _assigns_name(st, var):
                continue
            if isinstance(st, ast.Assign) and len(st.targets) == 1 and isinstance(st.targets[0], ast.Name) and st.targets[0].id == var:
                v = st.value
                if (isinstance(v, ast.Call) and isinstance(v.func, ast.Attribute) and v.func.attr == "astype"
                        and isinstance(v.func.value, ast.Name) and v.func.value.id == var and v.args):
                    d = _np_dtype(v.args[0])
                    if d is None:
                        raise Undecided("astype target not understood: " + ast.unparse(v.args[0]))
                    states = [dict(s, dtype=("cast", d[0], d[1], ast.unparse(v.args[0]).strip("'\"")), src=s["dtype"] if s["dtype"][0] == "codes" else s.get("src"),
                                   trail=s["trail"] + [ast.unparse(st)]) for s in states]
                    continue
                raise Undecided("assignment to `data` on the dictionary path that is not an astype: " + ast.unparse(st)[:80])
            if isinstance(st, ast.If):
                t = st.test
                txt = ast.unparse(t)
                # guards whose value is known on the categorical path
                known = None
                if (isinstance(t, ast.Compare) and len(t.ops) == 1 and isinstance(t.ops[0], (ast.In, ast.NotIn)) and ast.unparse(t.left) == "str(data0.dtype)"
                        and isinstance(t.comparators[0], (ast.List, ast.Tuple, ast.Set)) and all(isinstance(e, ast.Constant) for e in t.comparators[0].elts)
                        and facts["data_is_slice_of_data0"]):
                    inn = "category" in [e.value for e in t.comparators[0].elts]
                    known = inn if isinstance(t.ops[0], ast.In) else not inn
                elif "isinstance(data.dtype" in txt and "CategoricalDtype" in txt and isinstance(t, ast.Call):
                    known = False                                    # data holds integer codes now
                guard = None
                if (isinstance(t, ast.Compare) and len(t.ops) == 1 and isinstance(t.left, ast.Name) and t.left.id == "ncats"
                        and isinstance(t.comparators[0], ast.Constant) and isinstance(t.comparators[0].value, int) and facts["ncats_is_len_categories"]):
                    op = {ast.LtE: "<=", ast.Lt: "<", ast.GtE: ">=", ast.Gt: ">", ast.Eq: "==", ast.NotEq: "!="}.get(type(t.ops[0]))
                    if op:
                        guard = (op, t.comparators[0].value)
                neg = {"<=": ">", "<": ">=", ">=": "<", ">": "<=", "==": "!=", "!=": "=="}
                out = []
                if known is not False:
                    s1 = [dict(s, guards=s["guards"] + ([guard] if guard else []), trail=s["trail"] + ["if " + txt + ":"]) for s in states]
                    s1, _, done = run(st.body, s1, True)
                    if done:
                        raise Undecided("the encode call sits under a guard that also re-types `data`")
                    out += s1
                if known is not True:
                    s2 = [dict(s, guards=s["guards"] + ([(neg[guard[0]], guard[1])] if guard else [])) for s in states]
                    s2, _, done = run(st.orelse, s2, True)
                    if done:
                        raise Undecided("the encode call sits under a guard that also re-types `data`")
                    out += s2
                states = out
                continue
            raise Undecided("`data` is re-bound by a construct that is not modelled: " + ast.unparse(st)[:80])
        return states, started, False
    states, started, done = run(holder, [], False)
    if not done or not started:
        raise Undecided("the walk did not reach the encode call")
    return states, facts


def _is_codes_assign(st, var):
    return (isinstance(st, ast.Assign) and len(st.targets) == 1 and isinstance(st.targets[0], ast.Name) and st.targets[0].id == var
            and ast.unparse(st.value) == f"{var}.cat.codes")


def _codes_assign_in(st, var):
    return any(_is_codes_assign(n, var) for n in ast.walk(st))


def reader_branches(fn):
    """-> {'widths': [8, 16, 32], 'signed': True|False, 'fmt': 'int%i'} of the selfmade fast path of read_data_page"""
    for n in ast.walk(fn):
        if not isinstance(n, ast.If) or not isinstance(n.test, ast.BoolOp) or not isinstance(n.test.op, ast.And):
            continue
        widths, selfmade = None, False
        for v in n.test.values:
            if (isinstance(v, ast.Compare) and len(v.ops) == 1 and isinstance(v.ops[0], ast.In) and isinstance(v.left, ast.Name) and v.left.id == "bit_width"
                    and isinstance(v.comparators[0], (ast.List, ast.Tuple, ast.Set)) and all(isinstance(e, ast.Constant) for e in v.comparators[0].elts)):
                widths = [e.value for e in v.comparators[0].elts]
            if isinstance(v, ast.Name) and v.id == "selfmade":
                selfmade = True
        if widths is None or not selfmade:
            continue
        for c in ast.walk(ast.Module(body=n.body, type_ignores=[])):
            if isinstance(c, ast.Call) and ast.unparse(c.func) in ("np.frombuffer", "numpy.frombuffer"):
                dt = next((k.value for k in c.keywords if k.arg == "dtype"), c.args[1] if len(c.args) > 1 else None)
                if (isinstance(dt, ast.BinOp) and isinstance(dt.op, ast.Mod) and isinstance(dt.left, ast.Constant) and isinstance(dt.left.value, str)
                        and isinstance(dt.right, ast.Name) and dt.right.id == "bit_width"):
                    fmt = dt.left.value
                    if fmt in ("int%i", "int%d", "i%i"):
                        return {"widths": widths, "signed": True, "fmt": fmt}
                    if fmt in ("uint%i", "uint%d", "u%i"):
                        return {"widths": widths, "signed": False, "fmt": fmt}
                    raise Undecided("fast-path dtype format not understood: " + fmt)
                d = _np_dtype(dt) if dt is not None else None
                if d is not None:
                    return {"widths": [w for w in widths if w == d[0]] or widths, "signed": d[1], "fmt": ast.unparse(dt), "fixed_bits": d[0]}
                raise Undecided("fast-path dtype expression not understood: " + (ast.unparse(dt) if dt is not None else "<none>"))
        raise Undecided("fast path without np.frombuffer")
    return {"widths": [], "signed": None, "fmt": None}               # no fast path: every width goes to the hybrid decoder


def _guard_bv(g, nc):
    op, K = g
    Kb = z3.BitVecVal(K, 64)
    return {"<=": z3.ULE(nc, Kb), "<": z3.ULT(nc, Kb), ">=": z3.UGE(nc, Kb), ">": z3.UGT(nc, Kb), "==": nc == Kb, "!=": nc != Kb}[op]


def dict_index_pair(timeout=10000):
    res = KResults()
    wsrc, wtree = _src("fastparquet/writer.py")
    csrc, ctree = _src("fastparquet/core.py")
    wc, rd = _func(wtree, "write_column"), _func(ctree, "read_data_page")
    if wc is None or rd is None:
        res.addk("dict_index.call_site_dtype[write_column]", "functional", UNKNOWN, None, 0.0, "ast", "write_column / read_data_page not found")
        return res
    try:
        states, facts = call_site_states(wc)
        res.addk("dict_index.call_site_dtype[write_column]", "functional", PROVED, None, 0.0, "ast",
                 "element type of `data` at encode[encoding](data, ..) on the categorical path: " +
                 " | ".join(" -> ".join(s["trail"]) + (" {" + ", ".join(f"ncats {o} {k}" for o, k in s["guards"]) + "}" if s["guards"] else "")
                            for s in states))
    except Undecided as ex:
        res.addk("dict_index.call_site_dtype[write_column]", "functional", UNKNOWN, None, 0.0, "ast", "provenance not decided: " + str(ex))
        return res
    try:
        rb = reader_branches(rd)
        res.addk("dict_index.reader_branches[read_data_page]", "functional", PROVED, None, 0.0, "ast",
                 f"own files: widths {rb['widths']} are re-interpreted by np.frombuffer(dtype={rb['fmt']!r} % bit_width) = "
                 f"{'SIGNED' if rb['signed'] else 'unsigned'} items; every other width 1..32 is decoded by read_rle_bit_packed_hybrid (zero-extended)")
    except Undecided as ex:
        res.addk("dict_index.reader_branches[read_data_page]", "functional", UNKNOWN, None, 0.0, "ast", "not decided: " + str(ex))
        return res
    v, nc = z3.BitVec("v", 64), z3.BitVec("ncats", 64)
    mf = lambda m: {"ncats": m.eval(nc, model_completion=True).as_long(), "v": m.eval(v, model_completion=True).as_long()}

    def decode(w, signed_read):
        low = z3.Extract(w - 1, 0, v)
        if w == 64:
            return low
        return z3.SignExt(64 - w, low) if signed_read else z3.ZeroExt(64 - w, low)

    def pose(name, hyps, goal, note):
        if solve(list(hyps), 5000)[0] != REFUTED:                  # vacuity guard
            res.addk(name, "functional", PROVED, None, 0.0, "z3", note + " [no category count reaches this case]")
            return
        st, m, secs = solve(list(hyps) + [z3.Not(goal)], timeout)
        res.addk(name, "functional", st, mf(m) if m is not None else None, secs, "z3", note)
    base = [z3.ULT(v, nc)]                                           # a code of a non-null row: 0 <= v < ncats
    if facts["ncats_checked_i32"]:
        base.append(z3.ULE(nc, z3.BitVecVal(2 ** 31 - 1, 64)))      # check_32(len(categories)) on the dictionary page header (py_arith: check_32.fits_i32)
    # pandas' rule: which signed type holds the codes, by the number of categories
    codes_cases = [(8, [z3.ULT(nc, 127)]), (16, [z3.UGE(nc, 127), z3.ULT(nc, 32767)]), (32, [z3.UGE(nc, 32767), z3.ULT(nc, 2 ** 31 - 1)]),
                   (64, [z3.UGE(nc, 2 ** 31 - 1)])]
    seen = set()
    for s in states:
        g = [_guard_bv(x, nc) for x in s["guards"]]
        gtxt = (" if " + " and ".join(f"ncats {o} {k}" for o, k in s["guards"])) if s["guards"] else ""
        if s["dtype"][0] == "codes":
            cases = [(w, True, f"codes:int{w}", cond) for w, cond in codes_cases]
        else:
            _, w, sg, txt = s["dtype"]
            # the cast must keep every code: v representable in the target type
            rng = z3.ULE(v, z3.BitVecVal(SIGNED_MAX[w] if sg else (2 ** w - 1 if w < 64 else 2 ** 63 - 1), 64))
            nm = f"dict_index.cast_keeps_codes[{txt}{gtxt}]"
            if nm not in seen:
                seen.add(nm)
                pose(nm, base + g, rng, f"astype({txt!r}) on the dictionary path keeps every code of [0, ncats) under its guard")
            cases = [(w, sg, f"cast:{txt}{gtxt}", [rng])]
        for w, sg, label, cond in cases:
            nm = f"dict_index.pair_roundtrip[{label}{gtxt if label.startswith('codes') else ''}]"
            if nm in seen:
                continue
            seen.add(nm)
            hyps = base + g + cond
            if w in rb["widths"]:
                how = f"fast path, {'signed' if rb['signed'] else 'unsigned'} int{w}"
                goal = decode(w, rb["signed"]) == v
            elif 1 <= w <= 32:
                how = f"hybrid decoder at width {w} (zero-extended)"
                goal = decode(w, False) == v
            else:
                how = f"NO branch of the reader decodes a width-{w} run (fast path {rb['widths']}, hybrid decoder widths 1..32; the format " \
                      f"allows index widths up to 32)"
                goal = z3.BoolVal(False)
            pose(nm, hyps, goal,
                 f"encode_dict writes width byte {w} and the little-endian {'signed' if sg else 'unsigned'} int{w} items; reader: {how}; "
                 "decode(encode(v)) == v for every code v in [0, ncats)")
    return res


def replay_dict_index(name, model, repo):
    """native confirmation for dict_index.pair_roundtrip[..]: the real encode_dict and the real value branch of core.read_data_page"""
    import re
    from .c11_encoders import _sub
    m = re.search(r"\[(codes|cast):(?:np\.)?u?int(\d+)", name)
    if not m or "pair_roundtrip" not in name:
        return False, "no native replay registered for this obligation", None
    unsigned = "uint" in name.split("[", 1)[1]
    w = int(m.group(2))
    vmax = int((model or {}).get("v") or 0)
    prog = f'''
import sys, json
sys.path.insert(0, {repo!r})
import numpy as np, pandas as pd
from fastparquet import writer
from fastparquet import cencoding as encoding
vals = np.array([0, 1, {min(vmax, 2 ** 62)} % (1 << {w - (0 if unsigned else 1)}), 3, 4, 5, 6, 7], dtype="{'u' if unsigned else ''}int{w}")
blk = writer.encode_dict(pd.Series(vals), None)
# the value branch of core.read_data_page for an own file (selfmade=True), fed with exactly these bytes
io_obj = encoding.NumpyIO(np.frombuffer(blk + bytes(8), "uint8").copy())
bit_width = io_obj.read_byte()
if bit_width in [8, 16, 32]:
    num = (encoding.read_unsigned_var_int(io_obj) >> 1) * 8
    got = np.frombuffer(io_obj.read(num * bit_width // 8), dtype="int%i" % bit_width)[:len(vals)]
elif bit_width > 8:
    got = np.empty(len(vals), dtype=np.int32)
    encoding.read_rle_bit_packed_hybrid(io_obj, bit_width, io_obj.len - io_obj.tell(), o=encoding.NumpyIO(got.view("uint8")), itemsize=4)
else:
    got = np.empty(len(vals), dtype=np.uint8)
    encoding.read_rle_bit_packed_hybrid(io_obj, bit_width, io_obj.len - io_obj.tell(), o=encoding.NumpyIO(got), itemsize=1)
print(json.dumps(dict(VIOLATED=[int(x) for x in got] != [int(x) for x in vals], detail=dict(width_byte=int(bit_width), wrote=[int(x) for x in vals],
      read=[int(x) for x in got]))))
'''
    return _sub(prog)


# =================================================================================================
# (B) purity / freshness of the decoders in encoding.py
# =================================================================================================
ALLOC = {"np.empty", "np.zeros", "np.ones", "np.full", "np.array", "np.dtype", "np.arange", "bytes", "bytearray", "list", "dict", "tuple",
         "np.empty_like", "np.zeros_like", "int", "float", "str", "len", "bool", "np.unpackbits", "np.concatenate"}
VIEW_OF_ARG0 = {"np.frombuffer", "memoryview", "np.asarray", "np.ascontiguousarray"}
VIEW_METHODS = {"view", "reshape", "ravel", "squeeze", "T", "data"}
FRESH_METHODS = {"copy", "astype", "decode", "encode", "tobytes", "tolist", "sum", "max", "min"}
READONLY_METHODS = {"get", "keys", "values", "items"}
MUTATORS = {"append", "extend", "insert", "pop", "popitem", "remove", "clear", "update", "setdefault", "sort", "reverse", "fill", "resize",
            "add", "discard", "put", "setflags", "itemset", "__setitem__", "__delitem__"}
EXTERNAL_FRESH = {"unpack_byte_array": "speedups.unpack_byte_array allocates its result (contracts/c12_speedups.py)"}
EXTERNAL_VOID = {"read_bitpacked1", "NumpyIO"}                      # touch only what they are handed; results carry the provenance of their args

ARG, FRESH, CONST, GLOBAL, TABLE, UNK = "argument", "fresh", "constant", "module-state", "table-element", "undecided"


def _module_bindings(tree):
    """module-level names -> 'import' | 'def' | 'immutable' | 'container' (dict/list/set display or any call result) | 'other'"""
    b = {}
    for st in tree.body:
        if isinstance(st, (ast.Import, ast.ImportFrom)):
            for a in st.names:
                b[(a.asname or a.name).split(".")[0]] = "import"
        elif isinstance(st, (ast.FunctionDef, ast.ClassDef, ast.AsyncFunctionDef)):
            b[st.name] = "def"
        elif isinstance(st, (ast.Assign, ast.AnnAssign, ast.AugAssign)):
            tg = st.targets if isinstance(st, ast.Assign) else [st.target]
            val = st.value
            for t in tg:
                for n in ast.walk(t):
                    if isinstance(n, ast.Name):
                        if isinstance(val, ast.Constant) or (isinstance(val, ast.Tuple) and all(isinstance(e, ast.Constant) for e in val.elts)):
                            kind = "immutable"
                        else:
                            kind = "container"
                        b[n.id] = kind if b.get(n.id) in (None, kind) else "container"
    return b


def _callname(c):
    try:
        return ast.unparse(c.func)
    except Exception:
        return "?"


def decoder_purity(timeout=0):
    res = KResults()
    src, tree = _src("fastparquet/encoding.py")
    mod = _module_bindings(tree)
    containers = {k for k, v in mod.items() if v == "container"}
    funcs = [n for n in tree.body if isinstance(n, ast.FunctionDef)]
    # ---- module level: is any container mutated / rebound after its definition, anywhere?
    mutated = {}
    for fn in funcs:
        local_names = {a.arg for a in fn.args.args + fn.args.kwonlyargs} | ({fn.args.vararg.arg} if fn.args.vararg else set()) | \
                      ({fn.args.kwarg.arg} if fn.args.kwarg else set())
        declared_global = {nm for n in ast.walk(fn) if isinstance(n, (ast.Global, ast.Nonlocal)) for nm in n.names}
        for n in ast.walk(fn):
            if isinstance(n, ast.Name) and isinstance(n.ctx, ast.Store) and n.id not in declared_global:
                local_names.add(n.id)
        fn._locals, fn._globals_decl = local_names, declared_global
        for n in ast.walk(fn):
            tgt = None
            if isinstance(n, ast.Name) and isinstance(n.ctx, (ast.Store, ast.Del)) and n.id in declared_global:
                tgt, how = n.id, "rebound through `global`"
            elif isinstance(n, (ast.Subscript, ast.Attribute)) and isinstance(n.ctx, (ast.Store, ast.Del)):
                r = n.value
                while isinstance(r, (ast.Subscript, ast.Attribute)):
                    r = r.value
                if isinstance(r, ast.Name) and r.id not in local_names and mod.get(r.id) in ("container", "import"):
                    tgt, how = r.id, "stored into"
            elif isinstance(n, ast.Call) and isinstance(n.func, ast.Attribute) and n.func.attr in MUTATORS:
                r = n.func.value
                while isinstance(r, (ast.Subscript, ast.Attribute)):
                    r = r.value
                if isinstance(r, ast.Name) and r.id not in local_names and mod.get(r.id) == "container":
                    tgt, how = r.id, f".{n.func.attr}() called on it"
            if tgt:
                mutated.setdefault(tgt, []).append(f"{fn.name} L{n.lineno}: {how}")
    res.addk("decoder_purity.module_tables_never_mutated", "functional", REFUTED if mutated else PROVED,
             {k: v[:3] for k, v in mutated.items()} if mutated else None, 0.0, "ast",
             "no function of encoding.py stores into, calls a mutator on, or rebinds a module-level object; module-level containers: "
             + (", ".join(sorted(containers)) or "none"))
    clean = {}                                                         # function name -> set of provenances of its results (fixpoint, 2 rounds)

    def analyse(fn, report):
        params = {a.arg for a in fn.args.args + fn.args.kwonlyargs}
        assigns = {}
        for n in ast.walk(fn):
            if isinstance(n, ast.Assign):
                for t in n.targets:
                    if isinstance(t, ast.Name):
                        assigns.setdefault(t.id, []).append(n.value)
                    elif isinstance(t, (ast.Tuple, ast.List)):
                        for e in t.elts:
                            if isinstance(e, ast.Name):
                                assigns.setdefault(e.id, []).append(None)
            elif isinstance(n, (ast.AugAssign, ast.AnnAssign)) and isinstance(n.target, ast.Name):
                assigns.setdefault(n.target.id, []).append(n.value if isinstance(n, ast.AnnAssign) else None)
            elif isinstance(n, (ast.For, ast.comprehension)) and isinstance(n.target, ast.Name):
                assigns.setdefault(n.target.id, []).append(None)
        misuse, why_unk = [], []
        busy = set()

        def prov(e):
            if e is None:
                why_unk.append("a value bound by unpacking / iteration")
                return {UNK}
            if isinstance(e, ast.Constant):
                return {CONST}
            if isinstance(e, ast.Name):
                out = set()
                if e.id in params:
                    out.add(ARG)
                if e.id in assigns and e.id not in fn._globals_decl:
                    if e.id in busy:
                        return out
                    busy.add(e.id)
                    for v in assigns[e.id]:
                        out |= prov(v)
                    busy.discard(e.id)
                if out:
                    return out
                if e.id in fn._globals_decl or mod.get(e.id) == "container":
                    return {GLOBAL}
                if mod.get(e.id) in ("immutable", "def", "import") or e.id in ("None", "True", "False") or e.id in dir(__builtins__) or e.id in dir(__import__("builtins")):
                    return {CONST}
                why_unk.append(f"name {e.id} is neither a parameter, a local, nor a module-level binding")
                return {UNK}
            if isinstance(e, ast.BoolOp):
                return set().union(*[prov(v) for v in e.values])
            if isinstance(e, ast.IfExp):
                return prov(e.body) | prov(e.orelse)
            if isinstance(e, (ast.BinOp, ast.UnaryOp, ast.Compare, ast.JoinedStr, ast.List, ast.Tuple, ast.Dict, ast.Set, ast.ListComp, ast.DictComp,
                              ast.SetComp, ast.GeneratorExp)):
                return {FRESH}
            if isinstance(e, ast.Subscript):
                p = prov(e.value)
                if GLOBAL in p and isinstance(e.value, ast.Name) and e.value.id in containers and e.value.id not in mutated \
                        and not isinstance(e.slice, ast.Slice):
                    return (p - {GLOBAL}) | {TABLE}                      # lookup in a read-only table
                return p
            if isinstance(e, ast.Attribute):
                if e.attr in VIEW_METHODS:
                    return prov(e.value)
                p = prov(e.value)
                return {CONST} if p <= {CONST} else p
            if isinstance(e, ast.Call):
                nm = _callname(e)
                if nm in ALLOC:
                    return {FRESH}
                if nm in VIEW_OF_ARG0 and e.args:
                    return prov(e.args[0])
                if isinstance(e.func, ast.Attribute):
                    recv = prov(e.func.value)
                    if e.func.attr in FRESH_METHODS:
                        return {FRESH}
                    if e.func.attr in VIEW_METHODS:
                        return recv
                    if recv & {GLOBAL}:
                        return {GLOBAL}
                    if e.func.attr in READONLY_METHODS:
                        return {TABLE} if TABLE in recv or GLOBAL in recv else recv
                    if isinstance(e.func.value, ast.Name) and mod.get(e.func.value.id) == "import" and nm not in ALLOC:
                        why_unk.append(f"result of {nm}(...) - not in the table of known library calls")
                        return {UNK}
                    return recv | {FRESH}
                if isinstance(e.func, ast.Name):
                    if e.func.id in EXTERNAL_FRESH:
                        return {FRESH}
                    if e.func.id in EXTERNAL_VOID:
                        return set().union(*[prov(a) for a in e.args]) if e.args else {FRESH}
                    if e.func.id in clean:
                        r = set(clean[e.func.id])
                        if ARG in r:
                            r = (r - {ARG}) | (set().union(*[prov(a) for a in list(e.args) + [k.value for k in e.keywords]]) if (e.args or e.keywords) else set())
                        return r
                why_unk.append(f"result of {nm}(...) - callee not analysed")
                return {UNK}
            why_unk.append("expression " + type(e).__name__)
            return {UNK}
        # uses of module state other than read-only lookups
        for n in ast.walk(fn):
            if isinstance(n, ast.Call):
                for a in list(n.args) + [k.value for k in n.keywords]:
                    if isinstance(a, ast.Starred) or (isinstance(a, ast.keyword) and a.arg is None):
                        continue
                    p = prov(a)
                    if GLOBAL in p:
                        misuse.append(f"L{n.lineno}: module-level state flows into {_callname(n)}(...)")
                if isinstance(n.func, ast.Attribute):
                    p = prov(n.func.value)
                    if GLOBAL in p and n.func.attr not in READONLY_METHODS | {"__contains__"}:
                        misuse.append(f"L{n.lineno}: .{n.func.attr}() on module-level state")
            elif isinstance(n, (ast.Subscript, ast.Attribute)) and isinstance(n.ctx, (ast.Store, ast.Del)):
                if GLOBAL in prov(n.value) or TABLE in prov(n.value):
                    misuse.append(f"L{n.lineno}: store into module-level state")
            elif isinstance(n, ast.Name) and isinstance(n.ctx, ast.Store) and n.id in fn._globals_decl:
                misuse.append(f"L{n.lineno}: module-level name {n.id} rebound")
            elif isinstance(n, ast.Name) and isinstance(n.ctx, ast.Load) and n.id in fn._globals_decl:
                misuse.append(f"L{n.lineno}: module-level variable {n.id} read")
        rets = [n for n in ast.walk(fn) if isinstance(n, ast.Return) and n.value is not None]
        rp = set()
        for r in rets:
            rp |= prov(r.value)
        if not report:
            return rp
        tag = f"decoder_purity[{fn.name}]"
        g = [n for n in ast.walk(fn) if isinstance(n, (ast.Global, ast.Nonlocal))]
        res.addk(tag + ".no_global_statement", "functional", REFUTED if g else PROVED,
                 {"statement": ast.unparse(g[0]), "line": g[0].lineno} if g else None, 0.0, "ast", "the function declares no `global` / `nonlocal` name")
        md = [d for d in list(fn.args.defaults) + [d for d in fn.args.kw_defaults if d is not None]
              if isinstance(d, (ast.List, ast.Dict, ast.Set, ast.Call, ast.ListComp, ast.DictComp))]
        res.addk(tag + ".no_mutable_default", "functional", REFUTED if md else PROVED, {"default": ast.unparse(md[0])} if md else None, 0.0, "ast",
                 "no default value is an object shared between calls")
        res.addk(tag + ".module_state_untouched", "functional", REFUTED if misuse else PROVED, {"uses": sorted(set(misuse))[:4]} if misuse else None, 0.0,
                 "ast", "module-level mutable objects are at most looked up in; nothing of them is written, passed on or returned")
        bad = rp & {GLOBAL, TABLE}
        st = REFUTED if bad else UNKNOWN if UNK in rp else PROVED
        res.addk(tag + ".result_fresh_or_from_arguments", "functional", st,
                 {"provenance_of_results": sorted(rp), "returns": [f"L{r.lineno}: {ast.unparse(r.value)[:60]}" for r in rets][:6]} if st != PROVED else None,
                 0.0, "ast", ("every returned value is derived from the arguments, allocated in this call, or a constant: " + ", ".join(sorted(rp)))
                 if st != UNKNOWN else "provenance not decided: " + "; ".join(sorted(set(why_unk))[:3]))
        return rp
    for _ in range(2):                                                   # callee summaries first (two rounds reach the fixpoint for a call DAG)
        for fn in funcs:
            clean[fn.name] = analyse(fn, False)
    for fn in funcs:
        analyse(fn, True)
    if not funcs:
        res.addk("decoder_purity.module_tables_never_mutated", "functional", UNKNOWN, None, 0.0, "ast", "no function found in encoding.py")
    return res
